import torch, kornia.core
kornia.core.Tensor = torch.Tensor
import ast, inspect, textwrap, types
from typing import List
import numpy as np
import sleap_nn.data.providers as prov
import sleap_nn.inference.predictors as pred

class QT(ast.NodeTransformer):
    """turn queue ops / thread ops / yields into scheduler requests"""
    def visit_Yield(self, node):
        self.generic_visit(node)
        return ast.Yield(value=ast.Tuple(elts=[ast.Constant("out"), node.value], ctx=ast.Load()))
    def visit_Call(self, node):
        self.generic_visit(node)
        f=node.func
        if isinstance(f, ast.Attribute):
            if isinstance(f.value, ast.Attribute) and f.value.attr=="frame_buffer" and f.attr in ("put","get","full","empty","qsize","put_nowait","get_nowait"):
                return ast.Yield(value=ast.Tuple(elts=[ast.Constant(f.attr)]+node.args, ctx=ast.Load()))
            if isinstance(f.value, ast.Attribute) and f.value.attr=="pipeline" and f.attr in ("start","join"):
                return ast.Yield(value=ast.Tuple(elts=[ast.Constant(f.attr)], ctx=ast.Load()))
        return node
def coroutine_of(fn, glb):
    src=textwrap.dedent(inspect.getsource(fn)); tree=ast.parse(src)
    fd=tree.body[0]; fd.decorator_list=[]
    # apply transformer to body only (skip the outer def's own yields handling is fine)
    QT().visit(fd); ast.fix_missing_locations(tree)
    ns={}; exec(compile(tree, f"<coroutine {fn.__qualname__}>", "exec"), glb, ns)
    return ns[fd.name]

class NoLog:
    def __getattr__(self,k): return lambda *a,**k: None
g1=dict(vars(prov)); g1["logger"]=NoLog(); g2=dict(vars(pred)); g2["logger"]=NoLog()
run_co = coroutine_of(prov.VideoReader.run, g1)
gen_co = coroutine_of(pred.Predictor._predict_generator, g2)

class FakeVideo:
    def __init__(self, n, fail): self.n=n; self.fail=fail; self.shape=(n,4,4,1)
    def __getitem__(self, idx):
        if idx==self.fail: raise IOError("read failure")
        return np.full((4,4,1), idx % 251, dtype=np.uint8)
class Obj: pass

def simulate(start:int, end:int, Q:int, B:int, fail:int, sched:List[bool]):
    reader=Obj(); reader.video=FakeVideo(end, fail); reader.start_idx=start; reader.end_idx=end; reader.frame_buffer=None
    P=Obj(); P.pipeline=Obj(); P.pipeline.frame_buffer=None
    P.inference_model=lambda ex: [{"frame_idx": ex["frame_idx"], "n": ex["image"].shape[0]}]
    P.preprocess_config={"batch_size":B,"scale":1.0,"is_rgb":False,"max_stride":1,"max_height":None,"max_width":None}
    P.instances_key=False; P.preprocess=False
    P._convert_tensors_to_numpy=lambda o: o
    prod=run_co(reader); cons=gen_co(P)
    buf=[]; out=[]; delivered=[]
    pstate="notstarted"; preq=None   # producer pending request
    creq=None; cdone=False; csend=None; psend=None
    steps=0; si=0
    def step_prod():
        nonlocal preq, pstate, psend
        try: preq=prod.send(psend) if pstate=="running" else next(prod); pstate="running"
        except StopIteration: pstate="done"; preq=None
        psend=None
    # start consumer
    creq=next(cons)
    while True:
        steps+=1
        if steps>200: return ("diverge",out,delivered)
        # which moves are enabled?
        c_en = (not cdone) and (creq[0]!="get" or len(buf)>0) and (creq[0]!="join" or pstate=="done")
        p_en = pstate in ("running",) and preq is not None and (preq[0]!="put" or len(buf)<Q)
        if not c_en and not p_en:
            return ("deadlock" if not cdone else "ok", out, delivered)
        if c_en and p_en:
            pick_c = sched[si] if si < len(sched) else True; si+=1
        else: pick_c = c_en
        if pick_c:
            k=creq[0]
            if k=="start": pstate="running"; step_prod_first=True; 
            if k=="start":
                try: preq=next(prod)
                except StopIteration: pstate="done"; preq=None
                csend=None
            elif k=="get": csend=buf.pop(0); delivered.append(csend["frame_idx"])
            elif k=="out": out.append(creq[1]); csend=None
            elif k=="join": csend=None
            try: creq=cons.send(csend)
            except StopIteration: cdone=True
        else:
            k=preq[0]
            if k=="put": buf.append(preq[1]); psend=None
            try: preq=prod.send(psend)
            except StopIteration: pstate="done"; preq=None

def check(start:int, end:int, Q:int, B:int, fail:int, sched:List[bool]) -> bool:
    """
    pre: 0 <= start <= end <= 3
    pre: 1 <= Q <= 2
    pre: 1 <= B <= 2
    pre: -1 <= fail <= 3
    pre: len(sched) <= 6
    post: _
    """
    status,out,delivered=simulate(start,end,Q,B,fail,sched)
    if status!="ok": return False
    stop = end if (fail<start or fail>=end) else fail
    exp=list(range(start,stop))
    got=[int(i) for o in out for i in o["frame_idx"]]
    nsent=sum(1 for d in delivered if d is None)
    return got==exp and nsent==1 and delivered[-1] is None
if __name__=="__main__":
    print(simulate(0,3,2,2,-1,[True,False,True]))
    print(check(0,3,1,2,1,[False]*4), check(1,1,1,1,-1,[]))
