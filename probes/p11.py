# Probe: aliasing through views is visible on the argument's id tensor (basis of the C11 purity check)
import torch, z3, symt
from symt import *
x=sym_float_tensor("p",(1,2,3,2), may_nan=False)
before=x.ids.clone()
ex=Explorer([]); symt.EXPLORER=ex
mode=SymMode(); mode.__enter__()
y=x[...,0,:]                       # view (select)
m=torch.tensor([[True,False]])
y[m]=torch.tensor([[7.0,8.0]])     # in-place write through the view
mode.__exit__(None,None,None)
print("argument ids changed:", bool((before!=x.ids).any()), (before!=x.ids).nonzero().tolist())
print([symt.TERMS[i] for i in x.ids[0,0,0].tolist()])
