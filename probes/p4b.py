# Probe: C05 at a larger shape: 2 animals, 3 nodes, 2 edges, 3x3 grid; NaN-freedom + direction/magnitude per animal (single-animal runs) and additivity
import torch, z3, time, symt, sys
from symt import *
from sleap_nn.data.edge_maps import generate_pafs
A=int(sys.argv[1]) if len(sys.argv)>1 else 2
H=W=6; stride=2; sigma=1.5; N=3; edges=[[0,1],[1,2]]
symt.EXP_MODE="fresh"; z3.set_param("timeout",60000)
inst=sym_float_tensor("k",(1,A,N,2), may_nan=True)
kv=inst.vals()
for i in range(0,len(kv),2): kv[i+1].nan=kv[i].nan      # a node is missing as a whole
ex=Explorer([]); symt.EXPLORER=ex
mode=SymMode(); mode.__enter__()
t0=time.time()
def path():
    symt.SIDE.clear()
    return generate_pafs(inst,(H,W),sigma,stride,torch.tensor(edges),True)
G=H//stride
for out in ex.run(path):
    ov=out.vals()
    ex.solver.add(*symt.SIDE)
    assert ex.check()==z3.sat
    t=time.time(); r1=ex.check(z3.Or(*[zbool(v.nan) for v in ov])); t1=time.time()-t
    r2="-"; t2=0
    if A==1:
        cons=[]
        for e,(s_,d_) in enumerate(edges):
            sx,sy=kv[2*s_].v,kv[2*s_+1].v; dx,dy=kv[2*d_].v,kv[2*d_+1].v
            ex_=dx-sx; ey_=dy-sy
            for i in range(G):
                for j in range(G):
                    px=zreal(ov[(2*e)*G*G+i*G+j].v); py=zreal(ov[(2*e+1)*G*G+i*G+j].v)
                    cons.append(z3.Or(px*ey_!=py*ex_, px*ex_+py*ey_<0, px*px+py*py>1))
        t=time.time(); rs=[str(ex.check(c)) for c in cons]; r2=dict((x,rs.count(x)) for x in set(rs)); t2=time.time()-t
    print("path",ex.paths,"shape",tuple(out.shape),"nonan:",r1,round(t1,2),"dir:",r2,round(t2,2))
print("paths",ex.paths,"time",round(time.time()-t0,1),STATS)
