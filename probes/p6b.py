# Probe: C15 monotonicity of the real compute_oks in the distance of one predicted keypoint (UF exp + monotone axioms)
import numpy as real_np, z3, time, symt, symnp
from symnp import SF, SB
from symt import *
import sleap_nn.evaluation as ev
ev.np = symnp.np
z3.set_param("timeout",60000)
N=2
def symarr(name, shape):
    a=real_np.empty(shape,dtype=object)
    for idx in real_np.ndindex(*shape): a[idx]=SF(z3.Real(name+"_".join(map(str,idx))))
    return a.view(symnp.SymNd)
gt=symarr("g",(1,N,2)); pr=symarr("p",(1,N,2)); pr2=symarr("q",(1,N,2))
base=[]
# pr2 equals pr except node 0, which is farther from gt node 0
for c in range(2): base.append(pr2[0,1,c].v==pr[0,1,c].v)
d1=sum(((gt[0,0,c].v-pr[0,0,c].v)*(gt[0,0,c].v-pr[0,0,c].v)) for c in range(2))
d2=sum(((gt[0,0,c].v-pr2[0,0,c].v)*(gt[0,0,c].v-pr2[0,0,c].v)) for c in range(2))
base.append(d2>=d1)
ex=Explorer(base); symt.EXPLORER=ex; symt.EXP_MODE="uf"
t0=time.time()
def path():
    symt.SIDE.clear(); symt.EXP_APPS.clear()
    return ev.compute_oks(gt,pr), ev.compute_oks(gt,pr2)
for o1,o2 in ex.run(path):
    a=o1[0,0]; b=o2[0,0]
    ex.solver.add(*exp_axioms())
    t=time.time(); r=ex.check(zreal(b.v)>zreal(a.v)); print("path",ex.paths,"monotone:",r,round(time.time()-t,2), "exp apps",len(symt.EXP_APPS))
print("time",round(time.time()-t0,1),STATS)
