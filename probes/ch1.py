import torch, kornia.core
kornia.core.Tensor = torch.Tensor
from typing import List
from sleap_nn.train import get_aug_config

NAMES_G = {"rotation","scale","translate","erase_scale","mixup"}
def check_geo(names: List[str]) -> bool:
    """
    pre: len(names) <= 2
    pre: all(n in ("rotation","scale","translate","erase_scale","mixup") for n in names)
    post: _
    """
    cfg = get_aug_config(None, list(names))
    g = cfg.geometric
    ok = True
    if "rotation" in names: ok = ok and g.affine_p == 1.0 and g.rotation != 0
    if "scale" in names: ok = ok and g.affine_p == 1.0 and tuple(g.scale) != (1.0, 1.0)
    if "translate" in names: ok = ok and g.affine_p == 1.0 and g.translate_height != 0 and g.translate_width != 0
    if "erase_scale" in names: ok = ok and g.erase_p == 1.0
    if "mixup" in names: ok = ok and g.mixup_p == 1.0
    return ok
