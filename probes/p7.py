import torch, z3, time, symt, itertools, sys
from symt import *
import sleap_nn.inference.peak_finding as pf
from sleap_nn.inference.topdown import CentroidCrop, FindInstancePeaks, TopDownInferenceModel
z3.set_param("timeout",120000)
# ---- stubs -----
CROPS=[]
def crop_stub(images, boxes, size, **kw):
    CROPS.append((boxes,size))
    n=boxes.shape[0]
    return torch.zeros((n, images.shape[1], int(size[0]), int(size[1])))
pf.crop_and_resize = crop_stub
import sleap_nn.inference.topdown as td
pf.torch=symt.TORCH_PROXY; td.torch=symt.TORCH_PROXY
def ideal_cells(tag, px, py, G, stride, vis):
    """abstract ideal confmap for point (px,py) (network-input coords) on GxG grid"""
    cells=[]; cons=[]; vals=[]
    for i in range(G):
        for j in range(G):
            v=z3.Real(f"{tag}_{i}_{j}"); cells.append((v,i,j)); vals.append(FV(False,v))
            cons += [z3.Implies(vis, z3.And(v>0.3, v<=1)), z3.Implies(z3.Not(vis), v==0)]
    for (v,i,j),(w,k,l) in itertools.combinations(cells,2):
        diff=((j*stride)**2-(l*stride)**2)-2*px*(j*stride-l*stride)+((i*stride)**2-(k*stride)**2)-2*py*(i*stride-k*stride)
        cons += [z3.Implies(vis, z3.And(z3.Implies(diff<0, v>w), z3.Implies(diff>0, v<w), z3.Implies(diff==0, v==w)))]
    return vals, cons
H=W=12; cstride=2; istride=2; crop=8; nodes=2
kx=[z3.Real(f"kx{n}") for n in range(nodes)]; ky=[z3.Real(f"ky{n}") for n in range(nodes)]
base=[]
# anchor (node0) inside image with margin, node1 within crop
base += [kx[0]>=2, kx[0]<=H-3, ky[0]>=2, ky[0]<=H-3]
base += [kx[1]-kx[0]<=2, kx[0]-kx[1]<=2, ky[1]-ky[0]<=2, ky[0]-ky[1]<=2]
class CentroidNet(torch.nn.Module):
    def forward(self, img):
        G=img.shape[-1]//cstride
        vals,cons=ideal_cells("cc",kx[0],ky[0],G,cstride,z3.BoolVal(True)); symt.SIDE+=cons; symt.EXPLORER.solver.add(*cons)
        return mk(vals,(1,1,G,G),torch.float32)
class InstNet(torch.nn.Module):
    def forward(self, img):
        G=img.shape[-1]//istride
        # bbox top-left captured by pre-hook
        tl=self.tl   # FV x, FV y
        vals=[]
        for n in range(nodes):
            v,cons=ideal_cells(f"ic{n}", kx[n]-zreal(tl[0].v), ky[n]-zreal(tl[1].v), G, istride, z3.BoolVal(True)); symt.SIDE+=cons; symt.EXPLORER.solver.add(*cons); vals+=v
        return mk(vals,(1,nodes,G,G),torch.float32)
inet=InstNet()
cc=CentroidCrop(CentroidNet(), output_stride=cstride, peak_threshold=0.2, max_instances=None, refinement=None, return_crops=True, crop_hw=(crop,crop), input_scale=1.0, max_stride=1)
fip=FindInstancePeaks(inet, output_stride=istride, peak_threshold=0.2, refinement=None, input_scale=1.0, max_stride=1)
def hook(mod, args):
    bb=args[0]["instance_bbox"]   # (n,1,4,2)
    v=bb.vals(); inet.tl=(v[0],v[1])
fip.register_forward_pre_hook(hook)
model=TopDownInferenceModel(cc,fip)
ex=Explorer(base); symt.EXPLORER=ex
mode=SymMode(); mode.__enter__()
t0=time.time()
def path():
    symt.SIDE.clear(); CROPS.clear()
    batch={"image":torch.zeros(1,1,1,H,W),"frame_idx":torch.tensor([0]),"video_idx":torch.tensor([0]),"orig_size":torch.tensor([[H,W]]),"eff_scale":torch.tensor([1.0])}
    return model(batch)
npaths=0
for out in ex.run(path):
    ex.solver.add(*symt.SIDE)
    if ex.check()!=z3.sat: print("path",ex.paths,"infeasible-after-side"); continue
    if out is None or len(out)==0: 
        print("path",ex.paths,"no output; feasible?", ex.check()); continue
    o=out[0]
    pk=o["pred_instance_peaks"].vals(); bb=o["instance_bbox"].vals()
    tol=Fraction(istride,2)
    bad=[]
    for n in range(nodes):
        x=zreal(pk[2*n].v)+zreal(bb[0].v); y=zreal(pk[2*n+1].v)+zreal(bb[1].v)
        bad.append(z3.Or(zbool(pk[2*n].nan), x-kx[n]>zreal(tol), kx[n]-x>zreal(tol), y-ky[n]>zreal(tol), ky[n]-y>zreal(tol)))
    t=time.time(); r=ex.check(z3.Or(*bad)); print("path",ex.paths,"pc",len(ex.pc),"n_out",len(out),"result",r,round(time.time()-t,2))
    if r==z3.sat:
        m=ex.solver.model(); print("  k=",[m.eval(v) for v in kx+ky], "pred=",[m.eval(zreal(p.v)) for p in pk], "bb=",[m.eval(zreal(b.v)) for b in bb[:2]])
print("paths",ex.paths,"time",round(time.time()-t0,1), STATS)
