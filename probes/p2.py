import torch, z3, time, symt
from symt import *
from sleap_nn.data.confidence_maps import make_confmaps, generate_confmaps, generate_multiconfmaps
t0=time.time()
pts=sym_float_tensor("p",(1,2,2))
sigma=1.5; stride=2; H=W=8
out=generate_confmaps(pts,(H,W),sigma,stride)
print(out, time.time()-t0)
vals=out.vals(); pv=pts.vals()
s=z3.Solver(); s.add(*exp_axioms())
# property: every value finite (not nan) and in [0,1]
bad=z3.Or(*[z3.Or(zbool(v.nan), zreal(v.v)<0, zreal(v.v)>1) for v in vals])
t=time.time(); print("range:", s.check(bad), time.time()-t)
# property: value == exp(-d2/(2 (sigma*stride)^2)) when not nan, 0 when nan
import fractions
cons=[]
k=0
for n in range(2):
    x=pv[2*n]; y=pv[2*n+1]
    for i in range(H//stride):
        for j in range(W//stride):
            v=vals[n*16+i*4+j]
            d2=(j*stride-x.v)*(j*stride-x.v)+(i*stride-y.v)*(i*stride-y.v)
            spec=z3.If(z3.Or(x.nan,y.nan), z3.RealVal(0), EXP(-d2/(2*(sigma*stride)**2)))
            cons.append(zreal(v.v)!=spec)
t=time.time(); print("spec:", s.check(z3.Or(*cons)), time.time()-t)
