import torch, z3, time, symt, itertools, sys
from symt import *
from sleap_nn.data.edge_maps import generate_pafs
H=W=int(sys.argv[1]) if len(sys.argv)>1 else 4
stride=2; sigma=1.5
inst=sym_float_tensor("k",(1,1,2,2), may_nan=True)   # 1 sample, 1 instance, 2 nodes
kv=inst.vals()
symt.EXP_MODE="fresh"
ex=Explorer([]); symt.EXPLORER=ex; z3.set_param("timeout",60000)
t0=time.time()
def path():
    return generate_pafs(inst,(H,W),sigma,stride,torch.tensor([[0,1]]),True)
mode=SymMode(); mode.__enter__()
for out in ex.run(path):
    ov=out.vals() if isinstance(out,SymTensor) else None
    print("path",ex.paths, "pc",len(ex.pc), type(out).__name__, tuple(out.shape), "side",len(SIDE), "exp apps", len(symt.EXP_APPS))
    if ov is None: continue
    ex.solver.add(*SIDE); pass
    # no NaN in output
    t=time.time(); r=ex.check(z3.Or(*[zbool(v.nan) for v in ov])); print("  nonan:",r,time.time()-t)
    # direction: paf_x*dy == paf_y*dx
    sx,sy,dx,dy=[kv[i].v for i in range(4)]
    ex_=dx-sx; ey_=dy-sy
    G=H//stride
    cons=[]
    for i in range(G):
        for j in range(G):
            px=zreal(ov[0*G*G+i*G+j].v); py=zreal(ov[1*G*G+i*G+j].v)
            cons.append(z3.Or(px*ey_!=py*ex_, px*ex_+py*ey_<0, px*px+py*py>1))
    t=time.time(); r=ex.check(z3.Or(*cons)); print("  dir:",r,time.time()-t)
print("paths",ex.paths,"time",time.time()-t0, STATS)
