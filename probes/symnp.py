"""Probe: numpy frontend via object arrays of scalar term objects."""
import numpy as real_np, z3, types
from fractions import Fraction
import symt
from symt import FV, Or, And, Not, Ite, arith, cmp, isz, zreal, zbool

class SB:  # symbolic bool wrapper
    __slots__=("b",)
    def __init__(s,b): s.b=b
    def __invert__(s): return SB(Not(s.b))
    def __and__(s,o): return SB(And(s.b, o.b if isinstance(o,SB) else bool(o)))
    def __or__(s,o): return SB(Or(s.b, o.b if isinstance(o,SB) else bool(o)))
    __rand__=__and__; __ror__=__or__
    def __bool__(s): return symt.EXPLORER.decide(s.b)
class SF:  # symbolic float scalar (extended real w/ nan + inf flags) for numpy object arrays
    __slots__=("nan","pinf","ninf","v")
    def __init__(s,v,nan=False,pinf=False,ninf=False): s.v=v; s.nan=nan; s.pinf=pinf; s.ninf=ninf
    @staticmethod
    def of(x):
        if isinstance(x,SF): return x
        if isinstance(x,SB): return SF(Ite(x.b,Fraction(1),Fraction(0)))
        x=float(x)
        if x!=x: return SF(Fraction(0),nan=True)
        if x==float('inf'): return SF(Fraction(0),pinf=True)
        if x==float('-inf'): return SF(Fraction(0),ninf=True)
        return SF(Fraction(x))
    def fin(s): return And(Not(s.nan),Not(s.pinf),Not(s.ninf))
    def __add__(s,o):
        o=SF.of(o); nan=Or(s.nan,o.nan,And(s.pinf,o.ninf),And(s.ninf,o.pinf))
        return SF(arith("+",s.v,o.v),nan,And(Not(nan),Or(s.pinf,o.pinf)),And(Not(nan),Or(s.ninf,o.ninf)))
    __radd__=__add__
    def __neg__(s): return SF(arith("-",0,s.v),s.nan,s.ninf,s.pinf)
    def __sub__(s,o): return s+(-SF.of(o))
    def __rsub__(s,o): return SF.of(o)+(-s)
    def __mul__(s,o):
        o=SF.of(o)
        # probe: only finite*finite or inf handled roughly
        anyinf=Or(s.pinf,s.ninf,o.pinf,o.ninf)
        zero_s=And(s.fin(),cmp("==",s.v,0)); zero_o=And(o.fin(),cmp("==",o.v,0))
        nan=Or(s.nan,o.nan,And(anyinf,Or(zero_s,zero_o)))
        neg_s=Or(s.ninf,And(s.fin(),cmp("<",s.v,0))); neg_o=Or(o.ninf,And(o.fin(),cmp("<",o.v,0)))
        neg=Or(And(neg_s,Not(neg_o)),And(Not(neg_s),neg_o))
        return SF(arith("*",s.v,o.v),nan,And(Not(nan),anyinf,Not(neg)),And(Not(nan),anyinf,neg))
    __rmul__=__mul__
    def __pow__(s,p):
        assert p==2; return s*s
    def __truediv__(s,o):
        o=SF.of(o)
        ozero=And(o.fin(),cmp("==",o.v,0)); oinf=Or(o.pinf,o.ninf); sinf=Or(s.pinf,s.ninf)
        szero=And(s.fin(),cmp("==",s.v,0))
        nan=Or(s.nan,o.nan,And(ozero,szero),And(sinf,oinf))
        neg_s=Or(s.ninf,And(s.fin(),cmp("<",s.v,0))); neg_o=Or(o.ninf,And(o.fin(),cmp("<",o.v,0)))
        neg=Or(And(neg_s,Not(neg_o)),And(Not(neg_s),neg_o))
        isinf=And(Not(nan),Or(sinf,And(ozero,Not(szero))))
        q=arith("/",s.v,Ite(Or(ozero,oinf,o.nan),Fraction(1),o.v))
        q=Ite(oinf,Fraction(0),q)
        return SF(q,nan,And(isinf,Not(neg)),And(isinf,neg))
    def __rtruediv__(s,o): return SF.of(o)/s
    def _cmp(s,o,op):
        o=SF.of(o); nn=And(Not(s.nan),Not(o.nan))
        # value ordering with infinities
        lt=Or(And(s.ninf,Not(o.ninf)),And(Not(s.pinf),o.pinf,Not(s.ninf) if True else True),And(s.fin(),o.fin(),cmp("<",s.v,o.v)))
        eq=Or(And(s.pinf,o.pinf),And(s.ninf,o.ninf),And(s.fin(),o.fin(),cmp("==",s.v,o.v)))
        r={"<":lt,"<=":Or(lt,eq),">":And(Not(lt),Not(eq)),">=":Not(lt),"==":eq}[op]
        return SB(And(nn,r))
    def __lt__(s,o): return s._cmp(o,"<")
    def __le__(s,o): return s._cmp(o,"<=")
    def __gt__(s,o): return s._cmp(o,">")
    def __ge__(s,o): return s._cmp(o,">=")
    def exp(s):
        e=symt.u_exp(symt.FV(False, s.v)).v
        return SF(Ite(s.ninf,Fraction(0),e), s.nan, s.pinf, False)
    def isnan(s): return SB(s.nan)

class NP(types.ModuleType):
    def __getattr__(self,k): return getattr(real_np,k)
np=NP("symnp")
def _obj(a): return isinstance(a,real_np.ndarray) and a.dtype==object
def isnan(a):
    if _obj(a): return real_np.frompyfunc(lambda x: SF.of(x).isnan(),1,1)(a).view(SymNd)
    return real_np.isnan(a)
def _reduce(a, axis, f, keepdims=False):
    a=real_np.asarray(a)
    if axis is None: 
        r=f(list(a.reshape(-1))); return r
    m=real_np.moveaxis(a,axis,-1); shp=m.shape[:-1]
    out=real_np.empty(shp,dtype=object)
    for idx in real_np.ndindex(*shp): out[idx]=f(list(m[idx]))
    if keepdims: out=real_np.expand_dims(out,axis)
    return out.view(SymNd)
def any_(a,axis=None,keepdims=False):
    if _obj(a): return _reduce(a,axis,lambda xs: SB(Or(*[x.b if isinstance(x,SB) else bool(x) for x in xs])),keepdims)
    return real_np.any(a,axis=axis,keepdims=keepdims)
def _nanext(ismax):
    def f(xs):
        best=None
        for x in xs:
            x=SF.of(x)
            if best is None: best=x; continue
            # ignore nans: if best nan take x; if x nan keep best; else compare
            better = (x>best).b if ismax else (x<best).b
            take=Or(best.nan, And(Not(x.nan), better))
            best=SF(Ite(take,x.v,best.v), Ite(take,x.nan,best.nan) if isz(take) else (x.nan if take else best.nan),
                    Ite(take,x.pinf,best.pinf) if isz(take) else (x.pinf if take else best.pinf), Ite(take,x.ninf,best.ninf) if isz(take) else (x.ninf if take else best.ninf))
        return best
    return f
np.isnan=isnan; np.any=any_
np.nanmin=lambda a,axis=None: _reduce(a,axis,_nanext(False)) if _obj(a) else real_np.nanmin(a,axis=axis)
np.nanmax=lambda a,axis=None: _reduce(a,axis,_nanext(True)) if _obj(a) else real_np.nanmax(a,axis=axis)
np.prod=lambda a,axis=None: _reduce(a,axis,lambda xs: __import__("functools").reduce(lambda p,q:p*q,xs)) if _obj(a) else real_np.prod(a,axis=axis)
np.exp=lambda a: real_np.frompyfunc(lambda x: SF.of(x).exp(),1,1)(a).view(SymNd) if _obj(a) else real_np.exp(a)
def sum_(a,axis=None,keepdims=False):
    if _obj(a): return _reduce(a,axis,lambda xs: __import__("functools").reduce(lambda p,q:SF.of(p)+q,xs),keepdims)
    return real_np.sum(a,axis=axis,keepdims=keepdims)
np.sum=sum_

class SymNd(real_np.ndarray):
    def _conc(self, key):
        def c(k):
            if isinstance(k, real_np.ndarray) and k.dtype==object:
                return real_np.frompyfunc(lambda x: bool(x),1,1)(k).astype(bool)   # forks via SB.__bool__
            return k
        if isinstance(key, tuple): return tuple(c(k) for k in key)
        return c(key)
    def __getitem__(self, key): return super().__getitem__(self._conc(key))
    def __setitem__(self, key, val):
        if self.dtype==object and not isinstance(val,(real_np.ndarray,SF,SB)) : val=SF.of(val) if isinstance(val,(int,float)) and not isinstance(val,bool) else val
        return super().__setitem__(self._conc(key), val)
    def astype(self, dt, *a, **k):
        if self.dtype==object and dt in ("float32","float64",float,real_np.float32,real_np.float64):
            return real_np.frompyfunc(lambda x: SF.of(x),1,1)(self).view(SymNd)
        return super().astype(dt,*a,**k)
