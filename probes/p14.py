# Probe: C08 -- real match_candidates_sample + group_instances_sample across both front ends
# (torch SymTensor -> .item()/.numpy() -> numpy object arrays -> symbolic Hungarian -> python assembly)
import torch, numpy as real_np, z3, time, itertools, symt, symnp
from symt import *
from symnp import SF, SB, SymNd
import sleap_nn.inference.paf_grouping as pg
from fractions import Fraction
np=symnp.np
# ---------- bridges ----------
INF_ID={}
def fv_to_sf(v):
    if isinstance(v,FV):
        inf=getattr(v,"inf",0)
        return SF(v.v, nan=v.nan, pinf=(inf>0), ninf=(inf<0))
    return v
class FVI(FV):
    __slots__=("inf",)
    def __init__(s,nan,v,inf=0): super().__init__(nan,v); s.inf=inf
_old_to_val=symt.to_val
def to_val2(x,dtype):
    if dtype.is_floating_point and not isinstance(x,FV):
        xf=float(x)
        if xf in (float('inf'),float('-inf')): return FVI(False,Fraction(0),1 if xf>0 else -1)
    return _old_to_val(x,dtype)
symt.to_val=to_val2
_old_civ=symt.const_id_val
def civ2(v):
    if isinstance(v,FVI):
        k=("FI",v.inf); 
        if k not in symt.CONST: symt.CONST[k]=symt.new_term(v)
        return symt.CONST[k]
    return _old_civ(v)
symt.const_id_val=civ2
def sf_to_term(x):
    if isinstance(x,SF):
        assert x.pinf is False and x.ninf is False
        return FV(x.nan,x.v)
    return x
def st_item(self):
    v=self.vals()[0]
    if isinstance(v,FV): 
        if not isz(v.v) and not isz(v.nan) and getattr(v,"inf",0)==0: return float('nan') if v.nan else float(v.v)
        return fv_to_sf(v)
    return v
def st_numpy(self):
    vals=self.vals()
    if all(symt._isconst(v) for v in vals) and not self.dtype.is_floating_point:
        return real_np.array(vals).reshape(tuple(self.shape))
    a=real_np.empty(len(vals),dtype=object)
    for i,v in enumerate(vals): a[i]=fv_to_sf(v) if isinstance(v,FV) else v
    return a.reshape(tuple(self.shape)).view(SymNd)
def st_setitem(self,key,val):
    if isinstance(val,SF): val=symt.mk([sf_to_term(val)],(),self.dtype)
    return torch.Tensor.__setitem__(self,key,val)
_orig_numpy=torch.Tensor.numpy
def safe_numpy(self,*a,**k):
    if isinstance(self,SymTensor): return st_numpy(self)
    with symt._disable_current_modes(): return _orig_numpy(self,*a,**k)
torch.Tensor.numpy=safe_numpy
SymTensor.item=st_item; SymTensor.numpy=st_numpy; SymTensor.cpu=lambda s:s; SymTensor.__setitem__=st_setitem
class TP(symt.TorchProxy): pass
tp=TP()
def t_tensor(data,dtype=None,**k):
    if isinstance(data,real_np.ndarray) and data.dtype==object:
        return symt.mk([sf_to_term(SF.of(x)) if dtype is None or dtype.is_floating_point else x for x in data.reshape(-1)], data.shape, dtype or torch.float32)
    return torch.tensor(data,dtype=dtype,**k)
tp.tensor=t_tensor; tp.Tensor=symt.TensorShim
pg.torch=tp; pg.np=np
# numpy overrides needed here
def full(shape,val,dtype=None):
    a=real_np.empty(shape,dtype=object)
    for idx in real_np.ndindex(*a.shape): a[idx]=SF.of(val)
    return a.view(SymNd)
np.full=full
def isnan2(a):
    if isinstance(a,real_np.ndarray) and a.dtype==object: return symnp.isnan(a)
    return real_np.isnan(a)
np.isnan=isnan2
SF.__eq__=lambda s,o: s._cmp(o,"=="); SF.__hash__=None
# symbolic hungarian (from p9)
def lsa_stub(cost):
    n,m=cost.shape; k=min(n,m)
    if k==0: return real_np.array([],dtype=int), real_np.array([],dtype=int)
    cands=[]
    if n<=m:
        for cols in itertools.permutations(range(m),n): cands.append((list(range(n)),list(cols)))
    else:
        for rows in itertools.permutations(range(n),m):
            pairs=sorted(zip(rows,range(m))); cands.append(([p[0] for p in pairs],[p[1] for p in pairs]))
    def tot(c):
        t=SF.of(0.0)
        for r,cc in zip(*c): t=t+SF.of(cost[r,cc])
        return t
    tots=[tot(c) for c in cands]
    for i,c in enumerate(cands):
        fin=And(Not(tots[i].nan),Not(tots[i].pinf))
        best=And(fin,*[Or(tots[j].pinf,tots[j].nan,cmp("<=",tots[i].v,tots[j].v)) for j in range(len(cands)) if j!=i])
        if symt.EXPLORER.decide(zbool(best)): return real_np.array(c[0]), real_np.array(c[1])
    raise ValueError("cost matrix is infeasible")
pg.linear_sum_assignment=lsa_stub
# ---------- scenario: 3 nodes, edges (0,1),(1,2); 2 peaks per node ----------
n_nodes=3; skel=torch.tensor([[0,1],[1,2]],dtype=torch.int32)
peak_ch=torch.tensor([0,0,1,1,2,2],dtype=torch.int32)
edge_types=[pg.EdgeType(0,1),pg.EdgeType(1,2)]
sorted_edge_inds=pg.toposort_edges(edge_types)
z3.set_param("timeout",60000)
ex=Explorer([]); symt.EXPLORER=ex
mode=SymMode()
t0=time.time(); stats={}
def path():
    with mode:
        edge_inds,edge_peak_inds=pg.get_connection_candidates(peak_ch,skel,n_nodes)
        ncand=edge_inds.shape[0]
        scores=symt.mk([FV(z3.Bool(f"sn{i}"),z3.Real(f"s{i}")) for i in range(ncand)],(ncand,),torch.float32)
        peaks=symt.mk([FV(False,z3.Real(f"pk{i}")) for i in range(12)],(6,2),torch.float32)
        pvals=symt.mk([FV(False,z3.Real(f"pv{i}")) for i in range(6)],(6,),torch.float32)
        try:
            me,ms,md,ml=pg.match_candidates_sample(edge_inds,edge_peak_inds,scores,n_edges=2)
            out=pg.group_instances_sample(peaks,pvals,peak_ch,me,ms,md,ml,n_nodes,sorted_edge_inds,edge_types,min_instance_peaks=0,min_line_scores=0.25)
        except Exception as e:
            if isinstance(e,(symt.Infeasible,NotImplementedError)): raise
            import traceback
            if isinstance(e,IndexError) and not stats.get('tb'): stats['tb']=[traceback.format_exc()]
            return ("EXC",type(e).__name__,str(e)[:60])
        return ("OK",out,ml)
for r in ex.run(path):
    if r[0]=="EXC":
        assert ex.check()==z3.sat
        m=ex.solver.model(); stats.setdefault(r[1:],[]).append(str([ (m.eval(z3.Bool(f"sn{i}"),model_completion=True)) for i in range(8)]))
        continue
    inst,pscores,iscores=r[1]
    stats.setdefault(("OK",inst.shape[0]),[]).append(1)
print(stats.pop('tb',[''])[0][-1500:])
for k,v in stats.items(): print(k,len(v),v[:1] if k[0]!="OK" else "")
print("paths",ex.paths,"time",round(time.time()-t0,1),STATS)
