# Probe: C05 direction obligation per (edge, cell) with cone-of-influence slicing of side constraints
import torch, z3, time, symt, sys
from symt import *
from sleap_nn.data.edge_maps import generate_pafs
H=W=6; stride=2; sigma=1.5; N=3; edges=[[0,1],[1,2]]; A=1
symt.EXP_MODE="fresh"
inst=sym_float_tensor("k",(1,A,N,2), may_nan=True)
kv=inst.vals()
for i in range(0,len(kv),2): kv[i+1].nan=kv[i].nan
ex=Explorer([]); symt.EXPLORER=ex
mode=SymMode(); mode.__enter__()
def vars_of(e, acc=None):
    acc=set() if acc is None else acc
    stack=[e]; seen=set()
    while stack:
        x=stack.pop()
        if x.get_id() in seen: continue
        seen.add(x.get_id())
        if z3.is_const(x) and x.decl().kind()==z3.Z3_OP_UNINTERPRETED: acc.add(str(x))
        stack.extend(x.children())
    return acc
def sliced(query, side, pcs):
    need=vars_of(query); sv=[(c,vars_of(c)) for c in side+pcs]
    changed=True; keep=[]
    rest=sv
    while changed:
        changed=False; nr=[]
        for c,v in rest:
            if v & need: keep.append(c); need|=v; changed=True
            else: nr.append((c,v))
        rest=nr
    return keep
def path():
    symt.SIDE.clear()
    return generate_pafs(inst,(H,W),sigma,stride,torch.tensor(edges),True)
G=H//stride; t0=time.time()
for out in ex.run(path):
    ov=out.vals(); side=list(symt.SIDE); pcs=[c for c in ex.solver.assertions()]
    res=[]; 
    for e,(s_,d_) in enumerate(edges):
        sx,sy=kv[2*s_].v,kv[2*s_+1].v; dx,dy=kv[2*d_].v,kv[2*d_+1].v
        ex_=dx-sx; ey_=dy-sy
        for i in range(G):
            for j in range(G):
                px=zreal(ov[(2*e)*G*G+i*G+j].v); py=zreal(ov[(2*e+1)*G*G+i*G+j].v)
                q=z3.Or(px*ey_!=py*ex_, px*ex_+py*ey_<0, px*px+py*py>1)
                s=z3.Solver(); s.set("timeout",60000); keep=sliced(q,side,pcs); s.add(*keep); s.add(q)
                t=time.time(); r=s.check(); res.append((str(r),round(time.time()-t,2),len(keep)))
    print("path",ex.paths,res)
print("time",round(time.time()-t0,1))
