"""Probe prototype: symbolic tensors via __torch_dispatch__ with z3 terms (XReal model: nan flag + Real)."""
import torch, z3, itertools, time, math
from fractions import Fraction
from torch.utils._pytree import tree_map, tree_flatten

aten = torch.ops.aten
STATS = {"queries":0, "solver_s":0.0}

# ---------------- values -----------------
class FV:  # float value: nan flag (py bool or z3 Bool), v (Fraction or z3 Real)
    __slots__=("nan","v")
    def __init__(s, nan, v): s.nan=nan; s.v=v
    def __repr__(s): return f"FV({s.nan},{s.v})"
def isz(x): return isinstance(x, z3.ExprRef)
def zreal(x): return x if isz(x) else z3.RealVal(str(Fraction(x)))
def zbool(x): return x if isz(x) else z3.BoolVal(bool(x))
def Or(*a):
    a=[x for x in a if not (x is False)]
    if any(x is True for x in a): return True
    if not a: return False
    return a[0] if len(a)==1 else z3.Or(*[zbool(x) for x in a])
def And(*a):
    a=[x for x in a if not (x is True)]
    if any(x is False for x in a): return False
    if not a: return True
    return a[0] if len(a)==1 else z3.And(*[zbool(x) for x in a])
def Not(a):
    if a is True: return False
    if a is False: return True
    return z3.Not(a)
def Ite(c,a,b):
    if c is True: return a
    if c is False: return b
    if isinstance(a,(bool,)) or isinstance(b,bool) or z3.is_bool(a) or z3.is_bool(b):
        return z3.If(c, zbool(a), zbool(b))
    if (not isz(a)) and (not isz(b)) and a==b: return a
    return z3.If(c, zreal(a) if not (z3.is_int(a) if isz(a) else isinstance(a,int) and not isinstance(b,Fraction) and (not isz(b) or z3.is_int(b))) else (a if isz(a) else z3.IntVal(a)),
                     zreal(b) if not (z3.is_int(b) if isz(b) else isinstance(b,int) and not isinstance(a,Fraction) and (not isz(a) or z3.is_int(a))) else (b if isz(b) else z3.IntVal(b)))
def arith(op,a,b):
    if not isz(a) and not isz(b):
        a=Fraction(a); b=Fraction(b)
        return {"+":a+b,"-":a-b,"*":a*b}[op] if op!="/" else a/b
    a=zreal(a) if not (isz(a) and z3.is_int(a)) else z3.ToReal(a)
    b=zreal(b) if not (isz(b) and z3.is_int(b)) else z3.ToReal(b)
    return {"+":a+b,"-":a-b,"*":a*b,"/":a/b}[op]
def cmp(op,a,b):
    if not isz(a) and not isz(b):
        a=Fraction(a); b=Fraction(b)
        return {"<":a<b,"<=":a<=b,">":a>b,">=":a>=b,"==":a==b}[op]
    a=zreal(a) if not (isz(a) and z3.is_int(a)) else z3.ToReal(a)
    b=zreal(b) if not (isz(b) and z3.is_int(b)) else z3.ToReal(b)
    return {"<":a<b,"<=":a<=b,">":a>b,">=":a>=b,"==":a==b}[op]

EXP = z3.Function("exp", z3.RealSort(), z3.RealSort())
EXP_APPS = []
EXP_MODE='uf'   # arguments exp was applied to (for axiom instantiation)

TERMS=[]; CONST={}
def new_term(v):
    TERMS.append(v); return len(TERMS)-1
def const_id(v):
    k=(type(v).__name__, v if v==v else "nan")
    if k not in CONST: CONST[k]=new_term(v)
    return CONST[k]
def to_val(x, dtype):
    """python number -> term value for dtype"""
    if dtype.is_floating_point:
        if isinstance(x, FV): return x
        x=float(x)
        if x!=x: return FV(True, Fraction(0))
        if math.isinf(x): raise NotImplementedError("inf const")
        return FV(False, Fraction(x))
    if dtype==torch.bool: return bool(x)
    return int(x)

class SymTensor(torch.Tensor):
    @staticmethod
    def __new__(cls, ids, dtype):
        r = torch.Tensor._make_wrapper_subclass(cls, ids.size(), strides=ids.stride(),
              storage_offset=ids.storage_offset(), dtype=dtype, device=ids.device)
        r.ids = ids
        return r
    def __repr__(self): return f"SymTensor(shape={tuple(self.shape)}, dtype={self.dtype})"
    def vals(self):
        from torch.utils._python_dispatch import _disable_current_modes
        with _disable_current_modes():
            return [TERMS[i] for i in self.ids.reshape(-1).tolist()]
    @classmethod
    def __torch_dispatch__(cls, func, types, args=(), kwargs=None):
        kwargs=kwargs or {}
        h = HANDLERS.get(func)
        if h is None:
            if func in DATA_MOVE: return data_move(func, args, kwargs)
            raise NotImplementedError(f"symtorch: no handler for {func}")
        return h(func, *args, **kwargs)

def lift(t):
    """concrete tensor -> SymTensor"""
    if isinstance(t, SymTensor): return t
    flat=t.reshape(-1).tolist()
    ids=torch.tensor([const_id_val(to_val(x,t.dtype)) for x in flat], dtype=torch.int64).reshape(t.shape)
    return SymTensor(ids, t.dtype)
def const_id_val(v):
    if isinstance(v, FV):
        k=("F", v.nan, v.v)
        if k not in CONST: CONST[k]=new_term(v)
        return CONST[k]
    return const_id(v)
def mk(vals, shape, dtype):
    ids=torch.tensor([new_term(v) if not _isconst(v) else const_id_val(v) for v in vals], dtype=torch.int64).reshape(shape)
    return SymTensor(ids, dtype)
def _isconst(v):
    if isinstance(v, FV): return (not isz(v.nan)) and (not isz(v.v))
    return not isz(v)

DATA_MOVE = {aten.view.default, aten.select.int, aten.unsqueeze.default, aten.squeeze.dim, aten.squeeze.dims, aten.permute.default,
  aten.expand.default, aten.slice.Tensor, aten.unbind.int, aten.alias.default, aten.clone.default, aten.stack.default, aten.cat.default,
  aten.flip.default, aten.unfold.default, aten.transpose.int, aten._unsafe_view.default, aten.detach.default, aten.reshape.default, aten.t.default,
  aten.split.Tensor, aten.index_select.default, aten.repeat.default}
def unwrap(x): return x.ids if isinstance(x, SymTensor) else x
def data_move(func, args, kwargs):
    dt=[a.dtype for a in tree_flatten((args,kwargs))[0] if isinstance(a,SymTensor)][0]
    # concrete tensors among data args must be lifted
    def lw(x):
        if isinstance(x, SymTensor): return x.ids
        if isinstance(x, torch.Tensor) and func in (aten.stack.default, aten.cat.default): return lift(x).ids
        return x
    out=func(*tree_map(lw,args), **tree_map(lw,kwargs))
    return tree_map(lambda o: SymTensor(o, dt) if isinstance(o, torch.Tensor) else o, out)

def bcast(*ts):
    ts=[lift(t) if isinstance(t,torch.Tensor) else t for t in ts]
    tens=[t.ids for t in ts if isinstance(t,SymTensor)]
    shape=torch.broadcast_shapes(*[t.shape for t in tens])
    out=[]
    for t in ts:
        if isinstance(t,SymTensor): out.append([TERMS[i] for i in t.ids.expand(shape).reshape(-1).tolist()])
        else: out.append(None)
    return shape, out, ts
def result_float(*xs):
    return torch.float32

def rtype(a,b):
    def d(x): return torch.empty((0,) if isinstance(x,torch.Tensor) and x.dim()>0 else (), dtype=x.dtype) if isinstance(x,torch.Tensor) else x
    return torch.result_type(d(a),d(b))
def f_bin(op):
    def h(func, a, b, **kw):
        alpha=kw.get("alpha",1)
        assert alpha==1
        dt = rtype(a,b)
        shape, vs, ts = bcast(a,b)
        n = int(torch.Size(shape).numel())
        A = vs[0] if vs[0] is not None else [to_val(a,dt)]*n
        B = vs[1] if vs[1] is not None else [to_val(b,dt)]*n
        out=[]
        for x,y in zip(A,B):
            out.append(binop(op,x,y,dt))
        return mk(out, shape, dt if op not in ("<",">","<=",">=","==") else torch.bool)
    return h
def asF(x):
    if isinstance(x,FV): return x
    return FV(False, x if isz(x) else Fraction(int(x)))
def binop(op,x,y,dt):
    if op in ("<",">","<=",">=","=="):
        if isinstance(x,FV) or isinstance(y,FV):
            x=asF(x); y=asF(y)
            return And(Not(x.nan),Not(y.nan),cmp(op,x.v,y.v))
        return cmp(op,x,y)
    if dt.is_floating_point:
        x=asF(x); y=asF(y)
        if op=="/":
            # NOTE probe: ignore inf; x/0 -> treat as nan when both zero, else unsupported (assume nonzero recorded)
            zero = cmp("==",y.v,0)
            return FV(Or(x.nan,y.nan,zero), arith("/",x.v, Ite(zero, Fraction(1), y.v)) )
        if op=="max":
            return FV(Or(x.nan,y.nan), Ite(cmp(">=",x.v,y.v), x.v, y.v))
        return FV(Or(x.nan,y.nan), arith(op,x.v,y.v))
    if dt==torch.bool:
        if op=="&": return And(x,y)
        if op=="|": return Or(x,y)
    # ints
    if op=="max": return Ite(cmp(">=",x,y),x,y)
    if not isz(x) and not isz(y): return {"+":x+y,"-":x-y,"*":x*y}[op]
    return {"+":x+y,"-":x-y,"*":x*y}[op]

def f_un(fn, outdt=None):
    def h(func, a, *rest, **kw):
        vals=a.vals()
        return mk([fn(v,*rest) for v in vals], a.shape, outdt or a.dtype)
    return h
def u_exp(v):
    v=asF(v)
    if not isz(v.v): 
        if v.v==0: return FV(v.nan, Fraction(1))
    arg=zreal(v.v); EXP_APPS.append(arg)
    if EXP_MODE=="fresh":
        w=fresh_real("exp"); SIDE.append(w>0); SIDE.append(z3.Implies(arg<=0,w<=1)); return FV(v.nan,w)
    return FV(v.nan, EXP(arg))
def u_neg(v):
    if isinstance(v,FV): return FV(v.nan, -v.v)
    return -v
def u_pow(v, p):
    assert p==2
    v=asF(v); return FV(v.nan, arith("*",v.v,v.v))
def u_nan_to_num(v, nan=None, posinf=None, neginf=None):
    v=asF(v); return FV(False, Ite(v.nan, Fraction(0), v.v))
def u_isnan(v): return asF(v).nan
def h_arange(func, start, end=None, step=1, dtype=None, **kw):
    return func(start,end,step,dtype=dtype,**kw)
def h_maxdim(func, a, dim, keepdim=False):
    ids=a.ids.movedim(dim,-1); shp=ids.shape[:-1]; L=ids.shape[-1]
    flat=ids.reshape(-1,L).tolist()
    mv=[]; mi=[]
    for row in flat:
        best=TERMS[row[0]]; bi=0
        for j in range(1,L):
            c=TERMS[row[j]]
            gt=binop(">",c,best,a.dtype)   # strict: first max wins  (NaN handling omitted in probe)
            if isinstance(best,FV):
                c=asF(c); best=FV(Or(best.nan,c.nan), Ite(gt,c.v,best.v))
            else: best=Ite(gt,c,best)
            bi=Ite(gt,j,bi)
        mv.append(best); mi.append(bi)
    v=mk(mv,shp,a.dtype); i=mk(mi,shp,torch.int64)
    if keepdim: v=SymTensor(v.ids.unsqueeze(dim),a.dtype); i=SymTensor(i.ids.unsqueeze(dim),torch.int64)
    return v,i
def h_nonzero(func, a):
    vals=a.vals()
    conc=[EXPLORER.decide(v) for v in vals]
    m=torch.tensor(conc,dtype=torch.bool).reshape(a.shape)
    return m.nonzero()
def h_index(func, a, indices):
    idx=[]
    for i in indices:
        if isinstance(i,SymTensor):
            if i.dtype==torch.bool:
                conc=[EXPLORER.decide(v) for v in i.vals()]
                i=torch.tensor(conc,dtype=torch.bool).reshape(i.shape)
            else:
                conc=[EXPLORER.concretize_int(v) for v in i.vals()]
                i=torch.tensor(conc,dtype=torch.int64).reshape(i.shape)
        idx.append(i)
    a=lift(a)
    return SymTensor(aten.index.Tensor(a.ids, idx), a.dtype)
def h_to_copy(func, a, dtype=None, **kw):
    if dtype is None or dtype==a.dtype: return SymTensor(a.ids.clone(), a.dtype)
    vals=a.vals()
    if dtype.is_floating_point and not a.dtype.is_floating_point:
        return mk([asF(Ite(v,1,0) if a.dtype==torch.bool else v) for v in vals], a.shape, dtype)
    if dtype.is_floating_point: return SymTensor(a.ids.clone(), dtype)
    if not dtype.is_floating_point and not a.dtype.is_floating_point and a.dtype!=torch.bool and dtype!=torch.bool:
        return SymTensor(a.ids.clone(), dtype)
    raise NotImplementedError(f"to_copy {a.dtype}->{dtype}")
def h_constant_pad(func, a, pad, value=0):
    c=const_id_val(to_val(value,a.dtype))
    return SymTensor(aten.constant_pad_nd.default(a.ids, pad, c), a.dtype)
def h_zeros_like(func,a,**kw): return torch.zeros(a.shape, dtype=kw.get("dtype") or a.dtype)
def h_index_put_(func, a, indices, values, accumulate=False):
    # bool mask with scalar value: elementwise ite ; concrete indices: direct
    assert not accumulate
    if len(indices)==1 and isinstance(indices[0],SymTensor) and indices[0].dtype==torch.bool and values.numel()==1:
        v=lift(values).vals()[0]; m=indices[0]
        shape,vs,_=bcast(a, SymTensor(m.ids.reshape(m.shape+(1,)*(a.dim()-m.dim())),torch.bool))
        new=[]
        for old,c in zip(vs[0],vs[1]):
            if a.dtype.is_floating_point:
                old=asF(old); vv=asF(v); new.append(FV(Ite(c,vv.nan,old.nan) if (isz(c)) else (vv.nan if c else old.nan), Ite(c,vv.v,old.v)))
            else: new.append(Ite(c,v,old))
        a.ids.copy_(mk(new,shape,a.dtype).ids)
        return a
    idx=[materialize(i) if isinstance(i,SymTensor) and is_concrete(i) else i for i in indices]
    assert all(not isinstance(i,SymTensor) for i in idx)
    aten.index_put_.default(a.ids, idx, lift(values).ids if isinstance(values,torch.Tensor) else values)
    return a
def h_eq_scalar(func,a,b): return f_bin("==")(func,a,b)
HANDLERS = {
 aten.add.Tensor: f_bin("+"), aten.sub.Tensor: f_bin("-"), aten.mul.Tensor: f_bin("*"), aten.div.Tensor: f_bin("/"),
 aten.maximum.default: f_bin("max"),
 aten.gt.Tensor: f_bin(">"), aten.gt.Scalar: f_bin(">"), aten.lt.Tensor: f_bin("<"), aten.lt.Scalar: f_bin("<"), aten.eq.Scalar: f_bin("=="),
 aten.bitwise_and.Tensor: f_bin("&"),
 aten.exp.default: f_un(u_exp), aten.neg.default: f_un(u_neg), aten.pow.Tensor_Scalar: f_un(u_pow),
 aten.nan_to_num.default: f_un(u_nan_to_num), aten.isnan.default: f_un(u_isnan, torch.bool),
 aten.max.dim: h_maxdim, aten.nonzero.default: h_nonzero, aten.index.Tensor: h_index, aten._to_copy.default: h_to_copy,
 aten.constant_pad_nd.default: h_constant_pad, aten.zeros_like.default: h_zeros_like, aten.index_put_.default: h_index_put_,
 aten.lift_fresh.default: lambda f,a: a,
}

# ------------- path explorer -------------
class Explorer:
    def __init__(self, base):
        self.base=base; self.todo=[[]]; self.paths=0
    def run(self, fn):
        while self.todo:
            self.prefix=self.todo.pop(); self.pos=0; self.pc=[]
            self.solver=z3.Solver(); self.solver.add(*self.base)
            self.paths+=1
            yield fn()
    def check(self,*assump):
        t=time.time(); r=self.solver.check(*assump); STATS["solver_s"]+=time.time()-t; STATS["queries"]+=1
        return r
    def decide(self, c):
        if c is True or c is False: return c
        if self.pos < len(self.prefix):
            b=self.prefix[self.pos]
        else:
            canT = self.check(c)==z3.sat
            canF = self.check(z3.Not(c))==z3.sat
            if canT and canF:
                self.todo.append(self.prefix[:self.pos]+[False]); b=True
            else: b=canT
            self.prefix=self.prefix[:self.pos]+[b]
        self.pos+=1
        self.solver.add(c if b else z3.Not(c)); self.pc.append(c if b else z3.Not(c))
        return b
def _concretize_int(self, v):
    if not isz(v): return int(v)
    while True:
        assert self.check()==z3.sat
        val=self.solver.model().eval(v, model_completion=True).as_long()
        if self.decide(v==val): return val
Explorer.concretize_int=_concretize_int
EXPLORER=None
def exp_axioms():
    ax=[]
    args=list({a.get_id():a for a in EXP_APPS}.values())
    for a in args:
        ax.append(EXP(a)>0); ax.append(z3.Implies(a<=0, EXP(a)<=1)); ax.append(z3.Implies(a==0, EXP(a)==1)); ax.append(z3.Implies(a<0, EXP(a)<1))
    for a,b in itertools.combinations(args,2):
        ax.append(z3.Implies(a<b, EXP(a)<EXP(b))); ax.append(z3.Implies(b<a, EXP(b)<EXP(a))); 
    return ax
def sym_float_tensor(name, shape, may_nan=True):
    n=int(torch.Size(shape).numel())
    vals=[FV(z3.Bool(f"{name}_nan{i}") if may_nan else False, z3.Real(f"{name}_{i}")) for i in range(n)]
    return mk(vals, shape, torch.float32)

# ---- more handlers (probe 2) ----
SIDE=[]   # side constraints (definitions of fresh vars)
_fresh=[0]
def fresh_real(p="t"):
    _fresh[0]+=1; return z3.Real(f"{p}!{_fresh[0]}")
def h_vector_norm(func, a, ord=2, dim=None, keepdim=False, dtype=None):
    assert ord==2
    sq=aten.sum.dim_IntList(aten.mul.Tensor(a,a), dim, keepdim)
    out=[]
    for v in sq.vals():
        v=asF(v)
        if not isz(v.v):
            import math
            r=Fraction(math.sqrt(v.v)); 
            if r*r==v.v: out.append(FV(v.nan,r)); continue
        r=fresh_real("sqrt"); SIDE.append(r>=0); SIDE.append(r*r==zreal(v.v)); out.append(FV(v.nan,r))
    return mk(out, sq.shape, a.dtype)
def h_sum(func, a, dim=None, keepdim=False, dtype=None):
    a=lift(a)
    if dim is None or dim==[]: dim=list(range(a.dim()))
    dim=[d%a.dim() for d in dim]
    keep=[d for d in range(a.dim()) if d not in dim]
    ids=a.ids.permute(keep+dim).reshape([a.shape[d] for d in keep]+[-1])
    shp=ids.shape[:-1]; rows=ids.reshape(-1,ids.shape[-1]).tolist()
    odt = a.dtype if a.dtype.is_floating_point else torch.int64
    out=[]
    for row in rows:
        acc=None
        for i in row:
            v=TERMS[i]
            if a.dtype==torch.bool: v=Ite(v,1,0)
            acc=v if acc is None else binop("+",acc,v,odt)
        out.append(acc)
    r=mk(out,shp,odt)
    if keepdim:
        ids=r.ids
        for d in sorted(dim): ids=ids.unsqueeze(d)
        r=SymTensor(ids,odt)
    return r
def h_allany(isall):
    def h(func,a,dim=None,keepdim=False):
        a=lift(a)
        if dim is None:
            vs=a.vals(); return mk([And(*vs) if isall else Or(*vs)],(),torch.bool)
        ids=a.ids.movedim(dim,-1); shp=ids.shape[:-1]
        out=[ (And if isall else Or)(*[TERMS[i] for i in row]) for row in ids.reshape(-1,ids.shape[-1]).tolist()]
        r=mk(out,shp,torch.bool)
        if keepdim: r=SymTensor(r.ids.unsqueeze(dim),torch.bool)
        return r
    return h
def h_clamp(func,a,min=None,max=None):
    out=[]
    for v in a.vals():
        v=asF(v); x=v.v
        if min is not None: x=Ite(cmp("<",x,min),Fraction(min),x)
        if max is not None: x=Ite(cmp(">",x,max),Fraction(max),x)
        out.append(FV(v.nan,x))
    return mk(out,a.shape,a.dtype)
def h_inplace(op):
    def h(func,a,b,**kw):
        r=f_bin(op)(func,a,b,**kw); a.ids.copy_(r.ids); return a
    return h
def h_local_scalar(func,a):
    v=a.vals()[0]
    if a.dtype==torch.bool: return EXPLORER.decide(v)
    if isinstance(v,FV):
        if not isz(v.v) and not isz(v.nan): return float('nan') if v.nan else float(v.v)
    elif not isz(v): return v
    raise NotImplementedError("item() on symbolic value")
HANDLERS.update({aten.linalg_vector_norm.default:h_vector_norm, aten.sum.dim_IntList:h_sum, aten.all.dim:h_allany(True), aten.any.dim:h_allany(False),
  aten.all.default:h_allany(True), aten.any.default:h_allany(False),
  aten.clamp.default:h_clamp, aten.add_.Tensor:h_inplace("+"), aten.mul_.Tensor:h_inplace("*"), aten._local_scalar_dense.default:h_local_scalar,
  aten.bitwise_not.default: f_un(lambda v: Not(v)), aten.is_nonzero.default: h_local_scalar})


# ---- mode: every tensor created inside is a SymTensor (constants) ----
from torch.utils._python_dispatch import TorchDispatchMode
def is_concrete(t):
    return all(_isconst(TERMS[i]) for i in t.ids.reshape(-1).tolist())
def materialize(t):
    vals=[]
    for i in t.ids.reshape(-1).tolist():
        v=TERMS[i]
        if isinstance(v,FV): vals.append(float('nan') if v.nan else float(v.v))
        else: vals.append(v)
    return torch.tensor(vals,dtype=t.dtype).reshape(t.shape)
class SymMode(TorchDispatchMode):
    def __torch_dispatch__(self, func, types, args=(), kwargs=None):
        kwargs=kwargs or {}
        flat=tree_flatten((args,kwargs))[0]
        syms=[a for a in flat if isinstance(a,SymTensor)]
        if func in HANDLERS or func in DATA_MOVE:
            if syms and not all(is_concrete(a) for a in syms) or func in DATA_MOVE and syms or func in (aten.index_put_.default, aten.add_.Tensor, aten.mul_.Tensor, aten.copy_.default, aten.fill_.Scalar):
                # lift plain tensors
                la=tree_map(lambda x: lift(x) if isinstance(x,torch.Tensor) and not isinstance(x,SymTensor) else x, args)
                lk=tree_map(lambda x: lift(x) if isinstance(x,torch.Tensor) and not isinstance(x,SymTensor) else x, kwargs)
                return SymTensor.__torch_dispatch__(func, types, la, lk)
        # concrete fallback: run the real op on materialized inputs, lift outputs
        if syms and not all(is_concrete(a) for a in syms):
            raise NotImplementedError(f"symtorch(mode): no handler for {func} with symbolic input")
        ma=tree_map(lambda x: materialize(x) if isinstance(x,SymTensor) else x, args)
        mk_=tree_map(lambda x: materialize(x) if isinstance(x,SymTensor) else x, kwargs)
        out=func(*ma,**mk_)
        return tree_map(lambda o: lift(o) if isinstance(o,torch.Tensor) else o, out)

from torch.utils._python_dispatch import _disable_current_modes
def _nomode(f):
    def w(*a,**k):
        with _disable_current_modes():
            return f(*a,**k)
    return w
mk=_nomode(mk); lift=_nomode(lift); is_concrete=_nomode(is_concrete); materialize=_nomode(materialize)

# ---- torch proxy for module globals: legacy constructors & friends ----
import types as _types
class _TensorMeta(type):
    def __instancecheck__(cls, x): return isinstance(x, torch.Tensor)
    def __subclasscheck__(cls, c): return issubclass(c, torch.Tensor)
class TensorShim(metaclass=_TensorMeta):
    def __new__(cls, data=None, *a, **k):
        def conv(x):
            if isinstance(x, torch.Tensor): return x.to(torch.float32)
            if isinstance(x,(list,tuple)): 
                xs=[conv(e) for e in x]
                return torch.stack(xs) if xs else torch.zeros((0,))
            return torch.tensor(float(x))
        if data is None: return torch.zeros((0,))
        return conv(data)
class TorchProxy(_types.ModuleType):
    def __init__(self): super().__init__("torch_proxy")
    def __getattr__(self,k): return getattr(torch,k)
TORCH_PROXY=TorchProxy(); TORCH_PROXY.Tensor=TensorShim

# ---- model-guided pattern-level concretisation of boolean masks ----
def _decide_pattern(self, conds):
    """Concretise a list of symbolic bools at once: take the recorded pattern or ask the solver for a model,
    assert the whole pattern, and queue 'not this pattern' as one alternative."""
    sym=[c for c in conds if isz(c)]
    if not sym: return [bool(c) for c in conds]
    if self.pos < len(self.prefix):
        kind,val=self.prefix[self.pos]
        assert kind=="pat"
        excluded,chosen=val
    else:
        excluded=[]; chosen=None
    # constraints: exclude earlier patterns
    def pat_formula(p): return z3.And(*[c if b else z3.Not(c) for c,b in zip(sym,p)])
    for p in excluded: self.solver.add(z3.Not(pat_formula(p)))
    if chosen is None:
        r=self.check()
        if r!=z3.sat: raise Infeasible()
        m=self.solver.model()
        chosen=[bool(z3.is_true(m.eval(c, model_completion=True))) for c in sym]
        # queue alternative: same prefix, this pattern excluded too
        self.todo.append(self.prefix[:self.pos]+[("pat",(excluded+[chosen],None))])
        self.prefix=self.prefix[:self.pos]+[("pat",(excluded,chosen))]
    self.pos+=1
    self.solver.add(pat_formula(chosen))
    it=iter(chosen)
    return [next(it) if isz(c) else bool(c) for c in conds]
class Infeasible(Exception): pass
Explorer.decide_pattern=_decide_pattern
_old_run=Explorer.run
def _run(self, fn):
    while self.todo:
        self.prefix=self.todo.pop(); self.pos=0; self.pc=[]
        self.solver=z3.Solver(); self.solver.add(*self.base)
        try:
            r=fn()
        except Infeasible:
            continue
        self.paths+=1
        yield r
Explorer.run=_run
_old_decide=Explorer.decide
def _decide(self,c):
    if c is True or c is False: return c
    if self.pos < len(self.prefix):
        b=self.prefix[self.pos]; self.pos+=1
        self.solver.add(c if b else z3.Not(c)); self.pc.append(c); return b
    return _old_decide(self,c)
Explorer.decide=_decide
def h_nonzero2(func, a):
    conc=EXPLORER.decide_pattern(a.vals())
    with _disable_current_modes():
        m=torch.tensor(conc,dtype=torch.bool).reshape(a.shape)
        return m.nonzero()
HANDLERS[aten.nonzero.default]=h_nonzero2

def h_copy_(func, dst, src, non_blocking=False):
    src=lift(src) if isinstance(src,torch.Tensor) and not isinstance(src,SymTensor) else src
    if src.dtype!=dst.dtype: src=h_to_copy(None, src, dtype=dst.dtype)
    with _disable_current_modes():
        dst.ids.copy_(src.ids.expand(dst.ids.shape) if src.ids.shape!=dst.ids.shape else src.ids)
    return dst
HANDLERS[aten.copy_.default]=h_copy_
def h_fill_(func, dst, val):
    with _disable_current_modes():
        dst.ids.fill_(const_id_val(to_val(val,dst.dtype)))
    return dst
HANDLERS[aten.fill_.Scalar]=h_fill_
