import torch, kornia.core
kornia.core.Tensor = torch.Tensor
from typing import List, Optional
from omegaconf import OmegaConf
from sleap_nn.train import get_data_config, get_model_config, get_trainer_config
from sleap_nn.config.training_job_config import TrainingJobConfig, verify_training_cfg
from sleap_nn.config.data_config import IntensityConfig, PreprocessingConfig
import inspect
print(inspect.signature(get_model_config)); print(inspect.signature(get_trainer_config))
def build(scale: float, max_height: int, chunk_size: int, is_rgb: bool):
    dc=get_data_config(train_labels_path="a.slp", val_labels_path="b.slp", scale=scale, max_height=max_height, chunk_size=chunk_size, is_rgb=is_rgb)
    mc=get_model_config(init_weight="default", backbone_config="unet", head_configs="single_instance")
    tc=get_trainer_config()
    cfg=TrainingJobConfig(data_config=dc, model_config=mc, trainer_config=tc)
    om=cfg.to_sleap_nn_cfg()
    return verify_training_cfg(om)
def check(scale: float, max_height: int, chunk_size: int, is_rgb: bool) -> bool:
    """
    pre: 0.1 <= scale <= 4.0
    pre: 1 <= max_height <= 4096 and 1 <= chunk_size <= 1000
    post: _
    """
    c=build(scale,max_height,chunk_size,is_rgb)
    p=c.data_config.preprocessing
    return p.scale==scale and p.max_height==max_height and c.data_config.chunk_size==chunk_size and p.is_rgb==is_rgb
def check_prob(p: float) -> bool:
    """
    post: _
    """
    try:
        IntensityConfig(uniform_noise_p=p)
        return 0.0 <= p <= 1.0
    except ValueError:
        return not (0.0 <= p <= 1.0)
if __name__=="__main__":
    print(check(0.5, 100, 10, True))
