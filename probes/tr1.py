import numpy as np, sleap_io as sio, traceback
from sleap_nn.tracking.tracker import Tracker
skel=sio.Skeleton(["a","b"])
def inst(x,y,score=0.9):
    return sio.PredictedInstance.from_numpy(np.array([[x,y],[x+3,y+4]],dtype=float), skeleton=skel, point_scores=np.ones(2), score=score)
for cand in ["fixed_window","local_queues"]:
  for feat,sc in [("keypoints","oks"),("centroids","euclidean_dist"),("bboxes","iou")]:
    for hist_name,hist in [("one",[[ (10,10)],[(11,10)],[(12,10)]]),
                           ("two",[[ (10,10),(50,50)],[(11,10),(51,50)],[(12,10),(52,50)]]),
                           ("third",[[ (10,10),(50,50)],[(11,10),(51,50),(90,10)],[(12,10),(52,50),(91,10)]]),
                           ("gap",[[ (10,10),(50,50)],[(11,10)],[(12,10),(52,50)]]),
                           ("empty",[[ (10,10)],[],[(12,10)]]),
                           ]:
        t=Tracker.from_config(candidates_method=cand, features=feat, scoring_method=sc, window_size=3)
        res=[]
        try:
            for f,dets in enumerate(hist):
                out=t.track([inst(*d) for d in dets], f)
                res.append([ (o.track.name if o.track else None) for o in out])
            print(cand,feat,hist_name,res)
        except Exception as e:
            print(cand,feat,hist_name,"EXC",type(e).__name__,str(e)[:80], res)
