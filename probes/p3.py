import torch, z3, time, symt, itertools
from symt import *
from sleap_nn.inference.peak_finding import find_local_peaks_rough
H,W=3,3; S,C=1,1
cms=sym_float_tensor("c",(S,C,H,W), may_nan=False)
cv=cms.vals()
thr=0.2
ex=Explorer([])
symt.EXPLORER=ex
t0=time.time(); viol=0
def path():
    pts,vals,si,ci=find_local_peaks_rough(cms,threshold=thr)
    return pts,vals,si,ci
for pts,vals,si,ci in ex.run(path):
    # spec: set of peaks == strict local maxima above thr
    got=set()
    assert not isinstance(pts,SymTensor)
    for (x,y),s_,c_ in zip(pts.tolist(), si.tolist(), ci.tolist()):
        got.add((s_,c_,int(y),int(x)))
    conds=[]
    for s_ in range(S):
      for c_ in range(C):
        for i in range(H):
          for j in range(W):
            v=cv[((s_*C+c_)*H+i)*W+j].v
            nb=[cv[((s_*C+c_)*H+a)*W+b].v for a in range(max(0,i-1),min(H,i+2)) for b in range(max(0,j-1),min(W,j+2)) if (a,b)!=(i,j)]
            ispeak=z3.And(v>zreal(Fraction(thr)), *[v>n for n in nb])
            conds.append(ispeak if (s_,c_,i,j) in got else z3.Not(ispeak))
    r=ex.check(z3.Not(z3.And(*conds)))
    if r!=z3.unsat: viol+=1; print("VIOL", got, ex.solver.model())
print("paths",ex.paths,"viol",viol,"time",time.time()-t0, STATS)
