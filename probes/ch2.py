import torch, kornia.core
kornia.core.Tensor = torch.Tensor
import time, z3
from crosshair.core_and_libs import analyze_function, run_checkables, MessageType
from crosshair.options import AnalysisOptionSet
from crosshair.options import DEFAULT_OPTIONS
import crosshair.statespace as ss
# count solver queries
cnt={"n":0,"t":0.0}
orig=z3.Solver.check
def chk(self,*a):
    t=time.time(); r=orig(self,*a); cnt["n"]+=1; cnt["t"]+=time.time()-t; return r
z3.Solver.check=chk
import ch1
opts=AnalysisOptionSet(per_condition_timeout=60, report_all=True, max_uninteresting_iterations=1000000, per_path_timeout=30)
t0=time.time()
msgs=list(run_checkables(analyze_function(ch1.check_geo, opts)))
for m in msgs: print(m.state, m.message[:200])
print(cnt, time.time()-t0)
