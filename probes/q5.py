# Probe: Dataset classes over duck-typed labels (no sleap_io objects, no files)
import torch, kornia.core
kornia.core.Tensor = torch.Tensor
import numpy as np
from omegaconf import OmegaConf
from sleap_nn.data.custom_datasets import BottomUpDataset, CenteredInstanceDataset, CentroidDataset, SingleInstanceDataset
class FInst:
    def __init__(s,pts,user=True): s.pts=np.array(pts,dtype=float); s.user=user
    def numpy(s): return s.pts.copy()
    @property
    def is_empty(s): return bool(np.isnan(s.pts).all())
class FVideo:
    def __init__(s,n,H,W,C=1): s.shape=(n,H,W,C); s.filename="mem"
    def close(s): pass
class FLF:
    def __init__(s,video,idx,insts,img): s.video=video; s.frame_idx=idx; s.instances=insts; s.image=img
    @property
    def user_instances(s): return [i for i in s.instances if i.user]
    def __iter__(s): return iter(s.instances)
    def __len__(s): return len(s.instances)
class FSkel:
    edge_inds=[(0,1),(1,2)]
class FLabels:
    def __init__(s,lfs,videos): s.lfs=lfs; s.videos=videos; s.skeletons=[FSkel()]
    def __iter__(s): return iter(s.lfs)
    def __getitem__(s,i): return s.lfs[i]
    def __len__(s): return len(s.lfs)
vid=FVideo(2,16,16)
rng=np.random.default_rng(0)
lfs=[FLF(vid,f,[FInst([[2,3],[5,6],[np.nan,np.nan]]),FInst([[10,3],[12,6],[9,9]]),FInst([[np.nan]*2]*3)], rng.integers(0,255,(16,16,1),dtype=np.uint8)) for f in range(2)]
labels=FLabels(lfs,[vid])
dc=OmegaConf.create({"user_instances_only":True,"preprocessing":{"is_rgb":False,"max_height":None,"max_width":None,"scale":1.0,"crop_hw":[8,8],"min_crop_size":None},"use_augmentations_train":False})
cm=OmegaConf.create({"sigma":1.5,"output_stride":2,"part_names":None,"anchor_part":2})
paf=OmegaConf.create({"sigma":1.5,"output_stride":4,"edges":None})
import inspect
for cls,kw in [(BottomUpDataset,dict(confmap_head_config=cm,pafs_head_config=paf)),(CenteredInstanceDataset,dict(confmap_head_config=cm,crop_hw=(8,8))),(CentroidDataset,dict(confmap_head_config=cm)),(SingleInstanceDataset,dict(confmap_head_config=cm))]:
    try:
        ds=cls(labels=labels,data_config=dc,max_stride=8,scale=1.0,max_hw=(16,16),**kw)
        s=ds[0]
        print(cls.__name__,"len",len(ds),{k:(tuple(v.shape) if hasattr(v,"shape") else v) for k,v in s.items()})
        if "instance" in s: print("   instance:",s["instance"].tolist())
    except Exception as e:
        import traceback; print(cls.__name__,"FAIL",type(e).__name__,e); traceback.print_exc(limit=3)
