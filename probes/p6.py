import numpy as real_np, z3, time, symt, symnp
from symnp import SF, SB
from symt import *
import sleap_nn.evaluation as ev
ev.np = symnp.np     # substitute module-level numpy
z3.set_param("timeout",120000)
N=2
def symarr(name, shape, may_nan=True):
    a=real_np.empty(shape,dtype=object)
    for idx in real_np.ndindex(*shape):
        nm=name+"_".join(map(str,idx))
        a[idx]=SF(z3.Real(nm), nan=False)
    return a.view(symnp.SymNd)
gt=symarr("g",(1,N,2)); pr=symarr("p",(1,N,2))
# nan pattern: per node flags (both coords)
for n in range(N):
    fg=z3.Bool(f"gn{n}"); fp=z3.Bool(f"pn{n}")
    for c in range(2): gt[0,n,c].nan=fg; pr[0,n,c].nan=fp
ex=Explorer([]); symt.EXPLORER=ex; symt.EXP_MODE="uf"
t0=time.time()
def path():
    symt.SIDE.clear(); symt.EXP_APPS.clear()
    return ev.compute_oks(gt,pr)
for out in ex.run(path):
    o=out[0,0]
    ex.solver.add(*symt.SIDE); ex.solver.add(*exp_axioms())
    anyvis=z3.Or(*[z3.Not(z3.Bool(f"gn{n}")) for n in range(N)])
    bad=z3.And(anyvis, z3.Or(zbool(o.nan), zbool(o.pinf), zbool(o.ninf), zreal(o.v)<0, zreal(o.v)>1))
    t=time.time(); r=ex.check(bad); print("path",ex.paths,"pc",len(ex.pc),"range:",r,round(time.time()-t,2))
    if r==z3.sat: print(ex.solver.model())
print("paths",ex.paths,"time",time.time()-t0, STATS)
