# Probe: C04 part A -- real apply_sizematcher / apply_pad_to_stride on a shape-only tensor with symbolic int dims
import torch, kornia.core
kornia.core.Tensor = torch.Tensor
import z3, time, symt
from symt import Explorer, zreal
import sleap_nn.data.resizing as rz
class S:   # symbolic scalar (Int or Real z3 term) with python operators; comparisons fork
    def __init__(s,t): s.t=t
    @staticmethod
    def of(x):
        if isinstance(x,S): return x
        if isinstance(x,bool): raise TypeError
        if isinstance(x,int): return S(z3.IntVal(x))
        from fractions import Fraction
        return S(z3.RealVal(str(Fraction(x))))
    def _bin(s,o,f,forcereal=False):
        o=S.of(o); a,b=s.t,o.t
        if forcereal or z3.is_real(a) or z3.is_real(b):
            a=z3.ToReal(a) if z3.is_int(a) else a; b=z3.ToReal(b) if z3.is_int(b) else b
        return S(f(a,b))
    def __add__(s,o): return s._bin(o,lambda a,b:a+b)
    __radd__=__add__
    def __sub__(s,o): return s._bin(o,lambda a,b:a-b)
    def __rsub__(s,o): return S.of(o)-s
    def __mul__(s,o): return s._bin(o,lambda a,b:a*b)
    __rmul__=__mul__
    def __truediv__(s,o): return s._bin(o,lambda a,b:a/b,True)
    def __rtruediv__(s,o): return S.of(o)/s
    def __mod__(s,o): return s._bin(o,lambda a,b:a%b)
    def _cmp(s,o,f): return symt.EXPLORER.decide(z3.simplify(s._bin(o,f).t))
    def __lt__(s,o): return s._cmp(o,lambda a,b:a<b)
    def __le__(s,o): return s._cmp(o,lambda a,b:a<=b)
    def __gt__(s,o): return s._cmp(o,lambda a,b:a>b)
    def __ge__(s,o): return s._cmp(o,lambda a,b:a>=b)
    def __eq__(s,o): return s._cmp(o,lambda a,b:a==b)
    def __ne__(s,o): return s._cmp(o,lambda a,b:a!=b)
    __hash__=None
def sym_round(x):
    if not isinstance(x,S): return round(x)
    t=x.t
    if z3.is_int(t): return x
    f=z3.ToInt(t); fr=t-z3.ToReal(f)
    return S(z3.If(fr<0.5,f,z3.If(fr>0.5,f+1,z3.If(f%2==0,f,f+1))))
def sym_int(x):
    if not isinstance(x,S): return int(x)
    t=x.t
    if z3.is_int(t): return x
    return S(z3.If(t>=0, z3.ToInt(t), -z3.ToInt(-t)))   # truncation toward zero
class ShapeT:   # shape-only tensor stand-in
    def __init__(s,shape,log): s.shape=tuple(shape); s.log=log
    def to(s,*a,**k): return s
REC=[]
class TVF:
    @staticmethod
    def resize(img,size,**k):
        REC.append(("resize",tuple(size))); return ShapeT(img.shape[:-2]+tuple(size), REC)
class FF:
    @staticmethod
    def pad(img,pad,mode="constant",value=0):
        REC.append(("pad",tuple(pad))); l,r,t,b=pad
        return ShapeT(img.shape[:-2]+(img.shape[-2]+t+b, img.shape[-1]+l+r), REC)
rz.tvf=TVF; rz.F=FF; rz.int=sym_int; rz.round=sym_round
H,W,MH,MW=[z3.Int(n) for n in ("H","W","MH","MW")]
N=64
base=[H>=1,W>=1,MH>=1,MW>=1,H<=N,W<=N,MH<=N,MW<=N]
ex=Explorer(base); symt.EXPLORER=ex
z3.set_param("timeout",60000)
t0=time.time()
def path():
    REC.clear()
    img=ShapeT((1,1,S(H),S(W)),REC)
    out,eff=rz.apply_sizematcher(img,S(MH),S(MW))
    return out,eff,list(REC)
for out,eff,rec in ex.run(path):
    oh,ow=out.shape[-2:]
    oh=S.of(oh).t; ow=S.of(ow).t
    bad=[oh!=MH, ow!=MW]
    for r in rec:
        if r[0]=="pad":
            l,rr,t,b=[S.of(v).t for v in r[1]]
            bad += [l!=0, t!=0, rr<0, b<0]
        if r[0]=="resize":
            th,tw=[S.of(v).t for v in r[1]]
            bad += [th>MH, tw>MW, z3.And(th!=MH, tw!=MW)]
            k=z3.Real("k"); e=S.of(eff).t
            e=z3.ToReal(e) if z3.is_int(e) else e
            bad += [z3.And(k>=0,k<=z3.ToReal(H), z3.Or(k*e-k*z3.ToReal(th)/z3.ToReal(H)>0.5, k*z3.ToReal(th)/z3.ToReal(H)-k*e>0.5))]
    t=time.time(); r=ex.check(z3.Or(*bad)); print("path",ex.paths,"pc",[str(c)[:50] for c in ex.pc],"rec",[x[0] for x in rec],"->",r,round(time.time()-t,2))
    if r==z3.sat: print(ex.solver.model())
print("paths",ex.paths,round(time.time()-t0,1),symt.STATS)
