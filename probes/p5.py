import torch, z3, time, symt, itertools, sys
from symt import *
from sleap_nn.inference.single_instance import SingleInstanceInferenceModel
import lightning as L
z3.set_param("timeout",120000)
G=int(sys.argv[1]) if len(sys.argv)>1 else 4
stride=2; input_scale=0.5; eff=0.75
nodes=2
# keypoints in ORIGINAL image coords; network input coords = k*eff*input_scale ; grid = that/stride
kx=[z3.Real(f"kx{n}") for n in range(nodes)]; ky=[z3.Real(f"ky{n}") for n in range(nodes)]
vis=[z3.Bool(f"vis{n}") for n in range(nodes)]
base=[]
Wn=G*stride  # network input width
for n in range(nodes):
    base += [kx[n]*eff*input_scale>=0, kx[n]*eff*input_scale<=Wn-stride, ky[n]*eff*input_scale>=0, ky[n]*eff*input_scale<=Wn-stride]
class Ideal(torch.nn.Module):
    def forward(self, img):
        vals=[]; cons=[]
        for n in range(nodes):
            cells=[]
            px=kx[n]*eff*input_scale; py=ky[n]*eff*input_scale
            for i in range(G):
                for j in range(G):
                    v=z3.Real(f"cm{n}_{i}_{j}")
                    cells.append((v,i,j))
                    cons += [z3.Implies(vis[n], z3.And(v>0.3, v<=1)), z3.Implies(z3.Not(vis[n]), v==0)]
                    vals.append(FV(False,v))
            for (v,i,j),(w,k,l) in itertools.combinations(cells,2):
                # d2(i,j)-d2(k,l) linear in px,py
                diff=((j*stride)**2-(l*stride)**2)-2*px*(j*stride-l*stride)+((i*stride)**2-(k*stride)**2)-2*py*(i*stride-k*stride)
                cons += [z3.Implies(vis[n], z3.And(z3.Implies(diff<0, v>w), z3.Implies(diff>0, v<w), z3.Implies(diff==0, v==w)))]
        symt.SIDE += cons
        return mk(vals,(1,nodes,G,G),torch.float32)
ex=Explorer(base); symt.EXPLORER=ex
mode=SymMode(); mode.__enter__()
model=SingleInstanceInferenceModel(Ideal(), output_stride=stride, peak_threshold=0.2, refinement=None, input_scale=input_scale)
t0=time.time()
def path():
    symt.SIDE.clear()
    img=torch.zeros(1,1,1,Wn,Wn)
    out=model({"image":img, "eff_scale":torch.tensor([eff])})
    return out[0]
for out in ex.run(path):
    pk=out["pred_instance_peaks"].vals(); pv=out["pred_peak_values"].vals()
    ex.solver.add(*symt.SIDE)
    tol=Fraction(stride)/2/Fraction(input_scale)/Fraction(eff)
    bad=[]
    for n in range(nodes):
        x=pk[2*n]; y=pk[2*n+1]
        good_vis=z3.And(z3.Not(zbool(x.nan)), z3.Not(zbool(y.nan)), zreal(x.v)-kx[n]<=zreal(tol), kx[n]-zreal(x.v)<=zreal(tol), zreal(y.v)-ky[n]<=zreal(tol), ky[n]-zreal(y.v)<=zreal(tol))
        good_inv=z3.And(zbool(x.nan), zbool(y.nan), zreal(pv[n].v)==0)
        bad.append(z3.Not(z3.If(vis[n], good_vis, good_inv)))
    t=time.time(); r=ex.check(z3.Or(*bad)); print("path",ex.paths,"pc",len(ex.pc),"result",r,time.time()-t)
    if r==z3.sat:
        m=ex.solver.model(); print([m.eval(v) for v in kx+ky+vis]); print([ (m.eval(zbool(p.nan)), m.eval(zreal(p.v))) for p in pk])
print("paths",ex.paths,"time",time.time()-t0, STATS)
