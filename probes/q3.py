# Probe: content-derived geometry oracle. A linear ramp image lets a stub network recover the scale/extent
# of "the image it is actually given" from pixels alone (for the predictor-level C02 check).
import torch, kornia.core
kornia.core.Tensor = torch.Tensor
from sleap_nn.data.resizing import apply_sizematcher, resize_image, apply_pad_to_stride
import torchvision.transforms.v2.functional as F
def ramp(H,W):
    y,x=torch.meshgrid(torch.arange(H,dtype=torch.float32),torch.arange(W,dtype=torch.float32),indexing="ij")
    # two channels would be ideal; single channel: encode x in low part, y in high part
    return ((x+1)/1024.0 + (y+1)/16.0).reshape(1,1,H,W)
def recover(img):
    """estimate (fx, fy, valid_h, valid_w): content scale and unpadded extent"""
    a=img[0,0]
    valid_rows=(a.abs().sum(dim=1)>0).nonzero().max().item()+1
    valid_cols=(a.abs().sum(dim=0)>0).nonzero().max().item()+1
    ih,iw=valid_rows//2, valid_cols//2
    dx=(a[ih,iw+1]-a[ih,iw]).item()*1024.0   # original-x units per output pixel
    dy=(a[ih+1,iw]-a[ih,iw]).item()*16.0
    return 1/dx, 1/dy, valid_rows, valid_cols
for (H,W,mh,mw,sc,ms) in [(12,16,12,16,1.0,1),(12,16,24,24,1.0,1),(12,16,12,16,0.5,4),(10,14,20,32,0.5,8),(16,16,16,16,2.0,1)]:
    img=ramp(H,W)
    img,eff=apply_sizematcher(img,mh,mw)
    img=F.rgb_to_grayscale(img,num_output_channels=1)
    if sc!=1.0: img=resize_image(img,sc)
    img=apply_pad_to_stride(img,ms)
    fx,fy,vh,vw=recover(img)
    print((H,W,mh,mw,sc,ms),"given",tuple(img.shape[-2:]),"nominal scale",eff*sc,"recovered",round(fx,4),round(fy,4),"valid",vh,vw)
