from typing import List
from sleap_nn.inference.paf_grouping import toposort_edges, EdgeType
def check(src: List[int], dst: List[int]) -> bool:
    """
    pre: 1 <= len(src) <= 3 and len(dst) == len(src)
    pre: all(0 <= s <= len(src) for s in src) and all(0 <= d <= len(src) for d in dst)
    pre: is_tree(src, dst)
    post: _
    """
    n=len(src)
    order=toposort_edges([EdgeType(s,d) for s,d in zip(src,dst)])
    if sorted(order)!=list(range(n)): return False
    # parent-before-child: edge into src of e must precede e
    pos={e:i for i,e in enumerate(order)}
    for e in range(n):
        for f in range(n):
            if dst[f]==src[e] and not pos[f]<pos[e]: return False
    return True
def is_tree(src, dst):
    n=len(src)
    # each node 0..n appears; each non-root has exactly one incoming edge; connected & acyclic: n edges on n+1 nodes, all dst distinct, root = the node not in dst, every node reaches root
    if len(set(dst))!=n: return False
    nodes=set(range(n+1))
    roots=nodes-set(dst)
    if len(roots)!=1: return False
    par={d:s for s,d in zip(src,dst)}
    for v in nodes:
        seen=0; x=v
        while x in par:
            x=par[x]; seen+=1
            if seen>n: return False
    return True
toposort_edges([EdgeType(0,1),EdgeType(1,2)])   # warm-up: networkx lazily exec-compiles its dispatch wrappers
