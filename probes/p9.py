import numpy as real_np, z3, time, itertools, sys
import symt, symnp
from symnp import SF, SB, SymNd
from symt import *
import sleap_nn.tracking.tracker as trk, sleap_nn.tracking.utils as tu
import sleap_nn.tracking.candidates.fixed_window as fw, sleap_nn.tracking.candidates.local_queues as lq
np=symnp.np
# ---- shim additions ----
def zeros(shape, dtype=None):
    a=real_np.empty(shape,dtype=object); a[...]=SF.of(0.0); 
    for idx in real_np.ndindex(*a.shape): a[idx]=SF.of(0.0)
    return a.view(SymNd)
np.zeros=zeros
def nanmean(xs):
    xs=[SF.of(x) for x in xs]
    if not xs: return SF.of(float('nan'))
    tot=SF.of(0.0); cnt=SF.of(0.0)
    for x in xs:
        tot=tot+SF(Ite(x.nan,Fraction(0),x.v)); cnt=cnt+SF(Ite(x.nan,Fraction(0),Fraction(1)))
    return tot/cnt
np.nanmean=nanmean
def lsa_stub(cost):
    """symbolic Hungarian: choose (by forking) an optimal full assignment of min(n,m) pairs with finite total cost; raise ValueError if none"""
    n,m=cost.shape
    k=min(n,m)
    cands=[]
    if n<=m:
        for cols in itertools.permutations(range(m),n): cands.append((list(range(n)),list(cols)))
    else:
        for rows in itertools.permutations(range(n),m):
            pairs=sorted(zip(rows,range(m))); cands.append(([p[0] for p in pairs],[p[1] for p in pairs]))
    def tot(c):
        t=SF.of(0.0)
        for r,cc in zip(*c): t=t+SF.of(cost[r,cc])
        return t
    tots=[tot(c) for c in cands]
    ex=symt.EXPLORER
    if k==0: return real_np.array([],dtype=int), real_np.array([],dtype=int)
    for i,c in enumerate(cands):
        fin=And(Not(tots[i].nan),Not(tots[i].pinf))
        best=And(fin,*[ Or(tots[j].pinf, tots[j].nan, cmp("<=",tots[i].v,tots[j].v)) for j in range(len(cands)) if j!=i])
        if ex.decide(zbool(best)):
            return real_np.array(c[0]), real_np.array(c[1])
    raise ValueError("cost matrix is infeasible")
tu.linear_sum_assignment=lsa_stub
for mod in (trk,fw,lq,tu): mod.np=np
def isnan2(a):
    if isinstance(a,real_np.ndarray) and a.dtype==object: return symnp.isnan(a)
    return real_np.isnan(a)
np.isnan=isnan2
class Det:
    def __init__(self, animal, frame, score): self.animal=animal; self.frame=frame; self.score=score; self.track=None; self.tracking_score=None
    def numpy(self): return self   # feature = the detection itself (tagged)
K=int(sys.argv[1]) if len(sys.argv)>1 else 2; F=int(sys.argv[2]) if len(sys.argv)>2 else 3
cand=sys.argv[3] if len(sys.argv)>3 else "fixed_window"
SC={}
def score_stub(f, g):
    key=(f.animal,f.frame,g.animal,g.frame)
    if key not in SC:
        v=z3.Real(f"s_{f.animal}_{f.frame}_{g.animal}_{g.frame}"); SC[key]=v
        c=[v>=0, v<=1] + ([v>0.6] if f.animal==g.animal else [v<0.4])
        BASE.extend(c); symt.EXPLORER.solver.add(*c)
    return SF(SC[key])
BASE=[]
present=[[z3.Bool(f"pres_{a}_{t}") for a in range(K)] for t in range(F)]
ex=Explorer(BASE); symt.EXPLORER=ex
t0=time.time(); viol=0
def path():
    t=trk.Tracker.from_config(candidates_method=cand, features="keypoints", scoring_method="oks", window_size=F+1)
    t._scoring_functions={"oks":score_stub}; t._feature_methods={"keypoints":lambda d: d}
    t._scoring_reduction_methods={"mean":np.nanmean}
    t._track_objects={}
    hist=[]
    for f in range(F):
        dets=[Det(a,f,0.9) for a in range(K) if ex.decide(present[f][a])]
        try:
            out=t.track(dets,f)
        except Exception as e:
            return ("EXC",f,type(e).__name__,str(e)[:60],[[d.animal for d in h[0]] for h in hist]+[[d.animal for d in dets]])
        hist.append((dets,[(o.animal,o.track.name if o.track is not None else None) for o in out]))
    return ("OK",hist)
res={}
for r in ex.run(path):
    if r[0]=="EXC":
        key=("EXC",)+r[2:4]; res.setdefault(key,[]).append(r[4]); continue
    # C09: every input detection returned once with a track; distinct tracks per frame
    ok=True
    for dets,out in r[1]:
        if sorted(a for a,_ in out)!=sorted(d.animal for d in dets): ok=False
        tr=[n for _,n in out]
        if None in tr or len(set(tr))!=len(tr): ok=False
    if not ok: res.setdefault(("C09-viol",),[]).append([o for _,o in r[1]])
    else:
        # C10 identity continuity
        ident={}; good=True
        for dets,out in r[1]:
            for a,n in out:
                if a in ident and ident[a]!=n: good=False
                ident.setdefault(a,n)
        if len(set(ident.values()))!=len(ident): good=False
        res.setdefault(("OK" if good else "C10-viol",),[]).append([o for _,o in r[1]])
for k,v in res.items(): print(k,len(v),v[:2])
print("paths",ex.paths,"time",round(time.time()-t0,1),STATS)
