# Probe: C16 -- real Evaluator.voc_metrics / pck_metrics / mOKS on symbolic match scores (constructor bypassed)
import numpy as real_np, z3, time, symt, symnp, functools
from symnp import SF, SB, SymNd
from symt import *
import sleap_nn.evaluation as ev
np=symnp.np; ev.np=np
z3.set_param("timeout",60000)
def _o(a): return isinstance(a,real_np.ndarray) and a.dtype==object
def array(x,*a,**k):
    if any(isinstance(e,(SF,SB)) for e in (x if isinstance(x,(list,tuple)) else [])):
        r=real_np.empty(len(x),dtype=object)
        for i,e in enumerate(x): r[i]=e
        return r.view(SymNd)
    return real_np.array(x,*a,**k)
np.array=array
def argsort(a,axis=-1,kind=None):
    if not _o(a): return real_np.argsort(a,axis=axis,kind=kind)
    # stable insertion sort with forking comparisons (ascending)
    idx=[]
    for i in range(len(a)):
        pos=len(idx)
        for j,k in enumerate(idx):
            if bool(SF.of(a[i])<SF.of(a[k])): pos=j; break
        idx.insert(pos,i)
    return real_np.array(idx,dtype=int)
np.argsort=argsort
def cumsum(a):
    if not _o(a): return real_np.cumsum(a)
    out=real_np.empty(len(a),dtype=object); acc=SF.of(0.0)
    for i,e in enumerate(a): acc=acc+SF.of(e); out[i]=acc
    return out.view(SymNd)
np.cumsum=cumsum
def searchsorted(a,v,side="left"):
    if not _o(a): return real_np.searchsorted(a,v,side=side)
    out=[]
    for t in real_np.atleast_1d(v):
        cnt=0
        for e in a:
            if bool(SF.of(e)<SF.of(float(t))): cnt+=1      # a is sorted ascending: count of elements < t (forks)
        out.append(cnt)
    return real_np.array(out,dtype=int)
np.searchsorted=searchsorted
def zeros(shape,dtype=None):
    a=real_np.empty(shape,dtype=object)
    for idx in real_np.ndindex(*a.shape): a[idx]=SF.of(0.0)
    return a.view(SymNd)
np.zeros=zeros
# SymNd helpers
def _mean(self,axis=None):
    n=self.shape[axis] if axis is not None else self.size
    return symnp.sum_(self,axis=axis)/float(n) if axis is None else (symnp.sum_(self,axis=axis)*(1.0/n))
SymNd.mean=_mean
SF.__neg__=SF.__neg__
class PI:   # predicted-instance stand-in inside a positive pair
    def __init__(s,score): s.instance=s; s.score=score
n=3
oks=[SF(z3.Real(f"oks{i}")) for i in range(n)]; sc=[SF(z3.Real(f"sc{i}")) for i in range(n)]
base=[]
for i in range(n): base += [oks[i].v>=0, oks[i].v<=1, sc[i].v>=0, sc[i].v<=1]
nfn=z3.Int("nfn"); base += [nfn>=0, nfn<=2]
E=object.__new__(ev.Evaluator)
E.positive_pairs=[(None,PI(sc[i]),oks[i]) for i in range(n)]
class FNs:  # false negatives list of symbolic length: concretise by forking
    def __len__(s): return symt.EXPLORER.concretize_int(nfn)
E.false_negatives=FNs()
ex=Explorer(base); symt.EXPLORER=ex
t0=time.time(); viol=0
thr=real_np.array([0.5,0.75,0.95]); rthr=real_np.linspace(0,1,5)
def path():
    return E.voc_metrics(match_score_thresholds=thr, recall_thresholds=rthr)
for out in ex.run(path):
    AP=out["oks_voc.AP"]; AR=out["oks_voc.AR"]
    cons=[]
    for a in list(AP)+list(AR):
        a=SF.of(a); cons.append(z3.Or(zbool(a.nan), zreal(a.v)<0, zreal(a.v)>1))
    for i in range(len(thr)-1):
        cons.append(zreal(SF.of(AP[i+1]).v)>zreal(SF.of(AP[i]).v)); cons.append(zreal(SF.of(AR[i+1]).v)>zreal(SF.of(AR[i]).v))
    r=ex.check(z3.Or(*cons))
    if r!=z3.unsat: viol+=1; print("path",ex.paths,r, ex.solver.model() if r==z3.sat else ""); break
print("paths",ex.paths,"viol",viol,"time",round(time.time()-t0,1),STATS)
