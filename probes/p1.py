# Probe: which aten ops do target functions hit? Use a logging TorchDispatchMode on real tensors.
import torch, collections
from torch.utils._python_dispatch import TorchDispatchMode
class Log(TorchDispatchMode):
    def __init__(self): super().__init__(); self.c=collections.Counter()
    def __torch_dispatch__(self, func, types, args=(), kwargs=None):
        self.c[str(func)]+=1
        return func(*args, **(kwargs or {}))
from sleap_nn.data.confidence_maps import generate_confmaps, generate_multiconfmaps
from sleap_nn.data.edge_maps import generate_pafs
from sleap_nn.inference.peak_finding import find_local_peaks, find_global_peaks
from sleap_nn.data.instance_centroids import generate_centroids
def run(name, f):
    with Log() as l:
        f()
    print("==",name); 
    for k,v in sorted(l.c.items()): print("   ",k,v)
pts=torch.tensor([[[[1.5,2.5],[float('nan'),3.]],[[5.,6.],[7.,1.]]]])
run("confmaps", lambda: generate_confmaps(pts[:,0], (8,8), 1.5, 2))
run("multiconfmaps", lambda: generate_multiconfmaps(pts, (8,8), 2, 1.5, 2))
run("pafs", lambda: generate_pafs(pts, (8,8), 1.5, 2, torch.tensor([[0,1]]), True))
cms=torch.rand(2,2,6,6)
run("local_rough", lambda: find_local_peaks(cms, 0.2, None))
run("local_int", lambda: find_local_peaks(cms, 0.2, "integral", 3))
run("global_int", lambda: find_global_peaks(cms, 0.2, "integral", 3))
run("centroids", lambda: generate_centroids(pts.clone(), 0))
