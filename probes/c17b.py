import time, z3
cnt={"n":0,"t":0.0}; orig=z3.Solver.check
def chk(self,*a):
    t=time.time(); r=orig(self,*a); cnt["n"]+=1; cnt["t"]+=time.time()-t; return r
z3.Solver.check=chk
import c17
from crosshair.core_and_libs import analyze_function, run_checkables
from crosshair.options import AnalysisOptionSet
opts=AnalysisOptionSet(per_condition_timeout=600, report_all=True, max_uninteresting_iterations=10**9, per_path_timeout=60)
t0=time.time()
for m in run_checkables(analyze_function(c17.check, opts)): print(m.state, m.message[:300])
print(cnt, round(time.time()-t0,1))
