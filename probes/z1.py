import z3, time, itertools
for P in (3,5):
    c=[[z3.Real(f"c{i}_{j}") for j in range(P)] for i in range(P)]
    g=[k-(P-1)/2 for k in range(P)]
    s=z3.Solver(); s.set("timeout",120000)
    flat=[x for r in c for x in r]
    s.add(*[x>=0 for x in flat]); z=z3.Sum(flat); s.add(z>0)
    xh=z3.Sum([g[j]*c[i][j] for i in range(P) for j in range(P)])/z
    h=(P-1)/2
    s.add(z3.Or(xh>h, xh<-h))
    t=time.time(); print(P,"bounded:",s.check(),round(time.time()-t,2))
    # symmetric bump unmoved: c[i][j]==c[i][P-1-j] -> xh==0
    s=z3.Solver(); s.set("timeout",120000)
    s.add(*[x>=0 for x in flat]); s.add(z>0)
    s.add(*[c[i][j]==c[i][P-1-j] for i in range(P) for j in range(P)])
    s.add(xh!=0)
    t=time.time(); print(P,"symmetric:",s.check(),round(time.time()-t,2))
