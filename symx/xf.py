"""Scalar term layer: booleans, mathematical integers and the extended-real float model XF over z3.

XF = (nan, pinf, ninf, v): IEEE-754 *special value* rules exactly, finite arithmetic is exact real
arithmetic (no rounding / overflow).  Flags that are statically False stay Python ``False`` and are folded
away.  Representation invariant: at most one flag is true; when a flag is true ``v`` is a don't-care and
every consumer guards on the flags.
"""
from __future__ import annotations
import math, itertools
from fractions import Fraction
import z3

FLT_MAX = Fraction(3.4028234663852886e38)


def isz(x):
    return isinstance(x, z3.ExprRef)


# ------------------------------------------------------------------ booleans
def zb(x):
    return x if isz(x) else z3.BoolVal(bool(x))


def Or(*a):
    out = []
    for x in a:
        if x is True or (not isz(x) and x):
            return True
        if x is False or (not isz(x) and not x):
            continue
        out.append(x)
    if not out:
        return False
    return out[0] if len(out) == 1 else z3.Or(*out)


def And(*a):
    out = []
    for x in a:
        if x is False or (not isz(x) and not x):
            return False
        if x is True or (not isz(x) and x):
            continue
        out.append(x)
    if not out:
        return True
    return out[0] if len(out) == 1 else z3.And(*out)


def Not(a):
    if not isz(a):
        return not a
    if z3.is_not(a):
        return a.arg(0)
    return z3.Not(a)


def Implies(a, b):
    return Or(Not(a), b)


def Xor(a, b):
    if not isz(a):
        return Not(b) if a else b
    if not isz(b):
        return Not(a) if b else a
    return z3.Xor(a, b)


def BIte(c, a, b):
    if not isz(c):
        return a if c else b
    if not isz(a) and not isz(b):
        if bool(a) == bool(b):
            return bool(a)
        return c if a else Not(c)
    return z3.If(c, zb(a), zb(b))


# ------------------------------------------------------------------ reals / ints
def Q(x):
    """python number -> z3 Real numeral (exact)."""
    f = Fraction(x)
    return z3.RealVal(f"{f.numerator}/{f.denominator}") if f.denominator != 1 else z3.RealVal(f.numerator)


def R(x):
    """anything numeric -> z3 Real term."""
    if isz(x):
        return z3.ToReal(x) if z3.is_int(x) else x
    return Q(x)


def I(x):
    if isz(x):
        return x
    return z3.IntVal(int(x))


def _isnum(x):
    return not isz(x)


def radd(a, b):
    if _isnum(a) and _isnum(b):
        return Fraction(a) + Fraction(b)
    if _isnum(a) and a == 0:
        return R(b)
    if _isnum(b) and b == 0:
        return R(a)
    return R(a) + R(b)


def rsub(a, b):
    if _isnum(a) and _isnum(b):
        return Fraction(a) - Fraction(b)
    if _isnum(b) and b == 0:
        return R(a)
    return R(a) - R(b)


def rmul(a, b):
    if _isnum(a) and _isnum(b):
        return Fraction(a) * Fraction(b)
    if _isnum(a):
        if a == 0:
            return Fraction(0)
        if a == 1:
            return R(b)
    if _isnum(b):
        if b == 0:
            return Fraction(0)
        if b == 1:
            return R(a)
    return R(a) * R(b)


def rdiv(a, b):
    """a / b with b != 0 guaranteed by the caller."""
    if _isnum(a) and _isnum(b):
        return Fraction(a) / Fraction(b)
    if _isnum(b):
        if b == 1:
            return R(a)
        return R(a) * Q(1 / Fraction(b))
    if _isnum(a) and a == 0:
        return Fraction(0)
    return R(a) / R(b)


def rneg(a):
    if _isnum(a):
        return -Fraction(a)
    return -a


def rcmp(op, a, b):
    if _isnum(a) and _isnum(b):
        a = Fraction(a)
        b = Fraction(b)
        return {"<": a < b, "<=": a <= b, ">": a > b, ">=": a >= b, "==": a == b, "!=": a != b}[op]
    if isz(a) and isz(b) and z3.is_int(a) and z3.is_int(b):
        pass
    else:
        a = R(a)
        b = R(b)
    return {"<": a < b, "<=": a <= b, ">": a > b, ">=": a >= b, "==": a == b, "!=": a != b}[op]


def RIte(c, a, b):
    if not isz(c):
        return a if c else b
    if _isnum(a) and _isnum(b) and Fraction(a) == Fraction(b):
        return a
    if isz(a) and isz(b) and a.eq(b):
        return a
    return z3.If(c, R(a), R(b))


# ints (mathematical)
def iadd(a, b):
    if _isnum(a) and _isnum(b):
        return int(a) + int(b)
    return I(a) + I(b)


def isub(a, b):
    if _isnum(a) and _isnum(b):
        return int(a) - int(b)
    return I(a) - I(b)


def imul(a, b):
    if _isnum(a) and _isnum(b):
        return int(a) * int(b)
    if _isnum(a) and a == 1:
        return b
    if _isnum(b) and b == 1:
        return a
    return I(a) * I(b)


def ifloordiv(a, b):
    if _isnum(a) and _isnum(b):
        return int(a) // int(b)
    if _isnum(b) and b > 0:
        return I(a) / I(b)  # z3 int division is floor for positive divisors
    # general: floor(a/b)
    return z3.ToInt(R(a) / R(b))


def imod(a, b):
    if _isnum(a) and _isnum(b):
        return int(a) % int(b)
    if _isnum(b) and b > 0:
        return I(a) % I(b)
    return isub(a, imul(ifloordiv(a, b), b))


def icmp(op, a, b):
    if _isnum(a) and _isnum(b):
        return {"<": a < b, "<=": a <= b, ">": a > b, ">=": a >= b, "==": a == b, "!=": a != b}[op]
    a = I(a)
    b = I(b)
    return {"<": a < b, "<=": a <= b, ">": a > b, ">=": a >= b, "==": a == b, "!=": a != b}[op]


def IIte(c, a, b):
    if not isz(c):
        return a if c else b
    if _isnum(a) and _isnum(b) and a == b:
        return a
    return z3.If(c, I(a), I(b))


# ------------------------------------------------------------------ context (set by explorer)
class _Ctx:
    explorer = None
    exp_mode = "uf"  # "uf" | "fresh"
    exp_apps = []  # arguments exp was applied to (uf mode)
    fresh = 0
    fork_specials = False  # eager path split on NaN/inf flags and division by zero (keeps per-path formulas polynomial)
    memo = {}  # per path: (kind, arg AST id) -> (arg kept alive, fresh var): same argument => same fresh variable

    def side(self, *cs):
        """register definitional side constraints (about fresh variables)."""
        ex = self.explorer
        if ex is None:
            raise RuntimeError("side constraint outside an exploration")
        for c in cs:
            if c is True:
                continue
            ex.add_side(zb(c))

    def fresh_real(self, p="t"):
        self.fresh += 1
        return z3.Real(f"{p}!{self.fresh}")

    def fresh_int(self, p="i"):
        self.fresh += 1
        return z3.Int(f"{p}!{self.fresh}")

    def fresh_bool(self, p="b"):
        self.fresh += 1
        return z3.Bool(f"{p}!{self.fresh}")


CTX = _Ctx()
FRESH_DEFS = {}  # fresh variable name -> ("sqrt", arg term): lets eval_term compute its value
EXP = z3.Function("EXP", z3.RealSort(), z3.RealSort())


def exp_axioms(apps=None, pairwise=True):
    """Instantiated axioms for the uninterpreted EXP over the given application arguments."""
    apps = CTX.exp_apps if apps is None else apps
    args = list({a.get_id(): a for a in apps}.values())
    ax = []
    for a in args:
        ax += [EXP(a) > 0, z3.Implies(a <= 0, EXP(a) <= 1), z3.Implies(a == 0, EXP(a) == 1), z3.Implies(a < 0, EXP(a) < 1),
               z3.Implies(a > 0, EXP(a) > 1)]
    if pairwise:
        for a, b in itertools.combinations(args, 2):
            ax += [z3.Implies(a < b, EXP(a) < EXP(b)), z3.Implies(b < a, EXP(b) < EXP(a))]
    return ax


# ------------------------------------------------------------------ XF
class XF:
    __slots__ = ("nan", "pinf", "ninf", "v")
    # no __array_priority__/__array_ufunc__: numpy loops element-wise over object arrays and calls the scalar operators

    def __init__(self, v, nan=False, pinf=False, ninf=False):
        self.v = v
        self.nan = nan
        self.pinf = pinf
        self.ninf = ninf

    # -- construction
    @staticmethod
    def of(x):
        if isinstance(x, XF):
            return x
        if isinstance(x, SB):
            return XF(RIte(x.b, Fraction(1), Fraction(0)))
        if isinstance(x, SI):
            return XF(R(x.t) if isz(x.t) else Fraction(x.t))
        if isz(x):
            if z3.is_bool(x):
                return XF(RIte(x, Fraction(1), Fraction(0)))
            return XF(R(x))
        if isinstance(x, Fraction):
            return XF(x)
        if isinstance(x, bool):
            return XF(Fraction(int(x)))
        if isinstance(x, int):
            return XF(Fraction(x))
        x = float(x)
        if x != x:
            return XF(Fraction(0), nan=True)
        if x == math.inf:
            return XF(Fraction(0), pinf=True)
        if x == -math.inf:
            return XF(Fraction(0), ninf=True)
        return XF(Fraction(x))

    @staticmethod
    def var(name, may_nan=False, may_inf=False):
        return XF(z3.Real(name), z3.Bool(name + "#nan") if may_nan else False,
                  z3.Bool(name + "#pinf") if may_inf else False, z3.Bool(name + "#ninf") if may_inf else False)

    def is_const(self):
        return not (isz(self.v) or isz(self.nan) or isz(self.pinf) or isz(self.ninf))

    def to_float(self):
        assert self.is_const()
        if self.nan:
            return math.nan
        if self.pinf:
            return math.inf
        if self.ninf:
            return -math.inf
        return float(self.v)

    def __repr__(self):
        if self.is_const():
            return f"XF({self.to_float()})"
        return f"XF(v={self.v}, nan={self.nan}, pinf={self.pinf}, ninf={self.ninf})"

    # -- predicates (raw terms)
    def fin(self):
        return And(Not(self.nan), Not(self.pinf), Not(self.ninf))

    def inf(self):
        return Or(self.pinf, self.ninf)

    def is_zero(self):
        return And(self.fin(), rcmp("==", self.v, 0))

    def is_neg(self):  # strictly negative (incl. -inf)
        return Or(self.ninf, And(self.fin(), rcmp("<", self.v, 0)))

    def is_pos(self):
        return Or(self.pinf, And(self.fin(), rcmp(">", self.v, 0)))

    # -- python operators (numpy object arrays call these; torch tensors reach the reflected forms)
    def __add__(s, o):
        if _is_nd(o):
            return NotImplemented
        if _is_tensor(o):
            return _tensor_op("+", s, o)
        return xadd(s, XF.of(o))

    def __radd__(s, o):
        if _is_nd(o):
            return NotImplemented
        if _is_tensor(o):
            return _tensor_op("+", o, s)
        return xadd(XF.of(o), s)

    def __sub__(s, o):
        if _is_nd(o):
            return NotImplemented
        if _is_tensor(o):
            return _tensor_op("-", s, o)
        return xsub(s, XF.of(o))

    def __rsub__(s, o):
        if _is_nd(o):
            return NotImplemented
        if _is_tensor(o):
            return _tensor_op("-", o, s)
        return xsub(XF.of(o), s)

    def __mul__(s, o):
        if _is_nd(o):
            return NotImplemented
        if _is_tensor(o):
            return _tensor_op("*", s, o)
        return xmul(s, XF.of(o))

    def __rmul__(s, o):
        if _is_nd(o):
            return NotImplemented
        if _is_tensor(o):
            return _tensor_op("*", o, s)
        return xmul(XF.of(o), s)

    def __truediv__(s, o):
        if _is_nd(o):
            return NotImplemented
        if _is_tensor(o):
            return _tensor_op("/", s, o)
        return xdiv(s, XF.of(o))

    def __rtruediv__(s, o):
        if _is_nd(o):
            return NotImplemented
        if _is_tensor(o):
            return _tensor_op("/", o, s)
        return xdiv(XF.of(o), s)

    def __neg__(s):
        return xneg(s)

    def __pos__(s):
        return s

    def __abs__(s):
        return xabs(s)

    def __pow__(s, p):
        return xpow(s, p)

    def __lt__(s, o):
        if _is_nd(o):
            return NotImplemented
        if _is_tensor(o):
            return _tensor_op("<", s, o)
        return SB(xcmp("<", s, XF.of(o)))

    def __le__(s, o):
        if _is_nd(o):
            return NotImplemented
        if _is_tensor(o):
            return _tensor_op("<=", s, o)
        return SB(xcmp("<=", s, XF.of(o)))

    def __gt__(s, o):
        if _is_nd(o):
            return NotImplemented
        if _is_tensor(o):
            return _tensor_op(">", s, o)
        return SB(xcmp(">", s, XF.of(o)))

    def __ge__(s, o):
        if _is_nd(o):
            return NotImplemented
        if _is_tensor(o):
            return _tensor_op(">=", s, o)
        return SB(xcmp(">=", s, XF.of(o)))

    def __eq__(s, o):
        if _is_nd(o):
            return NotImplemented
        if _is_tensor(o):
            return _tensor_op("==", s, o)
        try:
            o = XF.of(o)
        except Exception:
            return NotImplemented
        return SB(xcmp("==", s, o))

    def __ne__(s, o):
        if _is_nd(o):
            return NotImplemented
        try:
            o = XF.of(o)
        except Exception:
            return NotImplemented
        return SB(xcmp("!=", s, o))

    __hash__ = None

    def __bool__(s):
        return bool(SB(Or(s.nan, s.pinf, s.ninf, rcmp("!=", s.v, 0))))

    def __float__(s):
        if s.is_const():
            return s.to_float()
        raise EngineGap("float() on a symbolic value")

    def __int__(s):
        if s.is_const():
            return int(s.to_float())
        raise EngineGap("int() on a symbolic value")

    def __round__(s, nd=None):
        return xround(s)

    # numpy ufunc-style methods looked up on object elements
    def exp(s):
        return xexp(s)

    def sqrt(s):
        return xsqrt(s)

    def isnan(s):
        return SB(s.nan)

    def conjugate(s):
        return s


def _is_tensor(o):
    return type(o).__module__.startswith("torch") or type(o).__name__ == "SymTensor"


def _is_nd(o):
    return type(o).__module__ == "numpy" and hasattr(o, "ndim") and hasattr(o, "reshape") or type(o).__name__ == "SymNd"


def _tensor_op(op, a, b):
    from . import torchfe
    return torchfe.scalar_tensor_op(op, a, b)


class EngineGap(Exception):
    """The engine cannot model an operation that was reached with symbolic input: the run is inconclusive."""


class Infeasible(BaseException):
    """Current path has become infeasible (raised by the explorer; never caught by code under test)."""


def _cf(a):
    """fork mode: make the special-value flags of ``a`` concrete on this path."""
    if not CTX.fork_specials or not (isz(a.nan) or isz(a.pinf) or isz(a.ninf)):
        return a
    ex = CTX.explorer
    if ex.decide(a.nan):
        return XF(Fraction(0), nan=True)
    if ex.decide(a.pinf):
        return XF(Fraction(0), pinf=True)
    if ex.decide(a.ninf):
        return XF(Fraction(0), ninf=True)
    return XF(a.v)


def xadd(a, b):
    a, b = _cf(a), _cf(b)
    nan = Or(a.nan, b.nan, And(a.pinf, b.ninf), And(a.ninf, b.pinf))
    return XF(radd(a.v, b.v), nan, And(Not(nan), Or(a.pinf, b.pinf)), And(Not(nan), Or(a.ninf, b.ninf)))


def xneg(a):
    return XF(rneg(a.v), a.nan, a.ninf, a.pinf)


def xsub(a, b):
    return xadd(a, xneg(b))


def xmul(a, b):
    a, b = _cf(a), _cf(b)
    if a.inf() is False and b.inf() is False:
        return XF(rmul(a.v, b.v), Or(a.nan, b.nan))
    anyinf = Or(a.inf(), b.inf())
    nan = Or(a.nan, b.nan, And(a.inf(), b.is_zero()), And(b.inf(), a.is_zero()))
    neg = Xor(a.is_neg(), b.is_neg())
    return XF(rmul(a.v, b.v), nan, And(Not(nan), anyinf, Not(neg)), And(Not(nan), anyinf, neg))


def xdiv(a, b):
    a, b = _cf(a), _cf(b)
    if CTX.fork_specials and not b.nan and not a.nan and not b.pinf and not b.ninf and isz(b.v):
        ex = CTX.explorer
        if ex.decide(rcmp("==", b.v, 0)):
            if a.pinf or a.ninf:
                return XF(Fraction(0), pinf=bool(a.pinf), ninf=bool(a.ninf))
            if ex.decide(rcmp("==", a.v, 0)):
                return XF(Fraction(0), nan=True)
            neg = ex.decide(rcmp("<", a.v, 0))
            return XF(Fraction(0), pinf=not neg, ninf=neg)
        if a.pinf or a.ninf:
            neg = ex.decide(rcmp("<", b.v, 0))
            pos = bool(a.pinf) != neg
            return XF(Fraction(0), pinf=pos, ninf=not pos)
        return XF(rdiv(a.v, b.v))
    bzero = b.is_zero()
    if rcmp("==", b.v, 0) is False and a.inf() is False and b.inf() is False:
        return XF(rdiv(a.v, b.v), Or(a.nan, b.nan))
    azero = a.is_zero()
    nan = Or(a.nan, b.nan, And(bzero, azero), And(a.inf(), b.inf()))
    neg = Xor(a.is_neg(), b.is_neg())  # sign of zero ignored: +0 assumed
    isinf = And(Not(nan), Or(a.inf(), And(bzero, Not(azero))))
    safe_b = RIte(Or(bzero, b.inf(), b.nan), Fraction(1), b.v)
    q = rdiv(a.v, safe_b)
    q = RIte(b.inf(), Fraction(0), q)
    return XF(q, nan, And(isinf, Not(neg)), And(isinf, neg))


def xabs(a):
    a = _cf(a)
    return XF(RIte(rcmp("<", a.v, 0), rneg(a.v), a.v), a.nan, Or(a.pinf, a.ninf), False)


def xcmp(op, a, b):
    """IEEE comparison as a raw bool term (NaN unordered; != true on NaN)."""
    nn = And(Not(a.nan), Not(b.nan))
    if a.inf() is False and b.inf() is False:
        if op == "!=":
            return Or(Not(nn), rcmp("!=", a.v, b.v))
        return And(nn, rcmp(op, a.v, b.v))
    bothfin = And(a.fin(), b.fin())
    lt = Or(And(a.ninf, Not(b.ninf)), And(b.pinf, Not(a.pinf)), And(bothfin, rcmp("<", a.v, b.v)))
    eq = Or(And(a.pinf, b.pinf), And(a.ninf, b.ninf), And(bothfin, rcmp("==", a.v, b.v)))
    if op == "<":
        return And(nn, lt)
    if op == "<=":
        return And(nn, Or(lt, eq))
    if op == ">":
        return And(nn, Not(lt), Not(eq))
    if op == ">=":
        return And(nn, Not(lt))
    if op == "==":
        return And(nn, eq)
    if op == "!=":
        return Or(Not(nn), Not(eq))
    raise KeyError(op)


def xite(c, a, b):
    if not isz(c):
        return a if c else b
    return XF(RIte(c, a.v, b.v), BIte(c, a.nan, b.nan), BIte(c, a.pinf, b.pinf), BIte(c, a.ninf, b.ninf))


def xmax(a, b, propagate_nan=True):
    """torch.maximum / np.maximum: NaN if either is NaN."""
    a, b = _cf(a), _cf(b)
    take_a = xcmp(">=", a, b)
    r = xite(take_a, a, b)
    if propagate_nan:
        return XF(r.v, Or(a.nan, b.nan), And(Not(Or(a.nan, b.nan)), r.pinf), And(Not(Or(a.nan, b.nan)), r.ninf))
    return r


def xmin(a, b):
    a, b = _cf(a), _cf(b)
    take_a = xcmp("<=", a, b)
    r = xite(take_a, a, b)
    return XF(r.v, Or(a.nan, b.nan), And(Not(Or(a.nan, b.nan)), r.pinf), And(Not(Or(a.nan, b.nan)), r.ninf))


def xclamp(a, lo=None, hi=None):
    r = _cf(a)
    if lo is not None:
        lo = XF.of(lo)
        r = xite(And(Not(r.nan), xcmp("<", r, lo)), lo, r)
    if hi is not None:
        hi = XF.of(hi)
        r = xite(And(Not(r.nan), xcmp(">", r, hi)), hi, r)
    return r


def xnan_to_num(a, nan=0.0, posinf=None, neginf=None):
    nanv = XF.of(0.0 if nan is None else nan)
    pv = XF.of(FLT_MAX if posinf is None else posinf)
    nv = XF.of(-FLT_MAX if neginf is None else neginf)
    r = XF(a.v)
    r = xite(a.ninf, nv, r)
    r = xite(a.pinf, pv, r)
    r = xite(a.nan, nanv, r)
    return r


def xexp(a):
    a = _cf(a)
    if a.is_const():
        f = a.to_float()
        if f == 0:
            return XF(Fraction(1))
        try:
            e = math.exp(f)
        except OverflowError:
            e = math.inf
        return XF.of(e)
    if not isz(a.v):
        arg = Q(a.v)
    else:
        arg = a.v
    if CTX.exp_mode == "fresh":
        hit = CTX.memo.get(("exp", arg.get_id()))
        if hit is not None:
            w = hit[1]
        else:
            w = CTX.fresh_real("exp")
            CTX.memo[("exp", arg.get_id())] = (arg, w)
            CTX.side(w > 0, z3.Implies(arg <= 0, w <= 1), z3.Implies(arg >= 0, w >= 1))
        e = w
    else:
        CTX.exp_apps.append(arg)
        e = EXP(arg)
    return XF(RIte(a.ninf, Fraction(0), e), a.nan, a.pinf, False)


def xsqrt(a):
    a = _cf(a)
    if CTX.fork_specials and a.fin() is True and isz(a.v):
        if CTX.explorer.decide(rcmp("<", a.v, 0)):
            return XF(Fraction(0), nan=True)
    if a.is_const():
        f = a.to_float()
        if f != f or f < 0:
            return XF.of(math.nan)
        r = math.sqrt(f)
        return XF.of(r)
    neg = And(a.fin(), rcmp("<", a.v, 0))
    av = R(a.v)
    hit = CTX.memo.get(("sqrt", av.get_id()))
    if hit is not None:
        r = hit[1]
    else:
        r = CTX.fresh_real("sqrt")
        CTX.memo[("sqrt", av.get_id())] = (av, r)
        FRESH_DEFS[r.decl().name()] = ("sqrt", av)
        CTX.side(r >= 0, z3.Implies(zb(Not(neg)), r * r == av))
    return XF(r, Or(a.nan, a.ninf, neg), a.pinf, False)


def xpow(a, p):
    if isinstance(p, XF):
        if not p.is_const():
            raise EngineGap("pow with symbolic exponent")
        p = p.to_float()
    if p == 2:
        return xmul(a, a)
    if p == 1:
        return a
    if p == 0.5:
        return xsqrt(a)
    if p == 0:
        return XF(Fraction(1))
    if float(p).is_integer() and 0 < p <= 8:
        r = a
        for _ in range(int(p) - 1):
            r = xmul(r, a)
        return r
    if p == -1:
        return xdiv(XF(Fraction(1)), a)
    raise EngineGap(f"pow exponent {p}")


def r_floor(t):
    """floor of a real term/number as an Int term/number."""
    if _isnum(t):
        return math.floor(Fraction(t))
    return z3.ToInt(t)


def r_round_half_even(t):
    if _isnum(t):
        return int(round(Fraction(t)))  # python rounds Fractions half-to-even
    f = z3.ToInt(t)
    fr = t - z3.ToReal(f)
    return z3.If(fr < Q(Fraction(1, 2)), f, z3.If(fr > Q(Fraction(1, 2)), f + 1, z3.If(f % 2 == 0, f, f + 1)))


def r_trunc(t):
    if _isnum(t):
        return int(Fraction(t))
    return z3.If(t >= 0, z3.ToInt(t), -z3.ToInt(-t))


def r_ceil(t):
    if _isnum(t):
        return math.ceil(Fraction(t))
    return -z3.ToInt(-t)


def _xint_op(a, f):
    i = f(a.v)
    return XF(R(i) if isz(i) else Fraction(i), a.nan, a.pinf, a.ninf)


def xround(a):
    return _xint_op(a, r_round_half_even)


def xfloor(a):
    return _xint_op(a, r_floor)


def xceil(a):
    return _xint_op(a, r_ceil)


def xtrunc(a):
    return _xint_op(a, r_trunc)


def xeq_term(a, b):
    """'same float' (NaN equals NaN) as a raw bool term: used by equivalence obligations."""
    return Or(And(a.nan, b.nan), And(a.pinf, b.pinf), And(a.ninf, b.ninf), And(a.fin(), b.fin(), rcmp("==", a.v, b.v)))


# ------------------------------------------------------------------ SB / SI wrappers for numpy object arrays and Python code
class SB:
    """symbolic bool; ``bool()`` forks through the explorer."""
    __slots__ = ("b",)
    __array_priority__ = 1000

    def __init__(self, b):
        self.b = b.b if isinstance(b, SB) else b

    @staticmethod
    def raw(x):
        if isinstance(x, SB):
            return x.b
        if isz(x):
            return x
        return bool(x)

    def __invert__(s):
        return SB(Not(s.b))

    def __and__(s, o):
        return SB(And(s.b, SB.raw(o)))

    def __or__(s, o):
        return SB(Or(s.b, SB.raw(o)))

    def __xor__(s, o):
        return SB(Xor(s.b, SB.raw(o)))

    __rand__ = __and__
    __ror__ = __or__
    __rxor__ = __xor__

    def __eq__(s, o):
        return SB(Not(Xor(s.b, SB.raw(o))))

    def __ne__(s, o):
        return SB(Xor(s.b, SB.raw(o)))

    __hash__ = None

    def __bool__(s):
        if not isz(s.b):
            return bool(s.b)
        return CTX.explorer.decide(s.b)

    def __repr__(s):
        return f"SB({s.b})"

    # arithmetic on bools (sum of masks etc.)
    def _xf(s):
        return XF.of(s)

    def __add__(s, o):
        return SI.of(s) + o

    __radd__ = __add__

    def __mul__(s, o):
        if isinstance(o, XF):
            return XF.of(s) * o
        return SI.of(s) * o

    __rmul__ = __mul__

    def __index__(s):
        return int(bool(s))

    def __int__(s):
        return int(bool(s))

    def __float__(s):
        return float(bool(s))


class SI:
    """symbolic mathematical integer wrapper (python operators; comparisons give SB)."""
    __slots__ = ("t",)
    __array_priority__ = 1000

    def __init__(self, t):
        self.t = t

    @staticmethod
    def of(x):
        if isinstance(x, SI):
            return x
        if isinstance(x, SB):
            return SI(IIte(x.b, 1, 0))
        if isz(x):
            return SI(x)
        return SI(int(x))

    def _b(s, o, f, rf):
        if isinstance(o, XF):
            return rf(XF.of(s), o)
        if isinstance(o, (float, Fraction)) and not float(o).is_integer():
            return rf(XF.of(s), XF.of(o))
        return SI(f(s.t, SI.of(o).t))

    def __add__(s, o):
        return s._b(o, iadd, xadd)

    __radd__ = __add__

    def __sub__(s, o):
        return s._b(o, isub, xsub)

    def __rsub__(s, o):
        return SI.of(o) - s if not isinstance(o, (XF, float, Fraction)) else XF.of(o) - XF.of(s)

    def __mul__(s, o):
        return s._b(o, imul, xmul)

    __rmul__ = __mul__

    def __floordiv__(s, o):
        return SI(ifloordiv(s.t, SI.of(o).t))

    def __mod__(s, o):
        return SI(imod(s.t, SI.of(o).t))

    def __truediv__(s, o):
        return XF.of(s) / XF.of(o)

    def __rtruediv__(s, o):
        return XF.of(o) / XF.of(s)

    def __neg__(s):
        return SI(isub(0, s.t))

    def _c(s, o, op):
        if isinstance(o, (XF, float, Fraction)):
            return SB(xcmp(op, XF.of(s), XF.of(o)))
        return SB(icmp(op, s.t, SI.of(o).t))

    def __lt__(s, o):
        return s._c(o, "<")

    def __le__(s, o):
        return s._c(o, "<=")

    def __gt__(s, o):
        return s._c(o, ">")

    def __ge__(s, o):
        return s._c(o, ">=")

    def __eq__(s, o):
        return s._c(o, "==")

    def __ne__(s, o):
        return s._c(o, "!=")

    __hash__ = None

    def __index__(s):
        if not isz(s.t):
            return int(s.t)
        return CTX.explorer.concretize_int(s.t)

    __int__ = __index__

    def __bool__(s):
        return bool(SB(icmp("!=", s.t, 0)))

    def __float__(s):
        return float(s.__index__())

    def __repr__(s):
        return f"SI({s.t})"


# ------------------------------------------------------------------ evaluation of terms under a concrete environment
def eval_term(t, env, _memo=None):
    """Evaluate a z3 term (Bool/Int/Real with EXP) to a python value given env: {var name -> python value}.

    Used for differential validation of handlers and for turning models into concrete inputs.  Real
    values are floats here (this is a *testing* aid, not part of a verdict)."""
    if not isz(t):
        return t
    memo = {} if _memo is None else _memo
    stack = [t]
    while stack:
        e = stack[-1]
        k = e.get_id()
        if k in memo:
            stack.pop()
            continue
        ch = e.children()
        todo = [c for c in ch if c.get_id() not in memo]
        if todo:
            stack.extend(todo)
            continue
        stack.pop()
        a = [memo[c.get_id()] for c in ch]
        memo[k] = _eval_node(e, a, env)
    return memo[t.get_id()]


def _eval_node(e, a, env):
    d = e.decl()
    kind = d.kind()
    K = z3
    if z3.is_rational_value(e):
        return Fraction(e.numerator_as_long(), e.denominator_as_long())
    if z3.is_int_value(e):
        return e.as_long()
    if kind == K.Z3_OP_TRUE:
        return True
    if kind == K.Z3_OP_FALSE:
        return False
    if kind == K.Z3_OP_UNINTERPRETED:
        if len(a) == 0:
            name = d.name()
            try:
                if name in env or not name.split("!")[0] in ("sqrt", "exp"):
                    return env[name]
            except KeyError:
                pass
            if name in FRESH_DEFS and FRESH_DEFS[name][0] == "sqrt":
                v = eval_term(FRESH_DEFS[name][1], env)
                return Fraction(math.sqrt(max(0.0, float(v))))
            raise KeyError(name)
        if d.name() == "EXP":
            try:
                return Fraction(math.exp(float(a[0])))
            except OverflowError:
                return Fraction(10) ** 300
        raise EngineGap(f"eval: uninterpreted {d.name()}")
    if kind == K.Z3_OP_ADD:
        return sum(a[1:], a[0])
    if kind == K.Z3_OP_SUB:
        r = a[0]
        for x in a[1:]:
            r = r - x
        return r
    if kind == K.Z3_OP_UMINUS:
        return -a[0]
    if kind == K.Z3_OP_MUL:
        r = a[0]
        for x in a[1:]:
            r = r * x
        return r
    if kind == K.Z3_OP_DIV:
        return Fraction(a[0]) / Fraction(a[1]) if a[1] != 0 else Fraction(0)
    if kind == K.Z3_OP_IDIV:
        return a[0] // a[1] if a[1] > 0 else -(a[0] // -a[1]) if a[1] < 0 else 0
    if kind == K.Z3_OP_MOD:
        return a[0] % abs(a[1]) if a[1] != 0 else 0
    if kind == K.Z3_OP_TO_REAL:
        return Fraction(a[0])
    if kind == K.Z3_OP_TO_INT:
        return math.floor(a[0])
    if kind == K.Z3_OP_ITE:
        return a[1] if a[0] else a[2]
    if kind == K.Z3_OP_AND:
        return all(a)
    if kind == K.Z3_OP_OR:
        return any(a)
    if kind == K.Z3_OP_NOT:
        return not a[0]
    if kind == K.Z3_OP_IMPLIES:
        return (not a[0]) or a[1]
    if kind == K.Z3_OP_XOR:
        return bool(a[0]) != bool(a[1])
    if kind in (K.Z3_OP_EQ, K.Z3_OP_IFF):
        return a[0] == a[1]
    if kind == K.Z3_OP_DISTINCT:
        return len(set(a)) == len(a)
    if kind == K.Z3_OP_LE:
        return a[0] <= a[1]
    if kind == K.Z3_OP_LT:
        return a[0] < a[1]
    if kind == K.Z3_OP_GE:
        return a[0] >= a[1]
    if kind == K.Z3_OP_GT:
        return a[0] > a[1]
    raise EngineGap(f"eval: unsupported z3 op {d.name()} kind={kind}")


def eval_xf(x, env, memo=None):
    """XF (or raw term) -> python float under env."""
    memo = {} if memo is None else memo
    if isinstance(x, XF):
        if eval_term(x.nan, env, memo):
            return math.nan
        if eval_term(x.pinf, env, memo):
            return math.inf
        if eval_term(x.ninf, env, memo):
            return -math.inf
        return float(eval_term(x.v, env, memo))
    if isinstance(x, SB):
        return bool(eval_term(x.b, env, memo))
    if isinstance(x, SI):
        return int(eval_term(x.t, env, memo))
    r = eval_term(x, env, memo)
    return r


def term_vars(t, cache):
    """set of uninterpreted constant names in term t.  The cache is keyed by AST id and keeps the term alive
    (z3 recycles AST ids of collected terms, so an id is only meaningful while its term is referenced)."""
    if not isz(t):
        return frozenset()
    k = t.get_id()
    hit = cache.get(k)
    if hit is not None:
        return hit[1]
    out = set()
    seen = set()
    stack = [t]
    while stack:
        e = stack.pop()
        i = e.get_id()
        if i in seen:
            continue
        seen.add(i)
        hit = cache.get(i)
        if hit is not None:
            out |= hit[1]
            continue
        if e.decl().kind() == z3.Z3_OP_UNINTERPRETED:
            if e.num_args() == 0:
                out.add(e.decl().name())
            else:
                out.add(e.decl().name() + "()")
                stack.extend(e.children())
        else:
            stack.extend(e.children())
    r = frozenset(out)
    cache[k] = (t, r)
    return r
