"""Ideal-map oracle networks (DESIGN 1.4): stand-ins for the trained network that return the training-target
confidence maps for the image they are given, as *constraints*: per channel, fresh reals v[i,j] in (tau, 1] with
v[i,j] > v[k,l]  <=>  d2(i,j) < d2(k,l)  (equal at equal distance).  d2 differences between grid cells are LINEAR in
the keypoint, so these are linear constraints: exactly 'a Gaussian bump on the stride grid' up to the shape of the
decreasing profile, which peak location does not depend on."""
from __future__ import annotations
import itertools
from fractions import Fraction
import z3
from . import xf
from .xf import XF, CTX


def ideal_channel(tag, px, py, gh, gw, stride, vis, tau=Fraction(3, 10), general_position=False):
    """-> (list of XF cell values row-major, list of constraints).  (px,py): keypoint in network-input coordinates (z3 Real terms
    or numbers); vis: z3 Bool / bool."""
    cells = []
    vals = []
    cons = []
    visb = xf.zb(vis)
    for i in range(gh):
        for j in range(gw):
            v = z3.Real(f"{tag}_{i}_{j}")
            cells.append((v, i, j))
            vals.append(XF(v))
            cons.append(z3.If(visb, z3.And(v > xf.Q(tau), v <= 1), v == 0))
    pxr, pyr = xf.R(px), xf.R(py)
    for (v, i, j), (w, k, l) in itertools.combinations(cells, 2):
        diff = ((j * stride) ** 2 - (l * stride) ** 2) - 2 * pxr * (j * stride - l * stride) + ((i * stride) ** 2 - (k * stride) ** 2) - 2 * pyr * (i * stride - k * stride)
        cons.append(z3.Implies(visb, z3.And(z3.Implies(diff < 0, v > w), z3.Implies(diff > 0, v < w), z3.Implies(diff == 0, v == w))))
        if general_position:  # the keypoint is not equidistant from two grid cells (the property's "general position")
            cons.append(z3.Implies(visb, diff != 0))
    return vals, cons


def add_constraints(cons):
    ex = CTX.explorer
    for c in cons:
        ex.add_side(c)


def ramp_image(H, W):
    """concrete single-channel image whose pixels encode their own (x, y): value = (x+1)/1024 + (y+1)/16."""
    import torch
    y, x = torch.meshgrid(torch.arange(H, dtype=torch.float32), torch.arange(W, dtype=torch.float32), indexing="ij")
    return ((x + 1) / 1024.0 + (y + 1) / 16.0).reshape(1, 1, H, W)


def recover_geometry(img):
    """from a (concrete) ramp image as given to the network: (fx, fy) = content scale (network-input pixels per original pixel)."""
    a = img.reshape(img.shape[-2], img.shape[-1])
    rows = (a.abs().sum(dim=1) > 0).nonzero()
    cols = (a.abs().sum(dim=0) > 0).nonzero()
    vr, vc = int(rows.max()) + 1, int(cols.max()) + 1
    ih, iw = max(vr // 2 - 1, 0), max(vc // 2 - 1, 0)
    dx = float(a[ih, iw + 1] - a[ih, iw]) * 1024.0
    dy = float(a[ih + 1, iw] - a[ih, iw]) * 16.0
    return 1.0 / dx, 1.0 / dy, vr, vc
