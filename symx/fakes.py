"""Duck-typed stand-ins for sleap_io objects (the installed sleap_io API differs from the one the repo targets, and
real objects cannot carry symbolic keypoints) + the module-attribute shims the dataset code needs."""
from __future__ import annotations
import numpy as np


class FInst:
    def __init__(self, pts, user=True, tag=None):
        self.pts = pts  # (nodes, 2) float array or SymNd
        self.user = user
        self.tag = tag

    def numpy(self):
        return self.pts.copy()

    @property
    def is_empty(self):
        from symx.numpyfe import NP
        return bool(NP.isnan(self.pts).all()) if self.pts.dtype == object else bool(np.isnan(self.pts).all())


class FVideo:
    def __init__(self, n, H, W, C=1, name="mem"):
        self.shape = (n, H, W, C)
        self.filename = name
        self.closed = 0

    def close(self):
        self.closed += 1


class FLF:
    def __init__(self, video, idx, insts, img):
        self.video, self.frame_idx, self.instances, self.image = video, idx, list(insts), img
        self._all = list(insts)

    @property
    def user_instances(self):
        return [i for i in self._all if i.user]

    def __iter__(self):
        return iter(self.instances)

    def __len__(self):
        return len(self.instances)


class FSkel:
    def __init__(self, edge_inds, n_nodes):
        self.edge_inds = edge_inds
        self.node_names = [f"n{i}" for i in range(n_nodes)]


class FLabels:
    def __init__(self, lfs, videos, edge_inds=((0, 1),), n_nodes=2):
        self.lfs, self.videos = lfs, videos
        self.skeletons = [FSkel(list(edge_inds), n_nodes)]

    def __iter__(self):
        return iter(self.lfs)

    def __getitem__(self, i):
        return self.lfs[i]

    def __len__(self):
        return len(self.lfs)


def ramp_image(H, W, C=1, seed=0):
    """concrete uint8 image with distinct, smoothly varying content."""
    yy, xx = np.mgrid[0:H, 0:W]
    img = ((xx * 7 + yy * 13 + seed * 31) % 200 + 20).astype(np.uint8)
    return np.repeat(img[..., None], C, axis=2)


def install_dataset_shims(geometry_only_crops=True):
    """np / torch proxies and the crop stub in the data modules (idempotent)."""
    import sleap_nn.data.providers as prov
    import sleap_nn.data.custom_datasets as cd
    import sleap_nn.data.instance_cropping as ic
    from symx import numpyfe, torchfe, stubs
    torchfe.install_patches()
    for m in (prov, cd, ic):
        m.np = numpyfe.NP
        m.torch = torchfe.TORCH_PROXY
    crop = stubs.crop_and_resize_geometry if geometry_only_crops else stubs.crop_and_resize_model
    ic.crop_and_resize = crop
    cd.crop_and_resize = crop

    class _L:
        def __getattr__(self, k):
            return lambda *a, **kw: None
    for m in (prov, cd):
        m.logger = _L()
    return prov, cd, ic
