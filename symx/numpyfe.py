"""Symbolic numpy front end: object-dtype arrays whose elements are XF / SB / SI scalars.

Real numpy does all broadcasting, reshaping, indexing, views and aliasing and calls the scalar operators per
element.  Analysed modules get the proxy module ``NP`` as their ``np``: attributes fall through to real
numpy except the override set below (functions numpy implements in C for numeric dtypes only).
"""
from __future__ import annotations
import functools, math, types, itertools
from fractions import Fraction
import numpy as real_np
import z3
from . import xf
from .xf import (XF, SB, SI, isz, And, Or, Not, RIte, BIte, IIte, EngineGap, CTX, xadd, xmul, xdiv, xcmp, xite, xsqrt, xexp, xabs)

OVERRIDES_USED = set()


def is_obj(a):
    return isinstance(a, real_np.ndarray) and a.dtype == object


def _has_sym(seq):
    for x in seq:
        if isinstance(x, (XF, SB, SI)):
            return True
        if isinstance(x, real_np.ndarray) and x.dtype == object:
            return True
        if isinstance(x, (list, tuple)) and _has_sym(x):
            return True
    return False


class SymNd(real_np.ndarray):
    """object ndarray with symbolic-mask aware indexing and astype."""

    def _conc_key(self, key):
        def c(k):
            if isinstance(k, real_np.ndarray) and k.dtype == object:
                flat = list(k.reshape(-1))
                if all(isinstance(e, (SB, bool, real_np.bool_)) for e in flat):
                    pat = CTX.explorer.decide_pattern([e.b if isinstance(e, SB) else bool(e) for e in flat])
                    return real_np.array(pat, dtype=bool).reshape(k.shape)
                return real_np.array([int(e) for e in flat], dtype=int).reshape(k.shape)
            if isinstance(k, SB):
                return bool(k)
            if isinstance(k, SI):
                return int(k)
            return k
        if isinstance(key, tuple):
            return tuple(c(k) for k in key)
        return c(key)

    def __getitem__(self, key):
        return super().__getitem__(self._conc_key(key))

    def __setitem__(self, key, val):
        if isinstance(val, (int, float)) and not isinstance(val, bool) and self.dtype == object:
            val = XF.of(val)
        return super().__setitem__(self._conc_key(key), val)

    def astype(self, dt, *a, **k):
        if self.dtype == object:
            d = real_np.dtype(dt) if not isinstance(dt, str) or dt != "O" else real_np.dtype(object)
            if d.kind == "f":
                return _map(lambda x: XF.of(x), self)
            if d.kind == "b":
                return _map(lambda x: x if isinstance(x, SB) else SB(bool(x)) if not isinstance(x, XF) else (x != 0), self)
            if d.kind in "iu":
                flat = list(self.reshape(-1))
                if all(isinstance(e, (int, real_np.integer)) for e in flat):
                    return real_np.array([int(e) for e in flat], dtype=d).reshape(self.shape)
                return _map(lambda x: SI.of(x) if not isinstance(x, XF) else SI(xf.r_trunc(x.v)), self)
            if d == real_np.dtype(object):
                return self.copy()
        return super().astype(dt, *a, **k)

    # reductions as methods (plain dtypes: real numpy on a base-class view)
    def _plain(self):
        return self.view(real_np.ndarray)

    def any(self, axis=None, keepdims=False, **k):
        if self.dtype != object:
            return self._plain().any(axis=axis, keepdims=keepdims, **k)
        return any_(self, axis=axis, keepdims=keepdims)

    def all(self, axis=None, keepdims=False, **k):
        if self.dtype != object:
            return self._plain().all(axis=axis, keepdims=keepdims, **k)
        return all_(self, axis=axis, keepdims=keepdims)

    def sum(self, axis=None, keepdims=False, **k):
        if self.dtype != object:
            return self._plain().sum(axis=axis, keepdims=keepdims, **k)
        return sum_(self, axis=axis, keepdims=keepdims)

    def mean(self, axis=None, keepdims=False, **k):
        if self.dtype != object:
            return self._plain().mean(axis=axis, keepdims=keepdims, **k)
        return mean_(self, axis=axis, keepdims=keepdims)

    def max(self, axis=None, keepdims=False, **k):
        if self.dtype != object:
            return self._plain().max(axis=axis, keepdims=keepdims, **k)
        return _reduce(self, axis, _ext(True, False), keepdims)

    def min(self, axis=None, keepdims=False, **k):
        if self.dtype != object:
            return self._plain().min(axis=axis, keepdims=keepdims, **k)
        return _reduce(self, axis, _ext(False, False), keepdims)

    def tolist(self):
        return real_np.ndarray.tolist(self)

    def __array_finalize__(self, obj):
        pass


def _view(a):
    if isinstance(a, real_np.ndarray) and a.dtype == object and not isinstance(a, SymNd):
        return a.view(SymNd)
    return a


def _map(f, a):
    out = real_np.empty(a.shape, dtype=object)
    flat = out.reshape(-1)
    for i, x in enumerate(a.reshape(-1)):
        flat[i] = f(x)
    return out.view(SymNd)


def from_terms(vals, shape, tdtype=None):
    """flat list of term values (torch front end representation) -> SymNd."""
    import torch
    a = real_np.empty(len(vals), dtype=object)
    for i, v in enumerate(vals):
        if isinstance(v, XF):
            a[i] = v
        elif tdtype is not None and tdtype == torch.bool:
            a[i] = SB(v) if isz(v) else bool(v)
        elif isz(v):
            a[i] = SB(v) if z3.is_bool(v) else SI(v)
        else:
            a[i] = v
    return a.reshape(shape).view(SymNd)


def to_torch(a, dtype):
    import torch
    from . import torchfe
    flat = list(a.reshape(-1))
    if dtype is None:
        if any(isinstance(e, (XF, float, real_np.floating)) for e in flat):
            dtype = torch.float64 if not any(isinstance(e, XF) for e in flat) else torch.float32
        elif all(isinstance(e, (SB, bool, real_np.bool_)) for e in flat) and flat:
            dtype = torch.bool
        else:
            dtype = torch.int64
    vals = [torchfe.val_of(e if not isinstance(e, (real_np.generic,)) else e.item(), dtype) for e in flat]
    return torchfe.tensor_of(vals, a.shape, dtype)


def sym_array(name, shape, may_nan=False):
    a = real_np.empty(shape, dtype=object)
    for i, idx in enumerate(real_np.ndindex(*a.shape)):
        a[idx] = XF.var(f"{name}_{i}", may_nan=may_nan)
    return a.view(SymNd)


# ------------------------------------------------------------------ reductions
def _reduce(a, axis, f, keepdims=False):
    a = real_np.asarray(a)
    if axis is None:
        r = f(list(a.reshape(-1)))
        if keepdims:
            out = real_np.empty((1,) * a.ndim, dtype=object)
            out[(0,) * a.ndim] = r
            return out.view(SymNd)
        return r
    if isinstance(axis, tuple):
        axes = tuple(ax % a.ndim for ax in axis)
        rest = [d for d in range(a.ndim) if d not in axes]
        m = a.transpose(rest + list(axes)).reshape([a.shape[d] for d in rest] + [-1])
        shp = m.shape[:-1]
    else:
        m = real_np.moveaxis(a, axis, -1)
        shp = m.shape[:-1]
    out = real_np.empty(shp, dtype=object)
    for idx in real_np.ndindex(*shp):
        out[idx] = f(list(m[idx]))
    if keepdims:
        if isinstance(axis, tuple):
            for ax in sorted(axes):
                out = real_np.expand_dims(out, ax)
        else:
            out = real_np.expand_dims(out, axis)
    if out.ndim == 0:
        return out[()]
    return out.view(SymNd)


def _b(x):
    if isinstance(x, SB):
        return x.b
    if isinstance(x, XF):
        return (x != 0).b
    if isinstance(x, SI):
        return (x != 0).b
    return bool(x)


def any_(a, axis=None, keepdims=False, **k):
    if is_obj(a):
        OVERRIDES_USED.add("any")
        return _reduce(a, axis, lambda xs: SB(Or(*[_b(x) for x in xs])), keepdims)
    return real_np.any(a, axis=axis, keepdims=keepdims)


def all_(a, axis=None, keepdims=False, **k):
    if is_obj(a):
        OVERRIDES_USED.add("all")
        return _reduce(a, axis, lambda xs: SB(And(*[_b(x) for x in xs])), keepdims)
    return real_np.all(a, axis=axis, keepdims=keepdims)


def _add(p, q):
    if isinstance(p, XF) or isinstance(q, XF):
        return xadd(XF.of(p), XF.of(q))
    if isinstance(p, (SI, SB)) or isinstance(q, (SI, SB)):
        return SI.of(p) + SI.of(q)
    return p + q


def sum_(a, axis=None, keepdims=False, **k):
    if is_obj(a):
        OVERRIDES_USED.add("sum")
        return _reduce(a, axis, lambda xs: functools.reduce(_add, xs, 0) if xs else 0, keepdims)
    return real_np.sum(a, axis=axis, keepdims=keepdims, **k)


def mean_(a, axis=None, keepdims=False, **k):
    if is_obj(a):
        OVERRIDES_USED.add("mean")
        return _reduce(a, axis, lambda xs: xdiv(XF.of(functools.reduce(_add, xs, 0)), XF.of(len(xs))) if xs else XF.of(math.nan), keepdims)
    return real_np.mean(a, axis=axis, keepdims=keepdims, **k)


def prod_(a, axis=None, keepdims=False, **k):
    if is_obj(a):
        OVERRIDES_USED.add("prod")
        return _reduce(a, axis, lambda xs: functools.reduce(lambda p, q: p * q, xs, 1), keepdims)
    return real_np.prod(a, axis=axis, keepdims=keepdims, **k)


def _ext(ismax, ignore_nan):
    def f(xs):
        if not xs:
            raise ValueError("zero-size array to reduction operation which has no identity")
        best = None
        for x in xs:
            x = XF.of(x)
            if best is None:
                best = x
                continue
            better = xcmp(">" if ismax else "<", x, best)
            if ignore_nan:
                take = Or(best.nan, And(Not(x.nan), better))
            else:  # np.max / np.min propagate NaN
                take = And(Not(best.nan), Or(x.nan, better))
            best = xite(take, x, best)
        return best
    return f


def nanmean(a, axis=None, keepdims=False, **k):
    if isinstance(a, (list, tuple)):
        if _has_sym(a):
            a = array(a)
        else:
            return real_np.nanmean(a, axis=axis, **k)
    if is_obj(a):
        OVERRIDES_USED.add("nanmean")

        def f(xs):
            tot = XF(Fraction(0))
            cnt = XF(Fraction(0))
            for x in xs:
                x = XF.of(x)
                tot = xadd(tot, xite(x.nan, XF(Fraction(0)), x))
                cnt = xadd(cnt, XF(RIte(x.nan, Fraction(0), Fraction(1))))
            return xdiv(tot, cnt)  # 0/0 -> NaN like numpy (which also warns)
        return _reduce(a, axis, f, keepdims)
    return real_np.nanmean(a, axis=axis, keepdims=keepdims, **k)


def _nan_ext(ismax):
    def g(a, axis=None, keepdims=False, **k):
        if isinstance(a, (list, tuple)) and _has_sym(a):
            a = array(a)
        if is_obj(a):
            OVERRIDES_USED.add("nanmax" if ismax else "nanmin")
            return _reduce(a, axis, _ext(ismax, True), keepdims)
        return (real_np.nanmax if ismax else real_np.nanmin)(a, axis=axis, keepdims=keepdims, **k)
    return g


def _plain_ext(ismax):
    def g(a, axis=None, keepdims=False, where=None, initial=None, **k):
        if isinstance(a, (list, tuple)) and _has_sym(a):
            a = array(a)
        if is_obj(a) or (where is not None and is_obj(where)):
            if where is not None:
                if initial is None:
                    raise ValueError("reduction operation 'maximum' does not have an identity, so to use a where mask one has to specify 'initial'")
                a = globals()["where"](where, a, initial)  # masked-out elements do not take part: they are replaced by the initial value
            base = _ext(ismax, False)
            f = base if initial is None else (lambda xs: base(list(xs) + [XF.of(initial)]))
            return _reduce(a, axis, f, keepdims)
        if where is not None:
            k["where"] = where
        if initial is not None:
            k["initial"] = initial
        return (real_np.max if ismax else real_np.min)(a, axis=axis, keepdims=keepdims, **k)
    return g


def nanmedian(a, axis=None, **k):
    if isinstance(a, (list, tuple)) and _has_sym(a):
        a = array(a)
    if is_obj(a):
        OVERRIDES_USED.add("nanmedian")

        def f(xs):
            xs = [XF.of(x) for x in xs]
            keep = [x for x in xs if not bool(SB(x.nan))]  # forks on NaN pattern
            if not keep:
                return XF.of(math.nan)
            order = _sort_list(keep)
            n = len(order)
            if n % 2:
                return order[n // 2]
            return xdiv(xadd(order[n // 2 - 1], order[n // 2]), XF(Fraction(2)))
        return _reduce(a, axis, f)
    return real_np.nanmedian(a, axis=axis, **k)


def _sort_list(xs):
    out = []
    for x in xs:
        j = len(out)
        while j > 0 and bool(SB(xcmp("<", x, out[j - 1]))):
            j -= 1
        out.insert(j, x)
    return out


def _elementwise(name, f, real):
    def g(a, *rest, **k):
        if isinstance(a, (XF, SI, SB)):
            OVERRIDES_USED.add(name)
            return f(a)
        if is_obj(a):
            OVERRIDES_USED.add(name)
            return _map(f, a)
        return real(a, *rest, **k)
    return g


isnan = _elementwise("isnan", lambda x: SB(XF.of(x).nan) if isinstance(x, (XF, SI, SB)) else bool(real_np.isnan(x)), real_np.isnan)
isinf = _elementwise("isinf", lambda x: SB(XF.of(x).inf()), real_np.isinf)
isfinite = _elementwise("isfinite", lambda x: SB(XF.of(x).fin()), real_np.isfinite)
exp = _elementwise("exp", lambda x: xexp(XF.of(x)), real_np.exp)
sqrt = _elementwise("sqrt", lambda x: xsqrt(XF.of(x)), real_np.sqrt)
abs_ = _elementwise("abs", lambda x: xabs(XF.of(x)), real_np.abs)
square = _elementwise("square", lambda x: xmul(XF.of(x), XF.of(x)), real_np.square)


def _xspacing(x):
    """np.spacing in the exact-real model: a fresh positive magnitude between |x|*2^-53 and |x|*2^-52 carrying x's sign (the smallest
    subnormal at 0); NaN/inf arguments give NaN."""
    import z3
    from .xf import R, rcmp, zb
    a = XF.of(x)
    if a.is_const():
        return XF.of(float(real_np.spacing(a.to_float())))
    av = R(a.v)
    hit = CTX.memo.get(("spacing", av.get_id()))
    if hit is not None:
        r = hit[1]
    else:
        r = CTX.fresh_real("spacing")
        CTX.memo[("spacing", av.get_id())] = (av, r)
        lo, hi = Fraction(1, 2 ** 53), Fraction(1, 2 ** 52)
        tiny = Fraction(1, 2 ** 1074)
        CTX.side(z3.If(av == 0, r == z3.Q(tiny.numerator, tiny.denominator),
                       z3.If(av > 0, z3.And(r >= av * z3.Q(lo.numerator, lo.denominator), r <= av * z3.Q(hi.numerator, hi.denominator), r > 0),
                             z3.And(r <= av * z3.Q(lo.numerator, lo.denominator), r >= av * z3.Q(hi.numerator, hi.denominator), r < 0))))
    return XF(r, Or(a.nan, a.inf()), False, False)


spacing = _elementwise("spacing", _xspacing, real_np.spacing)
logical_not = _elementwise("logical_not", lambda x: SB(Not(_b(x))), real_np.logical_not)


def _binary_ew(name, f, real):
    def g(a, b, *rest, **k):
        if is_obj(a) or is_obj(b) or isinstance(a, (XF, SI, SB)) or isinstance(b, (XF, SI, SB)):
            OVERRIDES_USED.add(name)
            if not isinstance(a, real_np.ndarray) and not isinstance(b, real_np.ndarray):
                return f(a, b)
            A, B = real_np.broadcast_arrays(real_np.asarray(a, dtype=object) if not isinstance(a, real_np.ndarray) else a,
                                            real_np.asarray(b, dtype=object) if not isinstance(b, real_np.ndarray) else b)
            out = real_np.empty(A.shape, dtype=object)
            for idx in real_np.ndindex(*A.shape):
                out[idx] = f(A[idx], B[idx])
            return out.view(SymNd)
        return real(a, b, *rest, **k)
    return g


maximum = _binary_ew("maximum", lambda x, y: xf.xmax(XF.of(x), XF.of(y)), real_np.maximum)
minimum = _binary_ew("minimum", lambda x, y: xf.xmin(XF.of(x), XF.of(y)), real_np.minimum)
logical_and = _binary_ew("logical_and", lambda x, y: SB(And(_b(x), _b(y))), real_np.logical_and)
logical_or = _binary_ew("logical_or", lambda x, y: SB(Or(_b(x), _b(y))), real_np.logical_or)


def where(c, *ab):
    if not ab:
        if is_obj(c):
            c = SymNd._conc_key(c.view(SymNd), c)
        return real_np.where(c)
    a, b = ab
    if is_obj(c) or is_obj(a) or is_obj(b) or isinstance(a, XF) or isinstance(b, XF):
        OVERRIDES_USED.add("where")
        C, A, B = real_np.broadcast_arrays(*[real_np.asarray(x, dtype=object) if not isinstance(x, real_np.ndarray) else x for x in (c, a, b)])
        out = real_np.empty(C.shape, dtype=object)
        for idx in real_np.ndindex(*C.shape):
            cc = _b(C[idx])
            x, y = A[idx], B[idx]
            if isinstance(x, (XF, float, real_np.floating)) or isinstance(y, (XF, float, real_np.floating)):
                out[idx] = xite(cc, XF.of(x), XF.of(y))
            elif not isz(cc):
                out[idx] = x if cc else y
            else:
                out[idx] = SI(IIte(cc, SI.of(x).t, SI.of(y).t))
        return out.view(SymNd)
    return real_np.where(c, a, b)


def _fill(shape, val, dtype=None):
    if dtype is not None and real_np.dtype(dtype).kind in "iub":
        return None
    a = real_np.empty(shape, dtype=object)
    v = XF.of(val)
    for idx in real_np.ndindex(*a.shape):
        a[idx] = v
    return a.view(SymNd)


class _Flag:
    """when set, np.zeros / np.full produce symbolic-capable object arrays (float kinds only)."""
    sym_factories = False


def zeros(shape, dtype=float, **k):
    if _Flag.sym_factories and real_np.dtype(dtype).kind == "f":
        OVERRIDES_USED.add("zeros")
        return _fill(shape, 0.0)
    return real_np.zeros(shape, dtype=dtype, **k)


def ones(shape, dtype=float, **k):
    if _Flag.sym_factories and real_np.dtype(dtype).kind == "f":
        return _fill(shape, 1.0)
    return real_np.ones(shape, dtype=dtype, **k)


def full(shape, val, dtype=None, **k):
    if isinstance(val, XF) or (_Flag.sym_factories and (dtype is None and isinstance(val, float) or dtype is not None and real_np.dtype(dtype).kind == "f")):
        OVERRIDES_USED.add("full")
        return _fill(shape, val)
    return real_np.full(shape, val, dtype=dtype, **k)


def array(obj, dtype=None, **k):
    if isinstance(obj, (XF, SI, SB)):
        a = real_np.empty((), dtype=object)
        a[()] = obj
        return a.view(SymNd)
    if isinstance(obj, (list, tuple)) and _has_sym(obj):
        OVERRIDES_USED.add("array")
        parts = [array(o) if isinstance(o, (list, tuple)) else (o if isinstance(o, (XF, SI, SB)) else real_np.asarray(o, dtype=object)) for o in obj]
        shp = parts[0].shape if isinstance(parts[0], real_np.ndarray) else ()
        out = real_np.empty((len(parts),) + shp, dtype=object)
        for i, p in enumerate(parts):
            if isinstance(p, real_np.ndarray) and p.ndim == 0:
                p = p[()]
            if shp == ():
                out[i] = p
            else:
                out[i, ...] = p
        return out.view(SymNd)
    if is_obj(obj):
        if dtype is not None:
            return _view(obj).astype(dtype)
        return _view(real_np.array(obj, **k))
    return real_np.array(obj, dtype=dtype, **k)


def asarray(obj, dtype=None, **k):
    if is_obj(obj) and dtype is None:
        return _view(obj)
    if is_obj(obj) and dtype is not None:
        # an object array of XF scalars stands for a float64 array: np.asarray(a, dtype=float64) of a float64 array is the array itself
        # (no copy), and writes through the result must alias exactly as they do in numpy
        try:
            want_float64 = real_np.dtype(dtype) == real_np.float64
        except TypeError:
            want_float64 = False
        if want_float64 and all(isinstance(x, (XF, float)) for x in real_np.asarray(obj).reshape(-1)):
            return _view(obj)
    return array(obj, dtype=dtype)


def stack(arrs, axis=0, **k):
    arrs = list(arrs)
    if any(is_obj(a) for a in arrs) or _has_sym(arrs):
        arrs = [a if isinstance(a, real_np.ndarray) else array(a) for a in arrs]
        arrs = [a if a.dtype == object else a.astype(object) for a in arrs]
        return _view(real_np.stack(arrs, axis=axis))
    return real_np.stack(arrs, axis=axis, **k)


def concatenate(arrs, axis=0, **k):
    arrs = list(arrs)
    if any(is_obj(a) for a in arrs):
        arrs = [a if a.dtype == object else real_np.asarray(a).astype(object) for a in arrs]
        return _view(real_np.concatenate(arrs, axis=axis))
    return real_np.concatenate(arrs, axis=axis, **k)


def argsort(a, axis=-1, kind=None, **k):
    if is_obj(a):
        OVERRIDES_USED.add("argsort")
        if axis is None:
            a = a.reshape(-1)
        if a.ndim != 1:
            raise EngineGap("argsort on symbolic nd array")
        xs = [XF.of(x) for x in a]
        perm = []
        for i, x in enumerate(xs):  # stable insertion; NaN sorts last like numpy
            j = len(perm)
            while j > 0 and bool(SB(Or(And(xs[perm[j - 1]].nan, Not(x.nan)), xcmp("<", x, xs[perm[j - 1]])))):
                j -= 1
            perm.insert(j, i)
        return real_np.array(perm, dtype=real_np.intp)
    return real_np.argsort(a, axis=axis, kind=kind, **k)


def cumsum(a, axis=None, **k):
    if is_obj(a):
        OVERRIDES_USED.add("cumsum")
        if a.ndim != 1:
            raise EngineGap("cumsum on symbolic nd array")
        out = real_np.empty(a.shape, dtype=object)
        acc = 0
        for i, x in enumerate(a):
            acc = _add(acc, x)
            out[i] = acc
        return out.view(SymNd)
    return real_np.cumsum(a, axis=axis, **k)


def searchsorted(a, v, side="left", **k):
    if is_obj(a) or is_obj(v) or isinstance(v, XF):
        OVERRIDES_USED.add("searchsorted")
        A = [XF.of(x) for x in real_np.asarray(a).reshape(-1)]

        def one(x):
            x = XF.of(x)
            i = 0
            # a is sorted ascending: first index with a[i] >= x (left) / > x (right)
            while i < len(A) and bool(SB(xcmp("<" if side == "left" else "<=", A[i], x))):
                i += 1
            return i
        if isinstance(v, real_np.ndarray):
            return real_np.array([one(x) for x in v.reshape(-1)], dtype=real_np.intp).reshape(v.shape)
        return one(v)
    return real_np.searchsorted(a, v, side=side, **k)


def unravel_index(i, shape, **k):
    if isinstance(i, (SI, XF)):
        i = int(i)
    return real_np.unravel_index(i, shape, **k)


def norm(a, axis=None, ord=None, keepdims=False):
    if is_obj(a):
        OVERRIDES_USED.add("linalg.norm")
        if ord not in (None, 2):
            raise EngineGap("norm ord")
        return _reduce(a, axis, lambda xs: xsqrt(functools.reduce(xadd, [xmul(XF.of(x), XF.of(x)) for x in xs], XF(Fraction(0)))), keepdims)
    return real_np.linalg.norm(a, axis=axis, ord=ord, keepdims=keepdims)


def dot(a, b):
    if is_obj(a) or is_obj(b):
        OVERRIDES_USED.add("dot")
        a = real_np.asarray(a)
        b = real_np.asarray(b)
        if a.ndim == 1 and b.ndim == 1:
            return functools.reduce(xadd, [xmul(XF.of(x), XF.of(y)) for x, y in zip(a, b)], XF(Fraction(0)))
        raise EngineGap("dot on symbolic nd arrays")
    return real_np.dot(a, b)


def unique(a, *args, **k):
    if is_obj(a):
        flat = list(real_np.asarray(a).reshape(-1))
        if all(isinstance(e, (int, real_np.integer)) for e in flat):
            return real_np.unique(real_np.array([int(e) for e in flat]), *args, **k)
        raise EngineGap("unique on symbolic values")
    return real_np.unique(a, *args, **k)


def isscalar(x):
    return isinstance(x, (XF, SI, SB)) or real_np.isscalar(x)


def copy(a, **k):
    if is_obj(a):
        return _view(real_np.array(a, copy=True))
    return real_np.copy(a, **k)


def squeeze(a, axis=None):
    return _view(real_np.squeeze(a, axis=axis))


def expand_dims(a, axis):
    return _view(real_np.expand_dims(a, axis))


def reshape(a, shape, **k):
    return _view(real_np.reshape(a, shape, **k))


def percentile(a, q, axis=None, **k):
    if is_obj(a):
        OVERRIDES_USED.add("percentile")
        xs = [XF.of(x) for x in real_np.asarray(a).reshape(-1)]
        if axis is not None or len(xs) > 6 or not xs:
            raise EngineGap("percentile on symbolic array (axis / more than 6 values)")
        order = _sort_list(xs)  # forks on the order; numpy's default 'linear' interpolation between order statistics
        pos = Fraction(len(order) - 1) * Fraction(q) / 100
        lo = int(pos)
        fr = pos - lo
        if fr == 0:
            return order[lo]
        return xadd(order[lo], xmul(XF(fr), xf.xsub(order[lo + 1], order[lo])))
    return real_np.percentile(a, q, axis=axis, **k)


class _Linalg:
    norm = staticmethod(norm)

    def __getattr__(self, k):
        return getattr(real_np.linalg, k)


class NPProxy(types.ModuleType):
    def __getattr__(self, k):
        return getattr(real_np, k)


NP = NPProxy("numpy")
for _n, _f in dict(isnan=isnan, isinf=isinf, isfinite=isfinite, any=any_, all=all_, sum=sum_, mean=mean_, prod=prod_, exp=exp, sqrt=sqrt,
                   abs=abs_, absolute=abs_, square=square, nanmean=nanmean, nanmax=_nan_ext(True), nanmin=_nan_ext(False), max=_plain_ext(True),
                   min=_plain_ext(False), amax=_plain_ext(True), amin=_plain_ext(False), nanmedian=nanmedian, maximum=maximum, minimum=minimum,
                   logical_and=logical_and, logical_or=logical_or, logical_not=logical_not, where=where, zeros=zeros, ones=ones, full=full,
                   array=array, asarray=asarray, stack=stack, concatenate=concatenate, argsort=argsort, cumsum=cumsum, searchsorted=searchsorted,
                   unravel_index=unravel_index, dot=dot, unique=unique, isscalar=isscalar, copy=copy, squeeze=squeeze, expand_dims=expand_dims,
                   reshape=reshape, percentile=percentile, spacing=spacing).items():
    setattr(NP, _n, _f)
NP.linalg = _Linalg()
NP.ndarray = real_np.ndarray
