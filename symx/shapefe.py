"""Shape-only front end for torch.nn models (C14).

``ShapeT`` is a tensor stand-in that carries nothing but a shape whose entries are Python ints or symbolic integers
(xf.SI).  It is not a Tensor subclass: torch's ``__torch_function__`` protocol hands every torch / torch.nn.functional call
that receives one to ``ShapeT.__torch_function__``, which applies the operator's documented shape rule.  The REAL modules
(their real ``forward`` methods, real parameters, real configuration arithmetic) run; only tensor kernels are replaced by
their shape rules.  A rule that torch would reject (channel mismatch, concatenation of unequal extents, ...) raises
``ShapeErr``; when the offending relation involves a symbolic extent the explorer forks on it, so the harness sees the
error exactly on the path -- the input sizes -- where torch would raise.

Each rule was validated against real torch on concrete sizes (props/c14_shapes.py, configuration kind "validate")."""
from __future__ import annotations
import math
import torch
from .xf import SI, SB, XF, EngineGap, CTX, isz

OPS_USED = set()


class ShapeErr(Exception):
    """the call would make torch raise (RuntimeError) for this shape"""


def _eq(a, b):
    """decide a == b for extents (forks the explorer when symbolic)"""
    if isinstance(a, SI) or isinstance(b, SI):
        return bool(SI.of(a) == SI.of(b))
    return int(a) == int(b)


def _pair(v):
    if isinstance(v, (tuple, list)):
        return (v[0], v[1]) if len(v) == 2 else (v[0], v[0])
    return (v, v)


def _fdiv(a, b):
    return a // b  # SI implements floor division; b is a positive int


class ShapeT:
    __slots__ = ("shape", "dtype")
    device = torch.device("cpu")
    requires_grad = False
    is_cuda = False

    def __init__(self, shape, dtype=torch.float32):
        self.shape = tuple(shape)
        self.dtype = dtype

    # ---- plain attribute API used by module code
    def size(self, d=None):
        return self.shape if d is None else self.shape[d]

    def dim(self):
        return len(self.shape)

    @property
    def ndim(self):
        return len(self.shape)

    def to(self, *a, **k):
        return self

    def float(self):
        return self

    contiguous = detach = clone = float

    def permute(self, *dims):
        if len(dims) == 1 and isinstance(dims[0], (tuple, list)):
            dims = tuple(dims[0])
        return _permute(self, dims)

    def transpose(self, d0, d1):
        shp = list(self.shape)
        d0, d1 = d0 % len(shp), d1 % len(shp)
        shp[d0], shp[d1] = shp[d1], shp[d0]
        return ShapeT(shp)

    def unsqueeze(self, d):
        shp = list(self.shape)
        d = d % (len(shp) + 1)
        return ShapeT(shp[:d] + [1] + shp[d:])

    def squeeze(self, d=None):
        shp = list(self.shape)
        if d is None:
            return ShapeT([x for x in shp if isinstance(x, SI) or int(x) != 1])
        d = d % len(shp)
        return ShapeT(shp[:d] + shp[d + 1:]) if (not isinstance(shp[d], SI) and int(shp[d]) == 1) else ShapeT(shp)

    def flatten(self, start_dim=0, end_dim=-1):
        return _flatten(self, start_dim, end_dim)

    def __getattr__(self, name):  # anything the stand-in does not model is an engine gap, never a silent AttributeError inside the model code
        raise EngineGap(f"shape front end: tensor method .{name} is not modelled")

    def __getitem__(self, key):
        """basic indexing: ints, slices (also strided) and Ellipsis -- the shape rule only"""
        if not isinstance(key, tuple):
            key = (key,)
        n_spec = sum(1 for k in key if k is not Ellipsis and k is not None)
        out, d = [], 0
        for k in key:
            if k is Ellipsis:
                fill = len(self.shape) - n_spec
                out += list(self.shape[d:d + fill])
                d += fill
            elif k is None:
                out.append(1)
            elif isinstance(k, int):
                d += 1
            elif isinstance(k, slice):
                n = self.shape[d]
                d += 1
                st = 1 if k.step is None else int(k.step)
                lo = 0 if k.start is None else int(k.start)
                if k.stop is not None or lo < 0 or st <= 0:
                    if isinstance(n, SI):
                        raise EngineGap("shape front end: slice with a stop / negative start on a symbolic extent")
                    out.append(len(range(*k.indices(int(n)))))
                else:
                    out.append((n - lo + (st - 1)) // st)  # ceil((n - lo) / st); extents in the claim are >= lo
            else:
                raise EngineGap(f"shape front end: index {type(k).__name__}")
        out += list(self.shape[d:])
        return ShapeT(out)

    def __repr__(self):
        return f"ShapeT({tuple(str(s.t) if isinstance(s, SI) else s for s in self.shape)})"

    # ---- element-wise operators
    def __add__(self, o):
        return _broadcast(self, o)

    __radd__ = __iadd__ = __sub__ = __mul__ = __rmul__ = __imul__ = __truediv__ = __add__

    @classmethod
    def __torch_function__(cls, func, types, args=(), kwargs=None):
        name = getattr(func, "__name__", None) or str(func)
        h = HANDLERS.get(name)
        if h is None:
            raise EngineGap(f"shape front end: no rule for {name}")
        OPS_USED.add(name)
        return h(*args, **(kwargs or {}))


def _shape_of(x):
    return tuple(x.shape)


def _broadcast(a, b):
    sa = _shape_of(a) if hasattr(a, "shape") else ()
    sb = _shape_of(b) if hasattr(b, "shape") else ()
    n = max(len(sa), len(sb))
    sa = (1,) * (n - len(sa)) + tuple(sa)
    sb = (1,) * (n - len(sb)) + tuple(sb)
    out = []
    for x, y in zip(sa, sb):
        if not isinstance(x, SI) and int(x) == 1:
            out.append(y)
        elif not isinstance(y, SI) and int(y) == 1:
            out.append(x)
        elif _eq(x, y):
            out.append(x)
        else:
            raise ShapeErr(f"element-wise operands of extents {x} and {y} do not broadcast")
    return ShapeT(out)


def _permute(x, dims):
    dims = [int(d) % len(x.shape) for d in dims]
    if sorted(dims) != list(range(len(x.shape))):
        raise ShapeErr(f"permute{tuple(dims)} of a rank-{len(x.shape)} tensor")
    return ShapeT([x.shape[d] for d in dims])


def _conv_out(i, k, s, p, d):
    return _fdiv(i + 2 * p - d * (k - 1) - 1, s) + 1


def _conv2d(input, weight, bias=None, stride=1, padding=0, dilation=1, groups=1):
    if len(input.shape) != 4:
        raise ShapeErr(f"conv2d on rank {len(input.shape)}")
    B, C, H, W = input.shape
    co, ci, kh, kw = weight.shape
    if int(C) != ci * groups:
        raise ShapeErr(f"conv2d: input has {C} channels, weight expects {ci * groups}")
    (sh, sw), (dh, dw) = _pair(stride), _pair(dilation)
    if isinstance(padding, str):
        if padding == "same":
            if (sh, sw) != (1, 1):
                raise ShapeErr("conv2d: padding='same' with stride > 1")
            return ShapeT((B, co, H, W))
        if padding != "valid":
            raise ShapeErr(f"conv2d: padding {padding!r}")
        ph = pw = 0
    else:
        ph, pw = _pair(padding)
    return ShapeT((B, co, _conv_out(H, kh, sh, ph, dh), _conv_out(W, kw, sw, pw, dw)))


def _conv_transpose2d(input, weight, bias=None, stride=1, padding=0, output_padding=0, groups=1, dilation=1):
    B, C, H, W = input.shape
    ci, co_g, kh, kw = weight.shape
    if int(C) != ci:
        raise ShapeErr(f"conv_transpose2d: input has {C} channels, weight expects {ci}")
    (sh, sw), (ph, pw), (oh, ow), (dh, dw) = _pair(stride), _pair(padding), _pair(output_padding), _pair(dilation)
    return ShapeT((B, co_g * groups, (H - 1) * sh - 2 * ph + dh * (kh - 1) + oh + 1, (W - 1) * sw - 2 * pw + dw * (kw - 1) + ow + 1))


def _max_pool2d(input, kernel_size, stride=None, padding=0, dilation=1, ceil_mode=False, return_indices=False):
    B, C, H, W = input.shape
    (kh, kw), (dh, dw) = _pair(kernel_size), _pair(dilation)
    sh, sw = _pair(stride if stride not in (None, [], ()) else kernel_size)
    ph, pw = _pair(padding)
    if ceil_mode:
        raise EngineGap("shape front end: max_pool2d ceil_mode")
    out = ShapeT((B, C, _conv_out(H, kh, sh, ph, dh), _conv_out(W, kw, sw, pw, dw)))
    return (out, out) if return_indices else out


def _pad(input, pad, mode="constant", value=None):
    shp = list(input.shape)
    if len(pad) % 2 or len(pad) // 2 > len(shp):
        raise ShapeErr("pad: bad padding length")
    for i in range(len(pad) // 2):
        shp[-1 - i] = shp[-1 - i] + pad[2 * i] + pad[2 * i + 1]
    return ShapeT(shp)


def _batch_norm(input, running_mean, running_var, weight=None, bias=None, training=False, momentum=0.1, eps=1e-5):
    if training:
        raise EngineGap("shape front end: batch_norm in training mode (the claim is about evaluation mode)")
    n = running_mean.shape[0] if running_mean is not None else (weight.shape[0] if weight is not None else None)
    if n is not None and int(input.shape[1]) != n:
        raise ShapeErr(f"batch_norm: input has {input.shape[1]} channels, layer has {n}")
    return ShapeT(input.shape)


def _same(input, *a, **k):
    return ShapeT(input.shape)


def _interpolate(input, size=None, scale_factor=None, mode="nearest", align_corners=None, recompute_scale_factor=None, antialias=False):
    B, C = input.shape[:2]
    sp = input.shape[2:]
    if size is not None:
        size = (size,) * len(sp) if not isinstance(size, (tuple, list)) else tuple(size)
        return ShapeT((B, C) + tuple(size))
    sf = (scale_factor,) * len(sp) if not isinstance(scale_factor, (tuple, list)) else tuple(scale_factor)
    out = []
    for x, f in zip(sp, sf):
        if float(f) != int(f):
            raise EngineGap("shape front end: non-integral interpolate scale")
        out.append(x * int(f))  # floor(x * f) for integral f
    return ShapeT((B, C) + tuple(out))


def _cat(tensors, dim=0, **k):
    tensors = list(tensors)
    r = len(tensors[0].shape)
    dim = dim % r
    out = list(tensors[0].shape)
    for t in tensors[1:]:
        if len(t.shape) != r:
            raise ShapeErr("cat: ranks differ")
        for d in range(r):
            if d == dim:
                out[d] = out[d] + t.shape[d]
            elif not _eq(out[d], t.shape[d]):
                raise ShapeErr(f"cat: extents {out[d]} and {t.shape[d]} differ in dimension {d}")
    return ShapeT(out)


def _layer_norm(input, normalized_shape, weight=None, bias=None, eps=1e-5):
    ns = tuple(normalized_shape)
    tail = input.shape[len(input.shape) - len(ns):]
    for a, b in zip(tail, ns):
        if not _eq(a, b):
            raise ShapeErr(f"layer_norm: trailing extents {tail} != {ns}")
    return ShapeT(input.shape)


def _linear(input, weight, bias=None):
    if not _eq(input.shape[-1], weight.shape[1]):
        raise ShapeErr(f"linear: last extent {input.shape[-1]} != {weight.shape[1]}")
    return ShapeT(tuple(input.shape[:-1]) + (weight.shape[0],))


def _binary(a, b, *r, **k):
    return _broadcast(a, b)


def _stochastic_depth(input, p, mode, training=True):
    return input


def _flatten(input, start_dim=0, end_dim=-1):
    shp = list(input.shape)
    r = len(shp)
    s, e = start_dim % r, end_dim % r
    n = 1
    for x in shp[s:e + 1]:
        n = n * x
    return ShapeT(shp[:s] + [n] + shp[e + 1:])


def _adaptive_pool(input, output_size, *a, **k):
    o = _pair(output_size)
    return ShapeT(tuple(input.shape[:-2]) + tuple(o))


HANDLERS = {
    "conv2d": _conv2d, "conv_transpose2d": _conv_transpose2d, "max_pool2d": _max_pool2d, "_max_pool2d": _max_pool2d, "max_pool2d_with_indices": _max_pool2d,
    "pad": _pad, "batch_norm": _batch_norm, "relu": _same, "relu_": _same, "gelu": _same, "sigmoid": _same, "tanh": _same, "softmax": _same, "dropout": _same,
    "leaky_relu": _same, "silu": _same, "elu": _same, "interpolate": _interpolate, "cat": _cat, "concat": _cat, "concatenate": _cat, "layer_norm": _layer_norm,
    "linear": _linear, "permute": lambda x, *d, **k: x.permute(*(d if d else (k["dims"],))), "add": _binary, "mul": _binary, "sub": _binary, "div": _binary,
    "__mul__": _binary, "__rmul__": _binary, "__add__": _binary, "__radd__": _binary, "multiply": _binary, "stochastic_depth": _stochastic_depth,
    "flatten": _flatten, "transpose": lambda x, a, b: x.transpose(a, b), "unsqueeze": lambda x, d: x.unsqueeze(d), "squeeze": lambda x, d=None: x.squeeze(d), "adaptive_max_pool2d": _adaptive_pool, "adaptive_avg_pool2d": _adaptive_pool, "contiguous": _same, "clone": _same,
}


# ---------------------------------------------------------------------- the one non-tensor helper of the architectures that touches torch
class _Scalar:
    def __init__(self, v):
        self.v = v

    def item(self):
        return self.v


class _CommonTorchProxy:
    """sleap_nn.architectures.common computes 'same' pooling padding as int(max((torch.ceil(torch.tensor(i / s)).item() - 1) * s + ..., 0)):
    with a symbolic extent i the two torch calls are replaced by their scalar meaning."""

    def __getattr__(self, k):
        return getattr(torch, k)

    @staticmethod
    def tensor(x, *a, **k):
        if isinstance(x, (XF, SI)):
            return _Scalar(x)
        return torch.tensor(x, *a, **k)

    @staticmethod
    def ceil(x):
        if isinstance(x, _Scalar):
            from . import xf
            v = x.v
            if isinstance(v, SI):
                return _Scalar(v)
            return _Scalar(SI(xf.r_ceil(XF.of(v).v)))
        return torch.ceil(x)


COMMON_TORCH = _CommonTorchProxy()


# ---------------------------------------------------------------------- torchvision Swin-T pieces (plain Python functions, not torch API: patched by name)
def swin_attention_stub(input, qkv_weight, proj_weight, relative_position_bias, window_size, num_heads, shift_size, *a, **k):
    """torchvision.models.swin_transformer.shifted_window_attention: pads to a multiple of the window, attends inside windows, un-pads;
    documented contract (B, H, W, C) -> (B, H, W, C).  Channel bookkeeping is checked; the contract itself is validated against the real
    function on concrete sizes (C14 'validate')."""
    B, H, W, C = input.shape
    if int(C) * 3 != qkv_weight.shape[0] or int(C) != qkv_weight.shape[1] or proj_weight.shape[0] != int(C) or proj_weight.shape[1] != int(C) or int(C) % int(num_heads):
        raise ShapeErr(f"window attention: {C} channels vs qkv {tuple(qkv_weight.shape)} / proj {tuple(proj_weight.shape)} / {num_heads} heads")
    OPS_USED.add("shifted_window_attention[stub]")
    return ShapeT(input.shape)


def install_swin_stubs():
    import torchvision.models.swin_transformer as sw
    real = sw.shifted_window_attention
    sw.shifted_window_attention = swin_attention_stub
    return real


def remove_swin_stubs(real):
    import torchvision.models.swin_transformer as sw
    sw.shifted_window_attention = real
