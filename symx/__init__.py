"""symx -- bounded symbolic execution of the real sleap-nn code with z3 as the deciding step.

See /verif/DESIGN.md section 1.  Nothing here imports sleap_nn at module import time.
"""
