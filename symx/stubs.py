"""Environment stubs (DESIGN 1.4).  Each is part of the claim and is differentially validated against the real
third-party function on seeded concrete inputs by the checks that use it."""
from __future__ import annotations
import itertools, math
from fractions import Fraction
import z3
from . import xf
from .xf import XF, SB, SI, isz, And, Or, Not, EngineGap, CTX, xadd, xmul, xcmp, rcmp

CROP_LOG = []


def _conc_half(v):
    """XF / number known to be a multiple of 1/2 -> Fraction (forking through the explorer when symbolic)."""
    if isinstance(v, XF):
        if v.is_const():
            return Fraction(v.to_float())
        t = z3.simplify(z3.ToInt(2 * xf.R(v.v)))
        ex = CTX.explorer
        k = ex.concretize_int(t)
        ex.assume(xf.R(v.v) * 2 == k)
        return Fraction(k, 2)
    return Fraction(v)


def crop_and_resize_model(images, boxes, size, **kw):
    """kornia.geometry.transform.crop_and_resize for axis-aligned boxes whose size equals the output size:
    output pixel (i,j) samples the image bilinearly at top_left + (j,i), zeros outside (align_corners=True)."""
    import torch
    from . import torchfe as T
    with T._disable_current_modes():
        images, boxes = T._wrap_all((images, boxes))
        oh, ow = int(size[0]), int(size[1])
        n, C, H, W = images.shape
        bv = boxes.values()
        iv = images.values()
        out = []
        for k in range(n):
            c = [[_conc_half(bv[(k * 4 + p) * 2 + d]) for d in (0, 1)] for p in range(4)]
            (tlx, tly), (trx, try_), (brx, bry), (blx, bly) = c
            if not (trx - tlx == ow - 1 and try_ == tly and brx == trx and bry - try_ == oh - 1 and blx == tlx and bly == bry):
                raise EngineGap(f"crop_and_resize stub: box {c} is not an axis-aligned {oh}x{ow} box")
            CROP_LOG.append({"top_left": (tlx, tly), "size": (oh, ow)})
            for ch in range(C):
                for i in range(oh):
                    for j in range(ow):
                        sx, sy = tlx + j, tly + i
                        x0, y0 = math.floor(sx), math.floor(sy)
                        fx, fy = sx - x0, sy - y0
                        acc = XF(Fraction(0))
                        for (yy, wy) in ((y0, 1 - fy), (y0 + 1, fy)):
                            for (xx, wx) in ((x0, 1 - fx), (x0 + 1, fx)):
                                w = wx * wy
                                if w == 0 or not (0 <= xx < W and 0 <= yy < H):
                                    continue
                                acc = xadd(acc, xmul(XF(w), iv[((k * C + ch) * H + yy) * W + xx]))
                        out.append(acc)
        return T.from_values(out, (n, C, oh, ow), images.dtype)


def crop_and_resize_geometry(images, boxes, size, **kw):
    """geometry-only variant: record the boxes, return a crop of the requested size whose (constant) content identifies the SOURCE image:
    crop i is filled with the mean of image i when the images are concrete (zeros for symbolic pixels), so a crop cut from the wrong frame
    differs even though the pixel geometry is not modelled."""
    import torch
    from . import torchfe as T
    CROP_LOG.append({"boxes": boxes, "size": (int(size[0]), int(size[1]))})
    shape = (images.shape[1], int(size[0]), int(size[1]))
    n = boxes.shape[0]
    if images.shape[0] == n and n > 0 and (not isinstance(images, T.SymTensor) or images.is_concrete()):
        real = images.materialize() if isinstance(images, T.SymTensor) else images
        means = [float(real[i].double().mean()) for i in range(n)]
        dt = images.dtype
        return torch.stack([torch.full(shape, (m if dt.is_floating_point else int(round(m))), dtype=dt) for m in means])
    return torch.zeros((n,) + shape, dtype=images.dtype)


# ------------------------------------------------------------------ symbolic Hungarian
def linear_sum_assignment_model(cost, maximize=False):
    """scipy.optimize.linear_sum_assignment over a symbolic cost matrix: forks over the full assignments that are
    finite and minimal (ties fork, so every optimum scipy may return is explored); raises scipy's ValueError when
    no finite assignment exists or an entry is NaN/-inf."""
    import numpy as real_np
    cost = real_np.asarray(cost)
    if cost.ndim != 2:
        raise ValueError("expected a matrix (2-D array), got a %r array" % (cost.shape,))
    n, m = cost.shape
    if min(n, m) == 0:
        return real_np.array([], dtype=int), real_np.array([], dtype=int)
    if cost.dtype != object:
        from scipy.optimize import linear_sum_assignment as real
        return real(cost, maximize=maximize)
    if n * m > 16:
        raise EngineGap("symbolic Hungarian limited to 16 entries")
    ex = CTX.explorer
    C = [[XF.of(cost[i, j]) for j in range(m)] for i in range(n)]
    if maximize:
        C = [[xf.xneg(c) for c in row] for row in C]
    # scipy rejects NaN and -inf entries
    bad = Or(*[Or(c.nan, c.ninf) for row in C for c in row])
    if ex.decide(bad):
        raise ValueError("matrix contains invalid numeric entries")
    cands = []
    if n <= m:
        for cols in itertools.permutations(range(m), n):
            cands.append((list(range(n)), list(cols)))
    else:
        for rows in itertools.permutations(range(n), m):
            pairs = sorted(zip(rows, range(m)))
            cands.append(([p[0] for p in pairs], [p[1] for p in pairs]))
    tots = []
    for rws, cls in cands:
        t = XF(Fraction(0))
        for r, c in zip(rws, cls):
            t = xadd(t, C[r][c])
        tots.append(t)
    for i, cand in enumerate(cands):
        fin = tots[i].fin()
        best = And(fin, *[Or(Not(tots[j].fin()), rcmp("<=", tots[i].v, tots[j].v)) for j in range(len(cands)) if j != i])
        if ex.decide(best):
            return real_np.array(cand[0]), real_np.array(cand[1])
    raise ValueError("cost matrix is infeasible")
