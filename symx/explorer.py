"""Replay-based path explorer (DFS over a decision list) with eager side constraints, model-guided
pattern forking for masks, cone-of-influence sliced obligation queries and query/time accounting."""
from __future__ import annotations
import time, itertools
import z3
from . import xf
from .xf import isz, zb, CTX, Infeasible, EngineGap, term_vars

STATS = {"queries": 0, "solver_s": 0.0, "unknown": 0}
WATCHDOG_S = 200  # hard wall limit per in-process check (soft timeouts are 60-120 s)


def reset_stats():
    STATS.update({"queries": 0, "solver_s": 0.0, "unknown": 0})


def _timed_check(solver, *assumptions, hard_s=None):
    """solver.check with a watchdog: z3's own soft timeout is not always honoured inside nlsat; after hard_s seconds (default: the
    solver's timeout + 20 s, at most 320 s) the context is interrupted from a timer thread and the check returns unknown."""
    import threading
    if hard_s is None:
        hard_s = WATCHDOG_S
    fired = []
    ctx = solver.ctx  # the closure must not keep the Solver alive: a Solver freed by the garbage collector in the middle of another z3 call crashes z3

    def _interrupt():
        fired.append(1)
        try:
            ctx.interrupt()
        except Exception:  # noqa
            pass
    timer = threading.Timer(hard_s, _interrupt)
    timer.daemon = True
    timer.start()
    t = time.time()
    try:
        r = solver.check(*assumptions)
    except z3.Z3Exception:
        r = z3.unknown
    finally:
        timer.cancel()
    if fired:
        STATS["interrupted"] = STATS.get("interrupted", 0) + 1
        r = z3.unknown if r not in (z3.sat, z3.unsat) else r
    STATS["solver_s"] += time.time() - t
    STATS["queries"] += 1
    if r == z3.unknown:
        STATS["unknown"] += 1
    return r


def find_exp_apps(terms):
    seen = set()
    apps = {}
    stack = [t for t in terms if isz(t)]
    while stack:
        e = stack.pop()
        i = e.get_id()
        if i in seen:
            continue
        seen.add(i)
        if e.decl().kind() == z3.Z3_OP_UNINTERPRETED and e.num_args() == 1 and e.decl().name() == "EXP":
            apps[e.arg(0).get_id()] = e.arg(0)
        stack.extend(e.children())
    return list(apps.values())


class EnvModel:
    """model returned by the external solver: just a name -> value mapping."""

    def __init__(self, env):
        self.env = env

    def decls(self):
        return []

    def __str__(self):
        return str(self.env)


def any_uf(terms):
    seen = set()
    stack = [t for t in terms if isz(t)]
    while stack:
        e = stack.pop()
        i = e.get_id()
        if i in seen:
            continue
        seen.add(i)
        if e.decl().kind() == z3.Z3_OP_UNINTERPRETED and e.num_args() > 0:
            return True
        stack.extend(e.children())
    return False


def _model_eval(model, t):
    """value of term t under a z3 model or an external EnvModel (with completion)."""
    if isinstance(model, EnvModel):
        return xf.eval_term(t, DefaultEnv(model.env))
    v = model.eval(t, model_completion=True)
    if z3.is_true(v):
        return True
    if z3.is_false(v):
        return False
    if z3.is_int_value(v):
        return v.as_long()
    return xf.eval_term(v, {})


def R_(x):
    return xf.R(x)


class Verdict:
    __slots__ = ("status", "model", "seconds", "n_constraints")

    def __init__(self, status, model=None, seconds=0.0, n_constraints=0):
        self.status = status
        self.model = model
        self.seconds = seconds
        self.n_constraints = n_constraints

    def __repr__(self):
        return f"Verdict({self.status}, {self.seconds:.2f}s)"


class _NoSolver:
    """the explorer keeps no incremental solver: every question is a fresh solver over the cone of influence of the
    terms asked about (an incremental solver re-solves unrelated nonlinear side constraints at every boolean decision)."""

    def add(self, *a):
        pass


class Explorer:
    """Enumerates the feasible paths of ``fn`` (a closure that runs real code over symbolic values).

    Decisions: ("b", bool) for a single condition, ("p", excluded_patterns, chosen) for a mask."""

    def __init__(self, base=(), timeout_ms=60000, max_paths=200000, exp_mode="uf", fork_specials=False):
        self.fork_specials = fork_specials
        self.portfolio = True
        self.fast_ms = 3000
        self.base = [zb(c) for c in base if c is not True]
        self.timeout_ms = timeout_ms
        self.max_paths = max_paths
        self.exp_mode = exp_mode
        self.todo = [[]]
        self.paths = 0
        self.infeasible = 0
        self.solver = None
        self.pc = []
        self.side = []
        self._vcache = {}
        self.truncated = False

    # ------------------------------------------------------------------ driving
    def _begin(self, prefix):
        self.prefix = prefix
        self.pos = 0
        self.pc = []
        self.side = []
        self.solver = _NoSolver()
        CTX.explorer = self
        CTX.exp_mode = self.exp_mode
        CTX.fork_specials = self.fork_specials
        CTX.exp_apps = []
        CTX.fresh = 0
        CTX.memo = {}

    def run(self, fn):
        """generator: yields fn()'s result once per feasible path."""
        while self.todo:
            if self.paths >= self.max_paths:
                self.truncated = True
                return
            self._begin(self.todo.pop())
            try:
                r = fn()
            except Infeasible:
                self.infeasible += 1
                continue
            self.paths += 1
            yield r
        CTX.explorer = None

    def _status(self, extra, seeds=()):
        v = self.query(list(extra), exp_axioms="basic", seeds=seeds)
        return v

    def feasible(self):
        v = self.query([], sliced=False, exp_axioms="basic")
        if v.status == "unknown":
            raise EngineGap("path feasibility unknown (solver timeout)")
        return v.status == "sat"

    # ------------------------------------------------------------------ constraints
    def add_side(self, c):
        self.side.append(c)
        self.solver.add(c)

    def assume(self, c):
        """restrict the current path (harness precondition placed mid-run)."""
        if c is True:
            return
        c = zb(c)
        st = self._status([c]).status
        self.pc.append(c)
        if st == "unsat":
            raise Infeasible()
        if st == "unknown":
            raise EngineGap("assume: unknown")

    # ------------------------------------------------------------------ decisions
    def decide(self, c):
        if isinstance(c, xf.SB):
            c = c.b
        if not isz(c):
            return bool(c)
        c = z3.simplify(c)
        if z3.is_true(c):
            return True
        if z3.is_false(c):
            return False
        if self.pos < len(self.prefix):
            d = self.prefix[self.pos]
            assert d[0] == "b", f"decision replay mismatch at {self.pos}: {d}"
            b, implied = d[1], d[2]
        else:
            rT = self._status([c]).status
            rF = self._status([z3.Not(c)]).status
            if rT == "unknown" or rF == "unknown":
                raise EngineGap("decide: solver returned unknown")
            canT = rT == "sat"
            canF = rF == "sat"
            if canT and canF:
                self.todo.append(self.prefix[: self.pos] + [("b", False, False)])
                b, implied = True, False
            elif canT or canF:
                b, implied = canT, True  # implied by the path so far: recorded for replay, adds no constraint
            else:
                raise Infeasible()
            self.prefix = self.prefix[: self.pos] + [("b", b, implied)]
        self.pos += 1
        if not implied:
            lit = c if b else z3.Not(c)
            self.solver.add(lit)
            self.pc.append(lit)
        return b

    def decide_pattern(self, conds):
        """Concretise a list of bools at once, model-guided; alternatives = 'none of the patterns so far'."""
        conds = [c.b if isinstance(c, xf.SB) else c for c in conds]
        sym = [c for c in conds if isz(c)]
        if not sym:
            return [bool(c) for c in conds]

        def pat_formula(p):
            return z3.And(*[c if b else z3.Not(c) for c, b in zip(sym, p)]) if len(sym) > 1 else (sym[0] if p[0] else z3.Not(sym[0]))

        if self.pos < len(self.prefix):
            d = self.prefix[self.pos]
            assert d[0] == "p", f"decision replay mismatch at {self.pos}: {d}"
            excluded, chosen = d[1], d[2]
        else:
            excluded, chosen = [], None
        # ``excluded`` holds ready-made z3 formulas Not(pattern): replays rebuild structurally identical
        # (hash-consed) condition terms because fresh-variable naming restarts on every path.
        for f in excluded:
            self.solver.add(f)
            self.pc.append(f)
        if chosen is None:
            v = self._status([], seeds=sym)
            if v.status == "unknown":
                raise EngineGap("decide_pattern: unknown")
            if v.status != "sat":
                raise Infeasible()
            chosen = [bool(_model_eval(v.model, c)) for c in sym]
            self.todo.append(self.prefix[: self.pos] + [("p", excluded + [z3.Not(pat_formula(chosen))], None)])
            self.prefix = self.prefix[: self.pos] + [("p", excluded, chosen)]
        self.pos += 1
        f = pat_formula(chosen)
        self.solver.add(f)
        self.pc.append(f)
        it = iter(chosen)
        return [next(it) if isz(c) else bool(c) for c in conds]

    def concretize_int(self, t):
        """Fork on the value of an integer term (model-guided; alternatives = 'none of the values so far')."""
        if isinstance(t, xf.SI):
            t = t.t
        if not isz(t):
            return int(t)
        t = z3.simplify(t)
        if z3.is_int_value(t):
            return t.as_long()
        if self.pos < len(self.prefix):
            d = self.prefix[self.pos]
            assert d[0] == "i", f"decision replay mismatch at {self.pos}: {d}"
            excluded, chosen = d[1], d[2]
        else:
            excluded, chosen = [], None
        for v in excluded:
            f = t != v
            self.solver.add(f)
            self.pc.append(f)
        if chosen is None:
            v = self._status([], seeds=[t])
            if v.status == "unknown":
                raise EngineGap("concretize_int: unknown")
            if v.status != "sat":
                raise Infeasible()
            chosen = int(_model_eval(v.model, t))
            if len(excluded) > 64:
                raise EngineGap("concretize_int: more than 64 values")
            self.todo.append(self.prefix[: self.pos] + [("i", excluded + [chosen], None)])
            self.prefix = self.prefix[: self.pos] + [("i", excluded, chosen)]
        self.pos += 1
        f = t == chosen
        self.solver.add(f)
        self.pc.append(f)
        return chosen

    # ------------------------------------------------------------------ sliced obligation queries
    def _slice(self, seeds):
        cons = self.base + self.pc + self.side
        vs = [self._tv(c) for c in cons]
        want = set()
        for s in seeds:
            want |= self._tv(s)
        picked = [False] * len(cons)
        changed = True
        while changed:
            changed = False
            for i, v in enumerate(vs):
                if not picked[i] and (v & want):
                    picked[i] = True
                    if not v <= want:
                        want |= v
                        changed = True
        return [c for c, p in zip(cons, picked) if p]

    def _tv(self, t):
        r = term_vars(t, self._vcache)
        return r

    def query(self, extra, timeout_ms=None, exp_axioms=True, sliced=True, fast_ms=None, seeds=()):
        """Is base+pc+side+extra satisfiable?  Returns Verdict; on sat the model covers the slice."""
        extra = [zb(e) for e in extra]
        cons = self._slice(extra + list(seeds)) if sliced else (self.base + self.pc + self.side)
        s = z3.Solver()
        s.set("timeout", timeout_ms or self.timeout_ms)
        s.add(*cons)
        s.add(*extra)
        if exp_axioms and self.exp_mode == "uf" and CTX.exp_apps:
            apps = find_exp_apps(cons + extra)
            if apps:
                s.add(*xf.exp_axioms(apps, pairwise=exp_axioms != "basic"))
        total_ms = timeout_ms or self.timeout_ms
        fast_ms = min(total_ms, fast_ms or self.fast_ms) if self.portfolio else total_ms
        s.set("timeout", fast_ms)
        t = time.time()
        r = _timed_check(s)
        dt = time.time() - t
        if r == z3.unknown and self.portfolio and not any_uf(cons + extra):
            # second opinion from the z3 4.8.12 binary on the same assertions (pure arithmetic only)
            from . import extsolve
            st, env, dt2 = extsolve.solve_smt2(s.sexpr(), timeout_s=max(1, (total_ms - fast_ms) // 1000), logic=None)
            STATS["queries"] += 1
            STATS["solver_s"] += dt2
            STATS["external"] = STATS.get("external", 0) + 1
            if st == "unsat":
                return Verdict("unsat", None, dt + dt2, len(cons))
            if st == "sat" and env is not None:
                return Verdict("sat", EnvModel(env), dt + dt2, len(cons))
            s.set("timeout", max(1000, total_ms - fast_ms))
            t = time.time()
            r = _timed_check(s)
            dt += dt2 + time.time() - t
        elif r == z3.unknown and self.portfolio:
            s.set("timeout", max(1000, total_ms - fast_ms))
            t = time.time()
            r = _timed_check(s)
            dt += time.time() - t
        if r == z3.sat:
            return Verdict("sat", s.model(), dt, len(cons))
        if r == z3.unsat:
            return Verdict("unsat", None, dt, len(cons))
        return Verdict("unknown", None, dt, len(cons))

    def cone_feasible(self, goal):
        """vacuity guard: the constraints in the goal's cone of influence must be satisfiable on their own
        (an unsatisfiable assumption set 'proves' everything).  Memoised per path by the cone's constraint set."""
        g = [zb(goal)] if goal is not True and goal is not False else []
        cons = self._slice(g)
        key = frozenset(c.get_id() for c in cons)
        memo = self.__dict__.setdefault("_cone_memo", {})
        if memo.get("path") is not self.pc:
            memo.clear()
            memo["path"] = self.pc
        if key in memo:
            return memo[key]
        if not cons:
            memo[key] = True
            return True
        v = self.query([], seeds=g, exp_axioms="basic")
        memo[key] = v.status != "unsat"
        return memo[key]

    def prove(self, goal, abstract=None, **kw):
        """unsat = goal holds for every value on this path.

        ``abstract``: list of (large) real terms replaced by fresh variables first (sound for validity: what holds
        for an arbitrary value holds for the term); if the abstracted goal is not proved, the exact goal is tried."""
        if goal is True:
            return Verdict("unsat")
        if goal is False:
            return self.query([], **kw)
        g = zb(goal)
        if abstract:
            subs = []
            for k, t in enumerate(abstract):
                if isz(t) and not z3.is_const(t):
                    subs.append((t, z3.Real(f"abs!{k}")))
            if subs:
                ga = z3.substitute(g, *subs)
                v = self.query([z3.Not(ga)], **kw)
                if v.status == "unsat":
                    return v
        return self.query([z3.Not(g)], **kw)

    def lemma(self, goal, **kw):
        """prove ``goal`` on this path and, only if proved, add it as a side fact for later queries."""
        v = self.prove(goal, **kw)
        if v.status == "unsat" and goal is not True:
            self.add_side(zb(goal))
        return v

    def path_env(self, extra=()):
        m = self.full_model(extra)
        return None if m is None else DefaultEnv(model_env(m))

    def match_equal(self, target, candidates, guard=True, timeout_ms=None, env=None):
        """find a candidate term provably equal to ``target`` under this path (+guard).
        Fingerprint by evaluation under a model of the path, then prove.  -> (candidate | None, Verdict)"""
        from .xf import eval_term
        if env is None:
            env = self.path_env([guard] if guard is not True else [])
        last = Verdict("unknown")
        order = list(candidates)
        if env is not None:
            try:
                tv = float(eval_term(target, env))
                scored = []
                for c in candidates:
                    try:
                        scored.append((abs(float(eval_term(c, env)) - tv), len(scored), c))
                    except Exception:
                        scored.append((1e30, len(scored), c))
                scored.sort(key=lambda x: x[:2])
                order = [c for d, _, c in scored if d < 1e-6 * max(1.0, abs(tv))]
            except Exception:
                pass
        for c in order[:4]:
            last = self.prove(z3.Implies(zb(guard), R_(target) == R_(c)), timeout_ms=timeout_ms)
            if last.status == "unsat":
                return c, last
        return None, last

    def full_model(self, extra=()):
        """A model of *all* constraints of the path plus extra (for replay)."""
        v = self.query(list(extra), sliced=False, exp_axioms=True)
        return v.model if v.status == "sat" else None

    def path_summary(self, limit=6, width=90):
        return [c.sexpr()[:width].replace("\n", " ") for c in self.pc[:limit]]


def model_env(model):
    """z3 model -> {name: python value} for eval_term."""
    env = {}
    if model is None:
        return env
    if isinstance(model, EnvModel):
        return dict(model.env)
    for d in model.decls():
        if d.arity() != 0:
            continue
        v = model[d]
        if z3.is_rational_value(v):
            from fractions import Fraction
            env[d.name()] = Fraction(v.numerator_as_long(), v.denominator_as_long())
        elif z3.is_int_value(v):
            env[d.name()] = v.as_long()
        elif z3.is_true(v):
            env[d.name()] = True
        elif z3.is_false(v):
            env[d.name()] = False
        elif z3.is_algebraic_value(v):
            from fractions import Fraction
            a = v.approx(20)
            env[d.name()] = Fraction(a.numerator_as_long(), a.denominator_as_long())
    return env


class DefaultEnv(dict):
    """env that completes missing variables with 0 / False (model completion)."""

    def __missing__(self, k):
        return False if k.endswith(("#nan", "#pinf", "#ninf")) or k.startswith(("b!", "vis", "pres")) else 0
