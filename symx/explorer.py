"""Replay-based path explorer (DFS over a decision list) with eager side constraints, model-guided
pattern forking for masks, cone-of-influence sliced obligation queries and query/time accounting."""
from __future__ import annotations
import time, itertools
import z3
from . import xf
from .xf import isz, zb, CTX, Infeasible, EngineGap, term_vars

STATS = {"queries": 0, "solver_s": 0.0, "unknown": 0}


def reset_stats():
    STATS.update({"queries": 0, "solver_s": 0.0, "unknown": 0})


def _timed_check(solver, *assumptions):
    t = time.time()
    r = solver.check(*assumptions)
    STATS["solver_s"] += time.time() - t
    STATS["queries"] += 1
    if r == z3.unknown:
        STATS["unknown"] += 1
    return r


def find_exp_apps(terms):
    seen = set()
    apps = {}
    stack = [t for t in terms if isz(t)]
    while stack:
        e = stack.pop()
        i = e.get_id()
        if i in seen:
            continue
        seen.add(i)
        if e.decl().kind() == z3.Z3_OP_UNINTERPRETED and e.num_args() == 1 and e.decl().name() == "EXP":
            apps[e.arg(0).get_id()] = e.arg(0)
        stack.extend(e.children())
    return list(apps.values())


class Verdict:
    __slots__ = ("status", "model", "seconds", "n_constraints")

    def __init__(self, status, model=None, seconds=0.0, n_constraints=0):
        self.status = status
        self.model = model
        self.seconds = seconds
        self.n_constraints = n_constraints

    def __repr__(self):
        return f"Verdict({self.status}, {self.seconds:.2f}s)"


class Explorer:
    """Enumerates the feasible paths of ``fn`` (a closure that runs real code over symbolic values).

    Decisions: ("b", bool) for a single condition, ("p", excluded_patterns, chosen) for a mask."""

    def __init__(self, base=(), timeout_ms=60000, max_paths=200000, exp_mode="uf"):
        self.base = [zb(c) for c in base if c is not True]
        self.timeout_ms = timeout_ms
        self.max_paths = max_paths
        self.exp_mode = exp_mode
        self.todo = [[]]
        self.paths = 0
        self.infeasible = 0
        self.solver = None
        self.pc = []
        self.side = []
        self._vcache = {}
        self.truncated = False

    # ------------------------------------------------------------------ driving
    def _begin(self, prefix):
        self.prefix = prefix
        self.pos = 0
        self.pc = []
        self.side = []
        self.solver = z3.Solver()
        self.solver.set("timeout", self.timeout_ms)
        if self.base:
            self.solver.add(*self.base)
        CTX.explorer = self
        CTX.exp_mode = self.exp_mode
        CTX.exp_apps = []
        CTX.fresh = 0

    def run(self, fn):
        """generator: yields fn()'s result once per feasible path."""
        while self.todo:
            if self.paths >= self.max_paths:
                self.truncated = True
                return
            self._begin(self.todo.pop())
            try:
                r = fn()
            except Infeasible:
                self.infeasible += 1
                continue
            self.paths += 1
            yield r
        CTX.explorer = None

    def check(self, *assumptions):
        return _timed_check(self.solver, *assumptions)

    def feasible(self):
        r = self.check()
        if r == z3.unknown:
            raise EngineGap("path feasibility unknown (solver timeout)")
        return r == z3.sat

    # ------------------------------------------------------------------ constraints
    def add_side(self, c):
        self.side.append(c)
        self.solver.add(c)

    def assume(self, c):
        """restrict the current path (harness precondition placed mid-run)."""
        if c is True:
            return
        c = zb(c)
        self.pc.append(c)
        self.solver.add(c)
        r = self.check()
        if r == z3.unsat:
            raise Infeasible()
        if r == z3.unknown:
            raise EngineGap("assume: unknown")

    # ------------------------------------------------------------------ decisions
    def decide(self, c):
        if isinstance(c, xf.SB):
            c = c.b
        if not isz(c):
            return bool(c)
        c = z3.simplify(c)
        if z3.is_true(c):
            return True
        if z3.is_false(c):
            return False
        if self.pos < len(self.prefix):
            d = self.prefix[self.pos]
            assert d[0] == "b", f"decision replay mismatch at {self.pos}: {d}"
            b = d[1]
        else:
            rT = self.check(c)
            rF = self.check(z3.Not(c))
            if rT == z3.unknown or rF == z3.unknown:
                raise EngineGap("decide: solver returned unknown")
            canT = rT == z3.sat
            canF = rF == z3.sat
            if canT and canF:
                self.todo.append(self.prefix[: self.pos] + [("b", False)])
                b = True
            elif canT:
                b = True
            elif canF:
                b = False
            else:
                raise Infeasible()
            self.prefix = self.prefix[: self.pos] + [("b", b)]
        self.pos += 1
        lit = c if b else z3.Not(c)
        self.solver.add(lit)
        self.pc.append(lit)
        return b

    def decide_pattern(self, conds):
        """Concretise a list of bools at once, model-guided; alternatives = 'none of the patterns so far'."""
        conds = [c.b if isinstance(c, xf.SB) else c for c in conds]
        sym = [c for c in conds if isz(c)]
        if not sym:
            return [bool(c) for c in conds]

        def pat_formula(p):
            return z3.And(*[c if b else z3.Not(c) for c, b in zip(sym, p)]) if len(sym) > 1 else (sym[0] if p[0] else z3.Not(sym[0]))

        if self.pos < len(self.prefix):
            d = self.prefix[self.pos]
            assert d[0] == "p", f"decision replay mismatch at {self.pos}: {d}"
            excluded, chosen = d[1], d[2]
        else:
            excluded, chosen = [], None
        # ``excluded`` holds ready-made z3 formulas Not(pattern): replays rebuild structurally identical
        # (hash-consed) condition terms because fresh-variable naming restarts on every path.
        for f in excluded:
            self.solver.add(f)
            self.pc.append(f)
        if chosen is None:
            r = self.check()
            if r == z3.unknown:
                raise EngineGap("decide_pattern: unknown")
            if r != z3.sat:
                raise Infeasible()
            m = self.solver.model()
            chosen = [bool(z3.is_true(m.eval(c, model_completion=True))) for c in sym]
            self.todo.append(self.prefix[: self.pos] + [("p", excluded + [z3.Not(pat_formula(chosen))], None)])
            self.prefix = self.prefix[: self.pos] + [("p", excluded, chosen)]
        self.pos += 1
        f = pat_formula(chosen)
        self.solver.add(f)
        self.pc.append(f)
        it = iter(chosen)
        return [next(it) if isz(c) else bool(c) for c in conds]

    def concretize_int(self, t):
        """Fork on the value of an integer term (model-guided; alternatives = 'none of the values so far')."""
        if isinstance(t, xf.SI):
            t = t.t
        if not isz(t):
            return int(t)
        t = z3.simplify(t)
        if z3.is_int_value(t):
            return t.as_long()
        if self.pos < len(self.prefix):
            d = self.prefix[self.pos]
            assert d[0] == "i", f"decision replay mismatch at {self.pos}: {d}"
            excluded, chosen = d[1], d[2]
        else:
            excluded, chosen = [], None
        for v in excluded:
            f = t != v
            self.solver.add(f)
            self.pc.append(f)
        if chosen is None:
            r = self.check()
            if r == z3.unknown:
                raise EngineGap("concretize_int: unknown")
            if r != z3.sat:
                raise Infeasible()
            chosen = self.solver.model().eval(t, model_completion=True).as_long()
            if len(excluded) > 64:
                raise EngineGap("concretize_int: more than 64 values")
            self.todo.append(self.prefix[: self.pos] + [("i", excluded + [chosen], None)])
            self.prefix = self.prefix[: self.pos] + [("i", excluded, chosen)]
        self.pos += 1
        f = t == chosen
        self.solver.add(f)
        self.pc.append(f)
        return chosen

    # ------------------------------------------------------------------ sliced obligation queries
    def _slice(self, seeds):
        cons = self.base + self.pc + self.side
        vs = [self._tv(c) for c in cons]
        want = set()
        for s in seeds:
            want |= self._tv(s)
        picked = [False] * len(cons)
        changed = True
        while changed:
            changed = False
            for i, v in enumerate(vs):
                if not picked[i] and (v & want):
                    picked[i] = True
                    if not v <= want:
                        want |= v
                        changed = True
        return [c for c, p in zip(cons, picked) if p]

    def _tv(self, t):
        r = term_vars(t, self._vcache)
        return r

    def query(self, extra, timeout_ms=None, exp_axioms=True, sliced=True):
        """Is base+pc+side+extra satisfiable?  Returns Verdict; on sat the model covers the slice."""
        extra = [zb(e) for e in extra]
        cons = self._slice(extra) if sliced else (self.base + self.pc + self.side)
        s = z3.Solver()
        s.set("timeout", timeout_ms or self.timeout_ms)
        s.add(*cons)
        s.add(*extra)
        if exp_axioms and self.exp_mode == "uf" and CTX.exp_apps:
            apps = find_exp_apps(cons + extra)
            if apps:
                s.add(*xf.exp_axioms(apps))
        t = time.time()
        r = _timed_check(s)
        dt = time.time() - t
        if r == z3.sat:
            return Verdict("sat", s.model(), dt, len(cons))
        if r == z3.unsat:
            return Verdict("unsat", None, dt, len(cons))
        return Verdict("unknown", None, dt, len(cons))

    def prove(self, goal, **kw):
        """unsat = goal holds for every value on this path."""
        if goal is True:
            return Verdict("unsat")
        if goal is False:
            return self.query([], **kw)
        return self.query([z3.Not(zb(goal))], **kw)

    def full_model(self, extra=()):
        """A model of *all* constraints of the path plus extra (for replay)."""
        self.solver.push()
        try:
            for e in extra:
                self.solver.add(zb(e))
            if self.exp_mode == "uf":
                apps = find_exp_apps(self.base + self.pc + self.side + [zb(e) for e in extra])
                if apps:
                    self.solver.add(*xf.exp_axioms(apps))
            r = self.check()
            if r != z3.sat:
                return None
            return self.solver.model()
        finally:
            self.solver.pop()

    def path_summary(self, limit=6, width=90):
        return [c.sexpr()[:width].replace("\n", " ") for c in self.pc[:limit]]


def model_env(model):
    """z3 model -> {name: python value} for eval_term."""
    env = {}
    if model is None:
        return env
    for d in model.decls():
        if d.arity() != 0:
            continue
        v = model[d]
        if z3.is_rational_value(v):
            from fractions import Fraction
            env[d.name()] = Fraction(v.numerator_as_long(), v.denominator_as_long())
        elif z3.is_int_value(v):
            env[d.name()] = v.as_long()
        elif z3.is_true(v):
            env[d.name()] = True
        elif z3.is_false(v):
            env[d.name()] = False
        elif z3.is_algebraic_value(v):
            from fractions import Fraction
            a = v.approx(20)
            env[d.name()] = Fraction(a.numerator_as_long(), a.denominator_as_long())
    return env


class DefaultEnv(dict):
    """env that completes missing variables with 0 / False (model completion)."""

    def __missing__(self, k):
        return False if k.endswith(("#nan", "#pinf", "#ninf")) or k.startswith(("b!", "vis", "pres")) else 0
