"""CLI:  python -m symx.run <Cxx> <quick|thorough>   |   python -m symx.run --replay <file>

Exit codes: 0 every registered obligation unsat on every explored path (KNOWN-FINDING lines allowed);
            1 a replayed violation that known_findings.json does not list (VIOLATION line printed);
            2 inconclusive (solver unknown, EngineGap, harness error, non-reproducing model)."""
from __future__ import annotations
import os, sys, json, time, importlib, concurrent.futures as cf, multiprocessing as mp
from . import harness as H

REGISTRY = {
    "C01": "props.c01_confmaps", "C02": "props.c02_coords", "C04": "props.c04_registration", "C05": "props.c05_pafs",
    "C06": "props.c06_local_peaks", "C07": "props.c07_global_peaks", "C08": "props.c08_grouping", "C09": "props.c09_tracking",
    "C10": "props.c10_identity", "C11": "props.c11_labels", "C12": "props.c12_batch", "C13": "props.c13_readers", "C14": "props.c14_shapes",
    "C15": "props.c15_oks", "C16": "props.c16_metrics", "C17": "props.c17_toposort", "C18": "props.c18_pipelines",
    "C20": "props.c20_config",
}


def do_replay(path):
    H.import_shim()
    with open(path) as f:
        body = json.load(f)
    mod = importlib.import_module(body["module"])
    ok, detail = mod.replay(body["config"], body["inputs"], body["obligation"])
    print(detail)
    print("REPLAY: REPRODUCED" if ok else "REPLAY: NOT-REPRODUCED")
    return 1 if ok else 0


def main(argv):
    if argv and argv[0] == "--replay":
        return do_replay(argv[1])
    if len(argv) >= 3 and argv[1] == "--replay":
        return do_replay(argv[2])
    prop = argv[0]
    tier = argv[1] if len(argv) > 1 else os.environ.get("VERIF_TIER", "quick")
    seed = int(os.environ.get("VERIF_SEED", "0"))
    jobs = int(os.environ.get("VERIF_JOBS", str(min(16, os.cpu_count() or 4))))
    modname = REGISTRY[prop]
    t0 = time.time()
    H.import_shim()
    mod = importlib.import_module(modname)
    cfgs = mod.configs(tier, seed)
    if "--only" in argv:
        sel = [int(x) for x in argv[argv.index("--only") + 1].split(",")]
        cfgs = [cfgs[i] for i in sel]
    if "--list" in argv:
        for i, c in enumerate(cfgs):
            print(i, json.dumps(c))
        return 0
    budget = getattr(mod, "BUDGET_S", {"quick": 900, "thorough": 7200})[tier]
    print(f"[{prop}] tier={tier} seed={seed} configs={len(cfgs)} jobs={jobs}", flush=True)
    results = []
    harness_errors = []
    ctx = mp.get_context("spawn")
    # one scratch directory per run, owned and removed by this process (multiprocessing children end in os._exit: their atexit hooks never run)
    import tempfile, shutil, atexit
    scratch = tempfile.mkdtemp(prefix="symx_run_")
    os.environ["SYMX_SCRATCH"] = scratch
    atexit.register(shutil.rmtree, scratch, True)
    with cf.ProcessPoolExecutor(max_workers=max(1, min(jobs, len(cfgs))), mp_context=ctx) as pool:
        futs = {pool.submit(H.worker, (modname, c)): c for c in cfgs}
        try:
            for fu in cf.as_completed(futs, timeout=budget):
                try:
                    r = fu.result()
                except Exception as e:  # noqa
                    r = {"config": H.jsonable(futs[fu]), "harness_error": f"worker died: {type(e).__name__}: {e}", "paths": 0, "obligations": {},
                         "violations": [], "inconclusive": [{"obligation": "*", "why": "worker died"}], "samples": [], "witnesses": {},
                         "queries": 0, "solver_s": 0.0, "wall_s": 0.0}
                results.append(r)
                if r.get("harness_error"):
                    harness_errors.append(r)
                    print(f"[{prop}] HARNESS-ERROR cfg={json.dumps(r['config'])[:200]}: {r['harness_error']}\n{r.get('traceback', '')}", flush=True)
        except cf.TimeoutError:
            for fu, c in futs.items():
                if not fu.done():
                    fu.cancel()
                    results.append({"config": H.jsonable(c), "harness_error": "budget exceeded", "paths": 0, "obligations": {}, "violations": [],
                                    "inconclusive": [{"obligation": "*", "why": f"configuration did not finish within {budget}s"}],
                                    "samples": [], "witnesses": {}, "queries": 0, "solver_s": 0.0, "wall_s": 0.0})
            for p in list(getattr(pool, "_processes", {}).values()):
                try:
                    p.kill()
                except Exception:
                    pass
    # ---- aggregate
    obl = {}
    for r in results:
        for k, o in r.get("obligations", {}).items():
            a = obl.setdefault(k, {"queries": 0, "unsat": 0, "sat": 0, "unknown": 0, "seconds": 0.0})
            for kk in ("queries", "unsat", "sat", "unknown"):
                a[kk] += o.get(kk, 0)
            a["seconds"] = round(a["seconds"] + o.get("seconds", 0.0), 3)
    inconclusive = [dict(i, config=r["config"]) for r in results for i in r.get("inconclusive", [])]
    witnesses = {}
    for r in results:
        for k, v in r.get("witnesses", {}).items():
            witnesses[k] = witnesses.get(k, False) or v
    vac_fail = [k for k, v in witnesses.items() if not v]
    required = getattr(mod, "REQUIRED_WITNESSES", [])
    vac_fail += [k for k in required if k not in witnesses]
    # ---- violations: replay each distinct (signature) once per config, then classify
    n_viol = 0
    known_lines = []
    viol_lines = []
    seen_sig = {}
    for r in results:
        for v in r.get("violations", []):
            seen_sig.setdefault(v["signature"], []).append((r["config"], v))
    unreproduced = []
    for sig, items in sorted(seen_sig.items()):
        reproduced = None
        path = None
        for cfg, v in items[:3]:  # try up to three models per signature
            path = H.write_replay(prop, modname, cfg, v)
            ok, out = H.run_replay_subprocess(path)
            if ok:
                reproduced = (path, v)
                break
            try:
                os.remove(path)
            except OSError:
                pass
        if reproduced is None:
            unreproduced.append({"signature": sig, "count": len(items), "description": items[0][1]["description"]})
            continue
        path, v = reproduced
        k = H.match_known(prop, sig)
        if k is not None:
            known_lines.append(f"KNOWN-FINDING: property={prop} {k.get('what', sig)} [signature={sig}; {len(items)} model(s); replay={path}]")
        else:
            n_viol += 1
            viol_lines.append((f"VIOLATION property={prop} replay={path}", f"  signature={sig} obligation={v['obligation']}: {v['description']} ({len(items)} model(s))"))
    # ---- evidence
    funcs = H.source_hashes(getattr(mod, "FUNCTIONS", []))
    paths = sum(r.get("paths", 0) for r in results)
    nontrivial = sum(r.get("nontrivial_paths", r.get("paths", 0)) for r in results)
    samples = []
    for r in results:
        for s in r.get("samples", [])[:1]:
            if len(samples) < 6:
                samples.append({"config": r["config"], "case": s})
    if not samples:
        samples = [{"config": r["config"], "obligations": list(r.get("obligations", {}))} for r in results[:3]]
    n_obl = sum(o["queries"] for o in obl.values())
    n_dis = sum(o["unsat"] for o in obl.values())
    wall = time.time() - t0
    coverage = {
        "explanation": getattr(mod, "EXPLANATION", "") + " Verdicts are z3 results over all values within the stated bounds; nothing outside the bounds is claimed.",
        "functions_encoded": funcs,
        "bounds": getattr(mod, "bounds", lambda t: {})(tier),
        "configurations": len(cfgs),
        "paths_explored": paths,
        "evaluations": max(paths, len(cfgs)),
        "distinct_nontrivial": nontrivial,
        "rule": getattr(mod, "RULE", "one evaluation = one feasible symbolic path (distinct path condition) of the real code for one configuration; non-trivial = the path condition contains at least one solver-decided branch or the path carries at least one discharged obligation"),
        "obligations": n_obl, "discharged": n_dis,
        "obligation_table": obl,
        "queries_total": sum(r.get("queries", 0) for r in results), "solver_seconds": round(sum(r.get("solver_s", 0.0) for r in results), 2),
        "vacuity_witnesses": witnesses,
        "inconclusive": inconclusive[:20], "unreproduced_models": unreproduced[:20],
        "known_findings_reported": known_lines, "samples": samples,
        "stubs_and_shims": getattr(mod, "STUBS", []), "outside_claim": getattr(mod, "OUTSIDE", []),
        "exhaustive": False,
    }
    H.write_evidence(prop, tier, seed, wall, coverage, getattr(mod, "ASSUMPTIONS", []), n_viol)
    # ---- report
    for k, o in sorted(obl.items()):
        print(f"[{prop}] obligation {k}: queries={o['queries']} unsat={o['unsat']} sat={o['sat']} unknown={o['unknown']} solver_s={o['seconds']}")
    print(f"[{prop}] paths={paths} queries={coverage['queries_total']} solver_s={coverage['solver_seconds']} wall_s={wall:.1f}")
    slow = sorted(results, key=lambda r: -r.get("wall_s", 0))[:3]
    print(f"[{prop}] slowest configs: " + "; ".join(f"{r.get('wall_s', 0)}s {json.dumps(r['config'])[:120]}" for r in slow))
    if "--verbose" in argv:
        for r in results:
            print(json.dumps(r, indent=1)[:6000])
    for l in known_lines:
        print(l)
    for a, b in viol_lines:
        print(a)
        print(b)
    if n_viol:
        return H.EXIT_VIOLATION
    if inconclusive or unreproduced or harness_errors or vac_fail:
        for i in inconclusive[:10]:
            print(f"[{prop}] INCONCLUSIVE {i['obligation']}: {i['why']} cfg={json.dumps(i['config'])[:160]}")
        for u in unreproduced[:10]:
            print(f"[{prop}] INCONCLUSIVE model for '{u['signature']}' did not reproduce against the real code ({u['description']})")
        for k in vac_fail:
            print(f"[{prop}] INCONCLUSIVE vacuity witness missing: {k}")
        return H.EXIT_INCONCLUSIVE
    print(f"[{prop}] OK: {n_dis}/{n_obl} obligations discharged (unsat) on {paths} paths")
    return H.EXIT_OK


if __name__ == "__main__":
    sys.exit(main(sys.argv[1:]))
