"""Differential validation of the symbolic front ends: run a function symbolically with every input pinned to a
concrete value, evaluate the resulting terms, and compare with what real torch / numpy computes."""
from __future__ import annotations
import math
import z3
from .xf import XF, SB, SI, eval_xf, Q
from .explorer import Explorer, model_env, DefaultEnv


def _close(a, b, tol):
    if isinstance(a, bool) or isinstance(b, bool):
        return bool(a) == bool(b)
    a = float(a)
    b = float(b)
    if a != a or b != b:
        return a != a and b != b
    if math.isinf(a) or math.isinf(b):
        return a == b
    return abs(a - b) <= tol * max(1.0, abs(a), abs(b))


def differential(fn, tensors, tol=1e-4, exp_mode="uf", real_fn=None):
    """fn: callable over torch tensors (run symbolically); real_fn (default fn) is run on the real tensors.  -> (ok, detail)"""
    import torch
    from torch.utils._pytree import tree_flatten
    from . import torchfe as T
    real = (real_fn or fn)(*[t.clone() for t in tensors])
    base = []
    env = {}
    specs = []
    for k, t in enumerate(tensors):
        flat = t.reshape(-1).tolist()
        specs.append((f"in{k}", tuple(t.shape), t.dtype))
        if not t.dtype.is_floating_point:
            continue
        for i, x in enumerate(flat):
            name = f"in{k}_{i}"
            isn = x != x
            env[name] = 0 if isn else x
            env[name + "#nan"] = isn
            base.append(z3.Bool(name + "#nan") == isn)
            if not isn:
                base.append(z3.Real(name) == Q(x))
    ex = Explorer(base, exp_mode=exp_mode)

    def path():
        with T.SymMode():
            args = []
            for (name, shape, dt), t in zip(specs, tensors):
                if dt.is_floating_point:
                    args.append(T.sym_float_tensor(name, shape, may_nan=True, dtype=dt))
                else:
                    args.append(t.clone())
            return fn(*args)
    outs = list(ex.run(path))
    if len(outs) != 1:
        return False, f"pinned inputs produced {len(outs)} feasible paths"
    fenv = DefaultEnv(env)
    m = ex.full_model() if False else None
    sym_flat = tree_flatten(outs[0])[0]
    real_flat = tree_flatten(real)[0]
    if len(sym_flat) != len(real_flat):
        return False, f"output arity {len(sym_flat)} != {len(real_flat)}"
    memo = {}
    for so, ro in zip(sym_flat, real_flat):
        if isinstance(ro, torch.Tensor):
            if not isinstance(so, torch.Tensor) or tuple(so.shape) != tuple(ro.shape):
                return False, f"shape {getattr(so, 'shape', None)} != {tuple(ro.shape)}"
            sv = so.values() if isinstance(so, T.SymTensor) else so.reshape(-1).tolist()
            rv = ro.reshape(-1).tolist()
            for a, b in zip(sv, rv):
                try:
                    av = eval_xf(a, fenv, memo)
                except KeyError as e:  # fresh variable (sqrt): take it from a model of the path
                    mm = ex.full_model()
                    fenv = DefaultEnv({**model_env(mm), **env})
                    memo = {}
                    av = eval_xf(a, fenv, memo)
                if not _close(av, b, tol):
                    return False, f"value {av} != real {b}"
        else:
            if isinstance(so, (XF, SB, SI)):
                so = eval_xf(so, fenv, memo)
            if not _close(so, ro, tol) if isinstance(ro, (int, float)) else so != ro:
                return False, f"scalar {so} != {ro}"
    return True, "ok"
