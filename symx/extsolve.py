"""External solver portfolio: the system z3 4.8.12 binary (/usr/bin/z3) decides some nonlinear-real queries in
under a second that the z3 5.1 wheel needs 15 s+ for (and vice versa).  Used only after the in-process solver
gave up within its fast budget; any `(error` in the output makes the answer inconclusive."""
from __future__ import annotations
import os, subprocess, tempfile, re, time
from fractions import Fraction

Z3_OLD = "/usr/bin/z3"


def _tokens(s):
    return re.findall(r"\(|\)|[^\s()]+", s)


def _parse(tokens, pos=0):
    if tokens[pos] == "(":
        out = []
        pos += 1
        while tokens[pos] != ")":
            v, pos = _parse(tokens, pos)
            out.append(v)
        return out, pos + 1
    return tokens[pos], pos + 1


def _num(e):
    if isinstance(e, str):
        e = e.rstrip("?")
        if e == "true":
            return True
        if e == "false":
            return False
        return Fraction(e)
    if e[0] == "-" and len(e) == 2:
        return -_num(e[1])
    if e[0] == "/":
        return _num(e[1]) / _num(e[2])
    if e[0] == "+":
        return sum(_num(x) for x in e[1:])
    if e[0] == "*":
        r = Fraction(1)
        for x in e[1:]:
            r *= _num(x)
        return r
    raise ValueError(f"model value {e}")


def solve_smt2(assertions_sexpr, timeout_s=60, logic=None, want_model=True):
    """assertions_sexpr: output of z3.Solver.sexpr() (declarations + asserts).  -> (status, env|None, seconds)"""
    if not os.path.exists(Z3_OLD):
        return "unknown", None, 0.0
    text = ""
    if logic:
        text += f"(set-logic {logic})\n"
    text += "(set-option :pp.decimal true)\n(set-option :pp.decimal_precision 30)\n" + assertions_sexpr + "\n(check-sat)\n"
    if want_model:
        text += "(get-model)\n"
    fd, path = tempfile.mkstemp(suffix=".smt2", prefix="symx_")
    t = time.time()
    try:
        with os.fdopen(fd, "w") as f:
            f.write(text)
        try:
            p = subprocess.run([Z3_OLD, f"-T:{int(timeout_s)}", path], capture_output=True, text=True, timeout=timeout_s + 10)
        except subprocess.TimeoutExpired:
            return "unknown", None, time.time() - t
        out = p.stdout
    finally:
        try:
            os.remove(path)
        except OSError:
            pass
    dt = time.time() - t
    first = out.strip().split("\n", 1)[0].strip() if out.strip() else ""
    if first == "unsat":
        if "(error" in out.split("\n", 1)[0]:
            return "unknown", None, dt
        return "unsat", None, dt
    if first == "sat":
        env = {}
        try:
            body = out.split("\n", 1)[1] if "\n" in out else ""
            body = body[body.index("("):]
            tree, _ = _parse(_tokens(body))
            for d in tree:
                if isinstance(d, list) and d and d[0] == "define-fun" and d[2] == []:
                    try:
                        env[d[1].strip("|")] = _num(d[4])
                    except Exception:
                        pass
        except Exception:
            return "sat", None, dt
        return "sat", env, dt
    return "unknown", None, dt
