"""CrossHair (0.0.110) in-process runner: symbolic execution of pure-Python code under PEP-316 contracts, with
z3 query/time accounting.  'Confirmed over all paths' is the only passing state; anything else is inconclusive
except a post-condition failure, whose counterexample call is parsed out for concrete replay."""
from __future__ import annotations
import ast, re, time
import z3

_CNT = {"n": 0, "t": 0.0}
_WRAPPED = False


def _wrap_solver():
    global _WRAPPED
    if _WRAPPED:
        return
    orig = z3.Solver.check

    def chk(self, *a):
        t = time.perf_counter()  # not time.time(): CrossHair models that one as a symbolic value while tracing
        r = orig(self, *a)
        _CNT["n"] += 1
        _CNT["t"] += time.perf_counter() - t
        return r
    z3.Solver.check = chk
    _WRAPPED = True


def run_contract(fn, per_condition_timeout=120, per_path_timeout=30):
    """-> dict(state, message, queries, solver_s, seconds, counterexample)"""
    _wrap_solver()
    from crosshair.core_and_libs import analyze_function, run_checkables
    from crosshair.options import AnalysisOptionSet
    opts = AnalysisOptionSet(per_condition_timeout=per_condition_timeout, report_all=True, max_uninteresting_iterations=10 ** 9, per_path_timeout=per_path_timeout)
    n0, t0 = _CNT["n"], _CNT["t"]
    w0 = time.perf_counter()
    msgs = list(run_checkables(analyze_function(fn, opts)))
    out = {"queries": _CNT["n"] - n0, "solver_s": round(_CNT["t"] - t0, 3), "seconds": round(time.perf_counter() - w0, 2), "messages": []}
    states = []
    for m in msgs:
        st = m.state.name if hasattr(m.state, "name") else str(m.state)
        states.append(st)
        out["messages"].append({"state": st, "message": (m.message or "")[:600]})
    if not states:
        out["state"] = "NO_CONDITIONS"
    elif all(s == "CONFIRMED" for s in states):
        out["state"] = "CONFIRMED"
    elif any(s in ("POST_FAIL", "POST_ERR", "EXEC_ERR") for s in states):
        out["state"] = "REFUTED"
        bad = next(m for m in out["messages"] if m["state"] in ("POST_FAIL", "POST_ERR", "EXEC_ERR"))
        out["message"] = bad["message"]
        out["counterexample"] = parse_call(bad["message"], fn.__name__, fn)
    else:
        out["state"] = "INCONCLUSIVE:" + ",".join(sorted(set(states)))
    return out


def parse_call(message, fname, fn=None):
    """'... when calling f(a = 1, b = [2])' -> {'a': 1, 'b': [2]} (None when it cannot be parsed literally)."""
    i = message.find(fname + "(")
    if i < 0:
        return None
    depth = 0
    j = i + len(fname)
    for k in range(j, len(message)):
        if message[k] == "(":
            depth += 1
        elif message[k] == ")":
            depth -= 1
            if depth == 0:
                src = message[i:k + 1]
                break
    else:
        return None
    try:
        call = ast.parse(src, mode="eval").body
        kw = {k.arg: ast.literal_eval(k.value) for k in call.keywords}
        args = [ast.literal_eval(a) for a in call.args]
        if fn is not None and args:  # bind positional arguments to their parameter names
            import inspect
            names = list(inspect.signature(fn).parameters)
            for n, v in zip(names, args):
                kw.setdefault(n, v)
            args = []
        return {"kwargs": kw, "args": args, "src": src}
    except Exception:
        return {"src": src}
