"""Float64 slices of real Python source.

The main engine computes in exact reals (xf.py).  Where a property says "up to rounding" or depends on a float landing
exactly on a grid value (recall reaching 1.0), the scalar arithmetic that feeds the comparison is lifted from the CURRENT
source of the function by an AST pass and re-interpreted in IEEE-754 binary64 (z3 FloatingPoint, round-nearest-even):

    slice = FloatSlice(fn, inputs={"tp": ..., "npig": ...}, targets=["rc", "pr"])
    slice.exprs["rc"]      -> z3 FP term over the inputs
    slice.concrete(env)    -> the same assignments executed by real Python/numpy on concrete inputs (used by replays)

Supported: names, int/float constants, + - * / and unary minus, conditional expressions, comparisons / truthiness of a
number in a condition, float()/np.float64(), np.spacing(1), np.divide/true_divide/multiply/add/subtract, np.maximum/np.minimum.
A name in the slice must be assigned exactly once in the function (Name target; subscript stores are not assignments to the
name): anything else raises EngineGap and the caller reports the obligation as inconclusive.
Integer-valued inputs are modelled as binary64 values constrained to be integral and below 2**53, where Python/numpy integer
+, -, * are exact in binary64 as well; true division of integers converts to binary64 first, as numpy does."""
from __future__ import annotations
import ast, inspect, textwrap
import z3
from .xf import EngineGap

F64 = z3.Float64()
RM = z3.RNE()


def fpval(x):
    return z3.FPVal(float(x), F64)


def is_integral(x, lo, hi):
    return z3.And(z3.fpRoundToIntegral(RM, x) == x, z3.fpGEQ(x, fpval(lo)), z3.fpLEQ(x, fpval(hi)))


class FloatSlice:
    def __init__(self, fn, inputs, targets):
        self.fn = fn
        self.inputs = dict(inputs)
        src = textwrap.dedent(inspect.getsource(fn))
        self.tree = ast.parse(src).body[0]
        self.assigns = {}
        for node in ast.walk(self.tree):
            if isinstance(node, ast.Assign):
                for t in node.targets:
                    for nm in self._names(t):
                        self.assigns.setdefault(nm, []).append(node)
            elif isinstance(node, (ast.AugAssign, ast.AnnAssign)) and isinstance(node.target, ast.Name):
                self.assigns.setdefault(node.target.id, []).append(node)
            elif isinstance(node, (ast.For, ast.comprehension)):
                for nm in self._names(node.target):
                    self.assigns.setdefault(nm, []).append(node)
        self.order = []  # (name, ast expr) in dependency order
        self.exprs = {}
        self._memo = {}
        for t in targets:
            self.exprs[t] = self._name(t)

    @staticmethod
    def _names(t):
        if isinstance(t, ast.Name):
            return [t.id]
        if isinstance(t, (ast.Tuple, ast.List)):
            out = []
            for e in t.elts:
                out += FloatSlice._names(e)
            return out
        return []  # subscript / attribute stores do not rebind the name

    def _name(self, nm):
        if nm in self.inputs:
            return self.inputs[nm]
        if nm in self._memo:
            return self._memo[nm]
        a = self.assigns.get(nm, [])
        if len(a) != 1 or not isinstance(a[0], ast.Assign) or len(a[0].targets) != 1 or not isinstance(a[0].targets[0], ast.Name):
            raise EngineGap(f"float slice: '{nm}' is not a single plain assignment in {self.fn.__qualname__} ({len(a)} binding(s))")
        e = self._expr(a[0].value)
        self._memo[nm] = e
        self.order.append((nm, a[0].value))
        return e

    def _cond(self, node):
        if isinstance(node, ast.Compare) and len(node.ops) == 1:
            a, b = self._expr(node.left), self._expr(node.comparators[0])
            op = node.ops[0]
            tab = {ast.Lt: z3.fpLT, ast.LtE: z3.fpLEQ, ast.Gt: z3.fpGT, ast.GtE: z3.fpGEQ, ast.Eq: z3.fpEQ}
            if type(op) in tab:
                return tab[type(op)](a, b)
            if isinstance(op, ast.NotEq):
                return z3.Not(z3.fpEQ(a, b))
        if isinstance(node, ast.BoolOp):
            parts = [self._cond(v) for v in node.values]
            return z3.And(*parts) if isinstance(node.op, ast.And) else z3.Or(*parts)
        if isinstance(node, ast.UnaryOp) and isinstance(node.op, ast.Not):
            return z3.Not(self._cond(node.operand))
        if isinstance(node, (ast.Name, ast.Constant, ast.BinOp)):
            v = self._expr(node)  # truthiness of a number
            return z3.Not(z3.fpEQ(v, fpval(0.0)))
        raise EngineGap(f"float slice: condition {ast.dump(node)[:80]} not supported")

    def _call_name(self, f):
        if isinstance(f, ast.Name):
            return f.id
        if isinstance(f, ast.Attribute) and isinstance(f.value, ast.Name) and f.value.id in ("np", "numpy", "math"):
            return "np." + f.attr
        return None

    def _expr(self, node):
        if isinstance(node, ast.Constant) and isinstance(node.value, (int, float)) and not isinstance(node.value, bool):
            return fpval(node.value)
        if isinstance(node, ast.Name):
            return self._name(node.id)
        if isinstance(node, ast.UnaryOp) and isinstance(node.op, ast.USub):
            return z3.fpNeg(self._expr(node.operand))
        if isinstance(node, ast.UnaryOp) and isinstance(node.op, ast.UAdd):
            return self._expr(node.operand)
        if isinstance(node, ast.BinOp):
            a, b = self._expr(node.left), self._expr(node.right)
            tab = {ast.Add: z3.fpAdd, ast.Sub: z3.fpSub, ast.Mult: z3.fpMul, ast.Div: z3.fpDiv}
            if type(node.op) in tab:
                return tab[type(node.op)](RM, a, b)
            raise EngineGap(f"float slice: operator {type(node.op).__name__} not supported")
        if isinstance(node, ast.IfExp):
            return z3.If(self._cond(node.test), self._expr(node.body), self._expr(node.orelse))
        if isinstance(node, ast.Call) and not node.keywords:
            nm = self._call_name(node.func)
            args = node.args
            if nm in ("float", "np.float64") and len(args) == 1:
                return self._expr(args[0])
            if nm == "np.spacing" and len(args) == 1 and isinstance(args[0], ast.Constant) and args[0].value in (1, 1.0):
                return fpval(2.0 ** -52)
            two = {"np.divide": z3.fpDiv, "np.true_divide": z3.fpDiv, "np.multiply": z3.fpMul, "np.add": z3.fpAdd, "np.subtract": z3.fpSub}
            if nm in two and len(args) == 2:
                return two[nm](RM, self._expr(args[0]), self._expr(args[1]))
            if nm in ("np.maximum", "max") and len(args) == 2:
                a, b = self._expr(args[0]), self._expr(args[1])
                return z3.If(z3.fpGEQ(a, b), a, b)
            if nm in ("np.minimum", "min") and len(args) == 2:
                a, b = self._expr(args[0]), self._expr(args[1])
                return z3.If(z3.fpLEQ(a, b), a, b)
        raise EngineGap(f"float slice: expression {ast.dump(node)[:100]} not supported")

    # ------------------------------------------------------------------ concrete twin (replay)
    def concrete(self, env):
        """execute the sliced assignments (current source text) with real Python/numpy on concrete inputs -> dict of all slice names"""
        import numpy as np
        g = {"np": np, "numpy": np, "float": float, "max": max, "min": min}
        g.update(env)
        for nm, e in self.order:
            g[nm] = eval(compile(ast.Expression(body=e), f"<slice {self.fn.__qualname__}:{nm}>", "eval"), g)
        return g

    def source(self):
        return {nm: ast.unparse(e) for nm, e in self.order}


def fp_model_value(model, var):
    """binary64 model value of an FP variable as a Python float"""
    v = model.eval(var, model_completion=True)
    if z3.is_fp(v):
        if z3.is_fprm_value(v):
            raise ValueError("rounding mode")
        try:
            if v.isNaN():
                return float("nan")
            if v.isInf():
                return float("-inf") if v.isNegative() else float("inf")
        except Exception:  # noqa
            pass
        s = v.sign()
        sig = v.significand_as_long()
        e = v.exponent_as_long(biased=True)
        bits = ((1 if s else 0) << 63) | (e << 52) | sig
        import struct
        return struct.unpack("<d", struct.pack("<Q", bits))[0]
    raise ValueError(f"not an FP value: {v}")
