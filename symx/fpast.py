"""Float64 slices of real Python source.

The main engine computes in exact reals (xf.py).  Where a property says "up to rounding" or depends on a float landing
exactly on a grid value (recall reaching 1.0), the scalar arithmetic that feeds the comparison is lifted from the CURRENT
source of the function by an AST pass and re-interpreted in IEEE-754 binary64 (z3 FloatingPoint, round-nearest-even):

    slice = FloatSlice(fn, inputs={"tp": ..., "npig": ...}, targets=["rc", "pr"])
    slice.exprs["rc"]      -> z3 FP term over the inputs
    slice.concrete(env)    -> the same assignments executed by real Python/numpy on concrete inputs (used by replays)

Supported: names, int/float constants, + - * / ** 2 and unary minus, conditional expressions, comparisons / truthiness of a
number in a condition, float()/np.float64(), np.spacing(x) (via the IEEE bit pattern), np.sqrt/abs, np.reshape/np.full (identity
in the element-wise model), np.divide/true_divide/multiply/add/subtract, np.maximum/np.minimum.  The body is interpreted
sequentially (see FloatSlice); whatever is not translatable poisons the names it binds, and a poisoned target raises EngineGap,
which the caller reports as inconclusive.
Integer-valued inputs are modelled as binary64 values constrained to be integral and below 2**53, where Python/numpy integer
+, -, * are exact in binary64 as well; true division of integers converts to binary64 first, as numpy does."""
from __future__ import annotations
import ast, inspect, textwrap
import z3
from .xf import EngineGap

F64 = z3.Float64()
RM = z3.RNE()


F32 = z3.Float32()


def fpval(x, sort=None):
    return z3.FPVal(float(x), F64 if sort is None else sort)


def is_integral(x, lo, hi):
    return z3.And(z3.fpRoundToIntegral(RM, x) == x, z3.fpGEQ(x, fpval(lo)), z3.fpLEQ(x, fpval(hi)))


class _Poison:
    def __init__(self, why):
        self.why = why


def fp_spacing(x):
    """numpy.spacing(x) for finite x: distance from |x| to the next representable value away from zero (sign of x)."""
    ax = z3.fpAbs(x)
    srt = x.sort()
    nxt = z3.fpBVToFP(z3.fpToIEEEBV(ax) + z3.BitVecVal(1, srt.ebits() + srt.sbits()), srt)
    d = z3.fpSub(RM, nxt, ax)  # exact
    return z3.If(z3.fpIsNegative(x), z3.fpNeg(d), d)


class FloatSlice:
    """Sequential interpretation of the function body (current source): plain assignments whose right-hand side is translatable update a
    binary64 environment; `if` statements whose test is decided by ``consts`` follow that branch, other `if`s poison what either branch
    assigns; loop bodies are interpreted once after poisoning everything they assign (so a loop-carried value cannot be mistaken for a
    fresh one); names given as ``inputs`` stay free symbols.  ``exprs[target]`` is the value at the end; a poisoned or untranslatable
    target raises EngineGap."""

    def __init__(self, fn, inputs, targets, consts=None, sort=None, subs=None):
        """sort: the floating-point format every value is computed in (default binary64; Float32 for torch.float32 tensor arithmetic);
        subs: {source text of a sub-expression (as ast.unparse prints it) -> term}, e.g. tensor subscripts the caller supplies;
        the target "<return>" is the function's (last) return expression.  Tuples / lists / torch.stack / torch.tensor build nested tuples,
        arithmetic on them is element-wise with scalar broadcasting."""
        self.fn = fn
        self.inputs = dict(inputs)
        self.consts = dict(consts or {})
        self.sort = F64 if sort is None else sort
        self.subs = dict(subs or {})
        src = textwrap.dedent(inspect.getsource(fn))
        self.tree = ast.parse(src).body[0]
        self.env = {}
        self.order = []  # (name, ast expr) in execution order along the chosen path
        self._block(self.tree.body)
        self.exprs = {}
        for t in targets:
            v = self.env.get(t)
            if v is None:
                raise EngineGap(f"float slice: '{t}' is never assigned in {fn.__qualname__}")
            if isinstance(v, _Poison):
                raise EngineGap(f"float slice: '{t}' in {fn.__qualname__}: {v.why}")
            self.exprs[t] = v

    # ------------------------------------------------------------------ statements
    @staticmethod
    def _names(t):
        if isinstance(t, ast.Name):
            return [t.id]
        if isinstance(t, (ast.Tuple, ast.List)):
            out = []
            for e in t.elts:
                out += FloatSlice._names(e)
            return out
        return []  # subscript / attribute stores do not rebind the name

    def _assigned(self, stmts):
        out = set()
        for st in stmts:
            for node in ast.walk(st):
                if isinstance(node, ast.Assign):
                    for t in node.targets:
                        out.update(self._names(t))
                elif isinstance(node, (ast.AugAssign, ast.AnnAssign)):
                    out.update(self._names(node.target))
                elif isinstance(node, (ast.For, ast.comprehension)):
                    out.update(self._names(node.target))
                elif isinstance(node, ast.NamedExpr):
                    out.update(self._names(node.target))
        return out

    def _poison(self, names, why):
        for nm in names:
            if nm not in self.inputs:
                self.env[nm] = _Poison(why)

    def _const_test(self, node):
        """-> True / False when decided by consts, else None"""
        if isinstance(node, ast.Name) and node.id in self.consts:
            return bool(self.consts[node.id])
        if isinstance(node, ast.UnaryOp) and isinstance(node.op, ast.Not):
            v = self._const_test(node.operand)
            return None if v is None else (not v)
        if isinstance(node, ast.Compare) and len(node.ops) == 1 and isinstance(node.left, ast.Name) and node.left.id in self.consts and isinstance(node.comparators[0], ast.Constant):
            a, b = self.consts[node.left.id], node.comparators[0].value
            op = node.ops[0]
            if isinstance(op, (ast.Is, ast.Eq)):
                return a is b if isinstance(op, ast.Is) else a == b
            if isinstance(op, (ast.IsNot, ast.NotEq)):
                return a is not b if isinstance(op, ast.IsNot) else a != b
        return None

    def _block(self, stmts):
        for st in stmts:
            if isinstance(st, ast.Assign) and len(st.targets) == 1 and isinstance(st.targets[0], ast.Name):
                nm = st.targets[0].id
                if nm in self.inputs:
                    continue
                try:
                    self.env[nm] = self._expr(st.value)
                    self.order.append((nm, st.value))
                except EngineGap as e:
                    self.env[nm] = _Poison(str(e))
            elif isinstance(st, ast.AugAssign) and isinstance(st.target, ast.Name):
                nm = st.target.id
                if nm in self.inputs:
                    continue
                try:
                    e = ast.BinOp(left=ast.Name(id=nm, ctx=ast.Load()), op=st.op, right=st.value)
                    self.env[nm] = self._expr(e)
                    self.order.append((nm, ast.fix_missing_locations(ast.copy_location(e, st))))
                except EngineGap as e2:
                    self.env[nm] = _Poison(str(e2))
            elif isinstance(st, (ast.Assign, ast.AnnAssign)):
                tg = st.targets if isinstance(st, ast.Assign) else [st.target]
                for t in tg:
                    self._poison(self._names(t), "assigned by an unsupported statement form")
            elif isinstance(st, ast.If):
                c = self._const_test(st.test)
                if c is True:
                    self._block(st.body)
                elif c is False:
                    self._block(st.orelse)
                else:
                    self._poison(self._assigned(st.body) | self._assigned(st.orelse), f"assigned under an undecided condition at line {st.lineno}")
            elif isinstance(st, (ast.For, ast.While)):
                self._poison(self._assigned([st]), f"assigned inside the loop at line {st.lineno} before its definition there")
                self._block(st.body)
            elif isinstance(st, ast.Return) and st.value is not None:
                try:
                    self.env["<return>"] = self._expr(st.value)
                    self.order.append(("<return>", st.value))
                except EngineGap as e:
                    self.env["<return>"] = _Poison(str(e))
            elif isinstance(st, ast.With):
                self._block(st.body)
            elif isinstance(st, ast.Try):
                self._block(st.body)
            # every other statement (expression statements, asserts, returns, raises) does not bind names

    # ------------------------------------------------------------------ expressions
    def _name(self, nm):
        if nm in self.inputs:
            return self.inputs[nm]
        v = self.env.get(nm)
        if v is None:
            raise EngineGap(f"float slice: name '{nm}' has no translatable definition before its use in {self.fn.__qualname__}")
        if isinstance(v, _Poison):
            raise EngineGap(f"float slice: '{nm}': {v.why}")
        return v

    def _cond(self, node):
        c = self._const_test(node)
        if c is not None:
            return z3.BoolVal(c)
        if isinstance(node, ast.Compare) and len(node.ops) == 1:
            a, b = self._expr(node.left), self._expr(node.comparators[0])
            op = node.ops[0]
            tab = {ast.Lt: z3.fpLT, ast.LtE: z3.fpLEQ, ast.Gt: z3.fpGT, ast.GtE: z3.fpGEQ, ast.Eq: z3.fpEQ}
            if type(op) in tab:
                return tab[type(op)](a, b)
            if isinstance(op, ast.NotEq):
                return z3.Not(z3.fpEQ(a, b))
        if isinstance(node, ast.BoolOp):
            parts = [self._cond(v) for v in node.values]
            return z3.And(*parts) if isinstance(node.op, ast.And) else z3.Or(*parts)
        if isinstance(node, ast.UnaryOp) and isinstance(node.op, ast.Not):
            return z3.Not(self._cond(node.operand))
        if isinstance(node, (ast.Name, ast.Constant, ast.BinOp)):
            v = self._expr(node)  # truthiness of a number
            return z3.Not(z3.fpEQ(v, self._fp(0.0)))
        raise EngineGap(f"float slice: condition {ast.dump(node)[:80]} not supported")

    def _call_name(self, f):
        if isinstance(f, ast.Name):
            return f.id
        if isinstance(f, ast.Attribute) and isinstance(f.value, ast.Name) and f.value.id in ("np", "numpy", "math", "torch"):
            return "np." + f.attr
        return None

    def _fp(self, x):
        return z3.FPVal(float(x), self.sort)

    def _lift(self, f, *xs):
        """apply f element-wise over nested tuples (scalars broadcast)"""
        if any(isinstance(x, tuple) for x in xs):
            n = max(len(x) for x in xs if isinstance(x, tuple))
            if any(isinstance(x, tuple) and len(x) != n for x in xs):
                raise EngineGap("float slice: element-wise operation on tuples of different lengths")
            return tuple(self._lift(f, *[(x[i] if isinstance(x, tuple) else x) for x in xs]) for i in range(n))
        return f(*xs)

    def _expr(self, node):
        if self.subs:
            key = ast.unparse(node)
            if key in self.subs:
                return self.subs[key]
        if isinstance(node, ast.Constant) and isinstance(node.value, (int, float)) and not isinstance(node.value, bool):
            return self._fp(node.value)
        if isinstance(node, (ast.Tuple, ast.List)):
            return tuple(self._expr(e) for e in node.elts)
        if isinstance(node, ast.Subscript) and isinstance(node.slice, ast.Constant) and isinstance(node.slice.value, int):
            v = self._expr(node.value)
            if isinstance(v, tuple):
                return v[node.slice.value]
        if isinstance(node, ast.Call) and isinstance(node.func, ast.Attribute) and node.func.attr in ("to", "float", "double", "tolist", "clone", "detach", "cpu") \
                and not (isinstance(node.func.value, ast.Name) and node.func.value.id in ("np", "numpy", "torch", "math")):
            return self._expr(node.func.value)  # dtype / device / container conversions do not change values in the sort of the slice
        if isinstance(node, ast.Name):
            return self._name(node.id)
        if isinstance(node, ast.UnaryOp) and isinstance(node.op, ast.USub):
            return self._lift(z3.fpNeg, self._expr(node.operand))
        if isinstance(node, ast.UnaryOp) and isinstance(node.op, ast.UAdd):
            return self._expr(node.operand)
        if isinstance(node, ast.BinOp):
            if isinstance(node.op, ast.Pow):
                if isinstance(node.right, ast.Constant) and node.right.value in (1, 2):  # numpy evaluates x**2 as x*x
                    a = self._expr(node.left)
                    return a if node.right.value == 1 else self._lift(lambda u: z3.fpMul(RM, u, u), a)
                raise EngineGap("float slice: power other than **1 / **2 not supported")
            a, b = self._expr(node.left), self._expr(node.right)
            tab = {ast.Add: z3.fpAdd, ast.Sub: z3.fpSub, ast.Mult: z3.fpMul, ast.Div: z3.fpDiv}
            if type(node.op) in tab:
                return self._lift(lambda u, v: tab[type(node.op)](RM, u, v), a, b)
            raise EngineGap(f"float slice: operator {type(node.op).__name__} not supported")
        if isinstance(node, ast.IfExp):
            return z3.If(self._cond(node.test), self._expr(node.body), self._expr(node.orelse))
        if isinstance(node, ast.Call) and self._call_name(node.func) == "np.stack" and len(node.args) == 1:
            return self._expr(node.args[0])  # torch.stack([...], dim=...) of scalars / tuples: the nested tuple (the caller indexes it in that nesting order)
        if isinstance(node, ast.Call) and not node.keywords:
            nm = self._call_name(node.func)
            args = node.args
            if nm in ("float", "np.float64", "np.asarray", "np.array", "tuple", "list", "np.Tensor", "np.tensor", "np.as_tensor") and len(args) == 1:
                return self._expr(args[0])
            if nm == "np.round" and len(args) == 1:
                return self._lift(lambda u: z3.fpRoundToIntegral(z3.RNE(), u), self._expr(args[0]))
            if nm == "int" and len(args) == 1:  # int(x): truncation toward zero (kept in the slice's float format; exact for the magnitudes in use)
                return self._lift(lambda u: z3.fpRoundToIntegral(z3.RTZ(), u), self._expr(args[0]))
            if nm in ("np.floor", "np.ceil") and len(args) == 1:
                return self._lift(lambda u: z3.fpRoundToIntegral(z3.RTN() if nm == "np.floor" else z3.RTP(), u), self._expr(args[0]))
            if nm == "np.reshape" and len(args) == 2:  # element-wise model: shape changes do not touch values
                return self._expr(args[0])
            if nm == "np.full" and len(args) == 2:
                return self._expr(args[1])
            if nm == "np.spacing" and len(args) == 1:
                if isinstance(args[0], ast.Constant) and args[0].value in (1, 1.0):
                    return self._fp(2.0 ** -52)
                return fp_spacing(self._expr(args[0]))
            if nm in ("np.sqrt", "math.sqrt") and len(args) == 1:
                return self._lift(lambda u: z3.fpSqrt(RM, u), self._expr(args[0]))
            if nm in ("np.abs", "np.absolute", "abs") and len(args) == 1:
                return self._lift(z3.fpAbs, self._expr(args[0]))
            two = {"np.divide": z3.fpDiv, "np.true_divide": z3.fpDiv, "np.multiply": z3.fpMul, "np.add": z3.fpAdd, "np.subtract": z3.fpSub}
            if nm in two and len(args) == 2:
                return two[nm](RM, self._expr(args[0]), self._expr(args[1]))
            if nm in ("np.maximum", "max") and len(args) == 2:
                a, b = self._expr(args[0]), self._expr(args[1])
                return z3.If(z3.fpGEQ(a, b), a, b)
            if nm in ("np.minimum", "min") and len(args) == 2:
                a, b = self._expr(args[0]), self._expr(args[1])
                return z3.If(z3.fpLEQ(a, b), a, b)
        raise EngineGap(f"float slice: expression {ast.dump(node)[:100]} not supported")

    # ------------------------------------------------------------------ concrete twin (replay)
    def concrete(self, env):
        """execute the sliced assignments (current source text, chosen branches) with real Python/numpy on concrete inputs -> dict of names.
        Assignments that fail on the caller's environment (they were not needed by it) are skipped."""
        import numpy as np
        g = {"np": np, "numpy": np, "float": float, "max": max, "min": min, "abs": abs}
        g.update(self.consts)
        g.update(env)
        for nm, e in self.order:
            try:
                g[nm] = eval(compile(ast.Expression(body=e), f"<slice {self.fn.__qualname__}:{nm}>", "eval"), g)
            except Exception:  # noqa
                g.pop(nm, None)
        return g

    def source(self):
        return {nm: ast.unparse(e) for nm, e in self.order}


def fp_model_value(model, var):
    """model value of an FP variable (binary32 or binary64) as a Python float"""
    v = model.eval(var, model_completion=True)
    if z3.is_fp(v):
        try:
            if v.isNaN():
                return float("nan")
            if v.isInf():
                return float("-inf") if v.isNegative() else float("inf")
        except Exception:  # noqa
            pass
        eb, sb = v.sort().ebits(), v.sort().sbits()
        s = 1 if v.sign() else 0
        sig = v.significand_as_long()
        e = v.exponent_as_long(biased=True)
        import struct
        if (eb, sb) == (11, 53):
            return struct.unpack("<d", struct.pack("<Q", (s << 63) | (e << 52) | sig))[0]
        if (eb, sb) == (8, 24):
            return struct.unpack("<f", struct.pack("<I", (s << 31) | (e << 23) | sig))[0]
    raise ValueError(f"not an FP value: {v}")
