"""Symbolic torch front end: run the *real* torch code of sleap-nn over tensors whose elements are terms.

Design (DESIGN.md 1.2):
  * every tensor seen inside ``SymMode`` is a ``SymTensor`` wrapper subclass = (Box, idx, dtype).
    ``Box`` is the storage: either a concrete 1-D torch tensor, or a 1-D int64 tensor of ids into the term
    store.  ``idx`` is a real torch *view* of ``arange(numel(storage))``, so every view op (select, slice,
    permute, expand, unfold ...) is executed by real torch on ``idx`` and **aliases exactly as in torch**:
    an in-place write through a view is visible through every other view of the same Box.
  * ops whose inputs are all concrete run the real aten kernel on real (aliasing) views of the storage;
  * ops with a symbolic input go to a handler that builds terms element-wise (or, for pure data movement,
    runs the real kernel on the id tensor);  no handler => EngineGap (inconclusive, never pass/fail).
  * value dependent control flow (bool(), item(), nonzero, mask indexing) goes to the path explorer.
"""
from __future__ import annotations
import math, itertools, functools
from fractions import Fraction
import numpy as _np
import torch, z3
from torch.utils._pytree import tree_map, tree_flatten
from torch.utils._python_dispatch import TorchDispatchMode, _disable_current_modes
from . import xf
from .xf import (XF, SB, SI, isz, And, Or, Not, BIte, RIte, IIte, Xor, EngineGap, Infeasible, CTX,
                 xadd, xsub, xmul, xdiv, xneg, xabs, xcmp, xite, xmax, xmin, xclamp, xnan_to_num, xexp, xsqrt,
                 xpow, xround, xfloor, xceil, xtrunc, iadd, isub, imul, ifloordiv, imod, icmp, rcmp)

aten = torch.ops.aten

# ------------------------------------------------------------------ term store
TERMS = []
_CONST = {}
OPS_USED = set()  # names of aten ops that went through a symbolic handler (reported in evidence)
GAPS = []


def reset_store():
    TERMS.clear()
    _CONST.clear()


def _is_const_val(v):
    if isinstance(v, XF):
        return v.is_const()
    return not isz(v)


def _const_key(v):
    if isinstance(v, XF):
        return ("F", v.nan, v.pinf, v.ninf, v.v)
    return (type(v).__name__, v)


def term_id(v):
    if _is_const_val(v):
        k = _const_key(v)
        i = _CONST.get(k)
        if i is None:
            TERMS.append(v)
            i = len(TERMS) - 1
            _CONST[k] = i
        return i
    TERMS.append(v)
    return len(TERMS) - 1


def val_of(x, dtype):
    """python number -> term value for dtype."""
    if dtype.is_floating_point:
        return x if isinstance(x, XF) else XF.of(x)
    if dtype == torch.bool:
        if isinstance(x, SB):
            return x.b
        return x if isz(x) else bool(x)
    if isinstance(x, SI):
        return x.t
    if isinstance(x, XF):
        if x.is_const():
            return int(x.to_float())
        return xf.r_trunc(x.v)
    return x if isz(x) else int(x)


def py_of(v):
    if isinstance(v, XF):
        return v.to_float()
    return v


# ------------------------------------------------------------------ storage
class Box:
    __slots__ = ("conc", "ids", "dtype")

    def __init__(self, conc=None, ids=None, dtype=None):
        self.conc = conc  # 1-D plain tensor (contiguous) or None
        self.ids = ids  # 1-D int64 plain tensor or None
        self.dtype = dtype

    @property
    def n(self):
        return (self.conc if self.conc is not None else self.ids).numel()

    def symbolise(self):
        if self.ids is None:
            dt = self.dtype
            self.ids = torch.tensor([term_id(val_of(x, dt)) for x in self.conc.tolist()], dtype=torch.int64)
            self.conc = None


class SymTensor(torch.Tensor):
    @staticmethod
    def __new__(cls, box, idx, dtype):
        r = torch.Tensor._make_wrapper_subclass(cls, idx.size(), strides=idx.stride(), storage_offset=idx.storage_offset(),
                                                dtype=dtype, device="cpu")
        r.box = box
        r.idx = idx
        return r

    def __repr__(self):
        return f"SymTensor(shape={tuple(self.shape)}, dtype={self.dtype}, {'concrete' if self.box.conc is not None else 'symbolic'})"

    __str__ = __repr__

    @classmethod
    def __torch_dispatch__(cls, func, types, args=(), kwargs=None):
        return dispatch(func, args, kwargs or {})

    # ---- access
    def is_concrete(self):
        if self.box.conc is not None:
            return True
        return all(_is_const_val(v) for v in self.values())

    def conc_view(self):
        """a *real* aliasing view on the concrete storage."""
        b = self.box
        return b.conc.as_strided(self.idx.size(), self.idx.stride(), self.idx.storage_offset())

    def values(self, shape=None):
        """flat list of term values (row-major over ``shape`` after broadcasting)."""
        idx = self.idx if shape is None else self.idx.expand(shape)
        flat = idx.reshape(-1)
        b = self.box
        if b.conc is not None:
            dt = self.dtype
            return [val_of(x, dt) for x in b.conc[flat].tolist()]
        return [TERMS[i] for i in b.ids[flat].tolist()]

    def ids_tensor(self):
        """plain int64 tensor of term ids with this tensor's shape (a copy; does not change the Box)."""
        b = self.box
        if b.conc is not None:
            dt = self.dtype
            flat = b.conc[self.idx.reshape(-1)].tolist()
            return torch.tensor([term_id(val_of(x, dt)) for x in flat], dtype=torch.int64).reshape(self.idx.shape)
        return b.ids[self.idx.reshape(-1)].reshape(self.idx.shape)

    def materialize(self):
        """plain tensor of the (constant) values."""
        if self.box.conc is not None:
            return self.conc_view().clone()
        vals = [py_of(v) for v in self.values()]
        return torch.tensor(vals, dtype=self.dtype).reshape(self.idx.shape)

    def write(self, vals):
        """in-place overwrite of every element (flat row-major list of term values)."""
        b = self.box
        flat = self.idx.reshape(-1)
        if b.conc is not None and all(_is_const_val(v) for v in vals):
            b.conc[flat] = torch.tensor([py_of(v) for v in vals], dtype=b.conc.dtype)
            return
        b.symbolise()
        b.ids[flat] = torch.tensor([term_id(v) for v in vals], dtype=torch.int64)


def _new_idx(n, shape):
    return torch.arange(n, dtype=torch.int64).reshape(tuple(shape))


def wrap(t):
    """plain tensor -> SymTensor over a fresh concrete Box (a copy: plain tensors created outside the mode)."""
    if isinstance(t, SymTensor):
        return t
    if t.layout != torch.strided:
        raise EngineGap(f"non-strided tensor layout {t.layout}")
    c = t.detach().contiguous().reshape(-1).clone()
    return SymTensor(Box(conc=c, dtype=t.dtype), _new_idx(c.numel(), t.shape), t.dtype)


def from_values(vals, shape, dtype):
    """new tensor from a flat list of term values."""
    shape = tuple(shape)
    if all(_is_const_val(v) for v in vals):
        c = torch.tensor([py_of(v) for v in vals], dtype=dtype).reshape(-1)
        return SymTensor(Box(conc=c, dtype=dtype), _new_idx(c.numel(), shape), dtype)
    ids = torch.tensor([term_id(v) for v in vals], dtype=torch.int64)
    return SymTensor(Box(ids=ids, dtype=dtype), _new_idx(ids.numel(), shape), dtype)


def from_ids(ids, dtype):
    flat = ids.contiguous().reshape(-1).clone()
    return SymTensor(Box(ids=flat, dtype=dtype), _new_idx(flat.numel(), ids.shape), dtype)


def sym_float_tensor(name, shape, may_nan=False, may_inf=False, dtype=torch.float32):
    n = int(torch.Size(shape).numel())
    vals = [XF.var(f"{name}_{i}", may_nan=may_nan, may_inf=may_inf) for i in range(n)]
    with _disable_current_modes():
        return from_values(vals, shape, dtype)


def sym_points(name, shape, dtype=torch.float32):
    """keypoint tensor (..., 2) with ONE nan flag per point?  No: independent flags per coordinate."""
    return sym_float_tensor(name, shape, may_nan=True, dtype=dtype)


def tensor_of(vals, shape, dtype=torch.float32):
    with _disable_current_modes():
        return from_values(list(vals), shape, dtype)


# ------------------------------------------------------------------ op tables
VIEW_OPS = {
    aten.view.default, aten._unsafe_view.default, aten.select.int, aten.slice.Tensor, aten.unsqueeze.default, aten.squeeze.default,
    aten.squeeze.dim, aten.squeeze.dims, aten.permute.default, aten.expand.default, aten.unbind.int, aten.alias.default,
    aten.detach.default, aten.unfold.default, aten.transpose.int, aten.t.default, aten.split.Tensor, aten.split_with_sizes.default,
    aten.as_strided.default, aten.diagonal.default, aten.lift_fresh.default, aten.view_as.default if hasattr(aten, "view_as") else None,
    aten.narrow.default if hasattr(aten, "narrow") else None, aten.movedim.int if hasattr(aten.movedim, "int") else None,
    aten.chunk.default if hasattr(aten, "chunk") else None,
}
VIEW_OPS.discard(None)

# pure data movement producing fresh storage: real kernel on the id tensor
MOVE_OPS = {
    aten.clone.default, aten.cat.default, aten.stack.default, aten.flip.default, aten.repeat.default,
    aten.roll.default, aten.tril.default, aten.triu.default, aten.repeat_interleave.self_int if hasattr(aten.repeat_interleave, "self_int") else None,
    aten.contiguous.default if hasattr(aten, "contiguous") else None, aten.reshape.default, aten.lift_fresh_copy.default,
    aten.expand_copy.default if hasattr(aten, "expand_copy") else None, aten.tile.default if hasattr(aten, "tile") else None,
}
MOVE_OPS.discard(None)

HANDLERS = {}


def handler(*ops):
    def deco(f):
        for o in ops:
            HANDLERS[o] = f
        return f
    return deco


# ------------------------------------------------------------------ dispatch
def _tensors_in(args, kwargs):
    return [a for a in tree_flatten((args, kwargs))[0] if isinstance(a, torch.Tensor)]


def _wrap_all(x):
    return tree_map(lambda a: wrap(a) if isinstance(a, torch.Tensor) and not isinstance(a, SymTensor) else a, x)


def _wrap_output(o, inputs):
    """plain output of a real kernel -> SymTensor, sharing the Box when it aliases an input's storage."""
    if not isinstance(o, torch.Tensor):
        return o
    if isinstance(o, SymTensor):
        return o
    if o.layout != torch.strided:
        raise EngineGap("non-strided output")
    try:
        ptr = o.untyped_storage().data_ptr()
    except Exception:
        ptr = None
    if ptr is not None and o.numel() > 0:
        for s in inputs:
            b = s.box
            if b.conc is not None and b.conc.untyped_storage().data_ptr() == ptr and o.dtype == b.conc.dtype:
                off = o.storage_offset() - b.conc.storage_offset()
                idx = torch.arange(b.conc.numel(), dtype=torch.int64).as_strided(o.size(), o.stride(), off)
                return SymTensor(b, idx, o.dtype)
    return wrap(o)


def dispatch(func, args, kwargs):
    with _disable_current_modes():
        return _dispatch(func, args, kwargs)


def _written_plain(func, args, kwargs):
    """plain (non-SymTensor) tensors that this op mutates: a wrapped copy would silently lose the write."""
    out = []
    try:
        sargs = func._schema.arguments
    except Exception:
        return out
    for i, sa in enumerate(sargs):
        if sa.alias_info is not None and sa.alias_info.is_write:
            v = args[i] if i < len(args) else kwargs.get(sa.name)
            if isinstance(v, torch.Tensor) and not isinstance(v, SymTensor):
                out.append((i, sa.name, v))
    return out


def _dispatch(func, args, kwargs):
    wp = _written_plain(func, args, kwargs)
    if wp:
        # mutate a wrapped copy, then write the (necessarily concrete) result back into the caller's plain tensor
        largs = list(args)
        lkw = dict(kwargs)
        wrapped = []
        for i, name, v in wp:
            w = wrap(v)
            wrapped.append((v, w))
            if i < len(largs):
                largs[i] = w
            else:
                lkw[name] = w
        r = _dispatch(func, tuple(largs), lkw)
        for v, w in wrapped:
            if w.box.conc is None and not w.is_concrete():
                raise EngineGap(f"{func}: in-place symbolic write into a plain tensor created outside SymMode")
            v.copy_(w.materialize())
        return tree_map(lambda o: next((v for v, w in wrapped if o is w), o), r)
    args = _wrap_all(args)
    kwargs = _wrap_all(kwargs)
    syms = [a for a in tree_flatten((args, kwargs))[0] if isinstance(a, SymTensor)]
    if func in VIEW_OPS and syms:
        base = syms[0]
        ua = tree_map(lambda a: a.idx if isinstance(a, SymTensor) else a, args)
        uk = tree_map(lambda a: a.idx if isinstance(a, SymTensor) else a, kwargs)
        out = func(*ua, **uk)
        return tree_map(lambda o: SymTensor(base.box, o, base.dtype) if isinstance(o, torch.Tensor) else o, out)
    all_conc = all(s.box.conc is not None for s in syms)
    if all_conc:
        ca = tree_map(lambda a: a.conc_view() if isinstance(a, SymTensor) else a, args)
        ck = tree_map(lambda a: a.conc_view() if isinstance(a, SymTensor) else a, kwargs)
        out = func(*ca, **ck)
        # in-place / out= results that *are* an input view: hand back the corresponding SymTensor
        views = {}
        for s, c in zip([a for a in tree_flatten((args, kwargs))[0] if isinstance(a, SymTensor)],
                        [a for a in tree_flatten((ca, ck))[0] if isinstance(a, torch.Tensor)]):
            views[id(c)] = s
        return tree_map(lambda o: views[id(o)] if isinstance(o, torch.Tensor) and id(o) in views else _wrap_output(o, syms), out)
    h = HANDLERS.get(func)
    if h is not None:
        OPS_USED.add(str(func))
        return h(func, *args, **kwargs)
    if func in MOVE_OPS:
        OPS_USED.add(str(func))
        return _move(func, args, kwargs)
    # symbolic box but every element a constant: materialise and run the real kernel
    if all(s.is_concrete() for s in syms):
        ca = tree_map(lambda a: a.materialize() if isinstance(a, SymTensor) else a, args)
        ck = tree_map(lambda a: a.materialize() if isinstance(a, SymTensor) else a, kwargs)
        out = func(*ca, **ck)
        return tree_map(lambda o: wrap(o) if isinstance(o, torch.Tensor) else o, out)
    GAPS.append(str(func))
    raise EngineGap(f"no symbolic handler for {func}")


def _move(func, args, kwargs):
    dts = [a.dtype for a in tree_flatten((args, kwargs))[0] if isinstance(a, SymTensor)]
    dt = dts[0]
    for d in dts[1:]:
        dt = torch.promote_types(dt, d)

    def u(a):
        if isinstance(a, SymTensor):
            if a.dtype != dt:
                a = _to_dtype(a, dt)
            return a.ids_tensor()
        return a
    out = func(*tree_map(u, args), **tree_map(u, kwargs))
    return tree_map(lambda o: from_ids(o, dt) if isinstance(o, torch.Tensor) else o, out)


class SymMode(TorchDispatchMode):
    def __torch_dispatch__(self, func, types, args=(), kwargs=None):
        return dispatch(func, args, kwargs or {})


# ------------------------------------------------------------------ element-wise machinery
def _dummy(x):
    if isinstance(x, torch.Tensor):
        return torch.empty((1,) if x.dim() > 0 else (), dtype=x.dtype)
    if isinstance(x, (XF, Fraction)):
        return 1.0
    if isinstance(x, SI):
        return 1
    if isinstance(x, SB):
        return True
    return x


def _result_dtype(a, b=None):
    a = _dummy(a)
    if b is None:
        return a.dtype if isinstance(a, torch.Tensor) else torch.tensor(a).dtype
    return torch.result_type(a, _dummy(b))


def _bshape(*xs):
    shapes = [tuple(x.shape) for x in xs if isinstance(x, SymTensor)]
    return tuple(torch.broadcast_shapes(*shapes))


def _vals(x, shape, n, dtype):
    if isinstance(x, SymTensor):
        vs = x.values(shape)
        if x.dtype != dtype:
            vs = [_conv(v, x.dtype, dtype) for v in vs]
        return vs
    return [val_of(x, dtype)] * n


def _conv(v, src, dst):
    """convert a term value between dtypes."""
    if src == dst:
        return v
    if dst.is_floating_point:
        if src.is_floating_point:
            return v
        if src == torch.bool:
            return XF(RIte(v, Fraction(1), Fraction(0)))
        return XF(xf.R(v) if isz(v) else Fraction(v))
    if dst == torch.bool:
        if src.is_floating_point:
            return Or(v.nan, v.pinf, v.ninf, rcmp("!=", v.v, 0))
        return icmp("!=", v, 0)
    # integer target
    if src.is_floating_point:
        if v.is_const():
            f = v.to_float()
            if f != f or math.isinf(f):
                raise EngineGap("NaN/inf -> integer conversion")
            return int(f)
        # NaN/inf -> int is undefined behaviour in torch; the value of v is used (documented in evidence)
        return xf.r_trunc(v.v)
    if src == torch.bool:
        return IIte(v, 1, 0)
    return v


def _to_dtype(a, dtype):
    if a.dtype == dtype:
        return a
    if a.box.conc is not None:
        return wrap(a.conc_view().to(dtype))
    return from_values([_conv(v, a.dtype, dtype) for v in a.values()], a.shape, dtype)


def _ew(out_dtype, comp_dtype, fn, *xs):
    shape = _bshape(*xs)
    n = int(torch.Size(shape).numel())
    cols = [_vals(x, shape, n, comp_dtype) for x in xs]
    out = [fn(*row) for row in zip(*cols)] if n else []
    return from_values(out, shape, out_dtype)


_F_ARITH = {"+": xadd, "-": xsub, "*": xmul, "/": xdiv, "max": xmax, "min": xmin}
_I_ARITH = {"+": iadd, "-": isub, "*": imul, "//": ifloordiv, "%": imod,
            "max": lambda a, b: IIte(icmp(">=", a, b), a, b), "min": lambda a, b: IIte(icmp("<=", a, b), a, b)}


def _binary(op):
    def h(func, a, b, *, alpha=1, **kw):
        if alpha != 1:
            b = _binary("*")(None, b, alpha) if isinstance(b, SymTensor) else b * alpha
        dt = _result_dtype(a, b)
        if op == "/" and not dt.is_floating_point:
            dt = torch.float32
        if dt.is_floating_point:
            f = _F_ARITH[op]
        elif dt == torch.bool:
            if op == "+":
                f = Or
            elif op == "*":
                f = And
            else:
                raise EngineGap(f"bool arithmetic {op}")
        else:
            f = _I_ARITH[op]
        return _ew(dt, dt, f, a, b)
    return h


def _compare(op):
    def h(func, a, b, **kw):
        dt = _result_dtype(a, b)
        if dt.is_floating_point:
            f = lambda x, y: xcmp(op, x, y)
        elif dt == torch.bool:
            if op == "==":
                f = lambda x, y: Not(Xor(x, y))
            elif op == "!=":
                f = Xor
            else:
                f = lambda x, y: icmp(op, IIte(x, 1, 0), IIte(y, 1, 0))
        else:
            f = lambda x, y: icmp(op, x, y)
        return _ew(torch.bool, dt, f, a, b)
    return h


def _logical(op):
    def h(func, a, b=None, **kw):
        f = {"and": And, "or": Or, "xor": Xor}[op]
        dt = _result_dtype(a, b)
        if dt == torch.bool or func in (aten.logical_and.default, aten.logical_or.default, aten.logical_xor.default):
            return _ew(torch.bool, torch.bool, f, a, b)
        raise EngineGap(f"bitwise {op} on integers")
    return h


def _inplace(h):
    def g(func, a, *rest, **kw):
        r = h(func, a, *rest, **kw)
        if r.dtype != a.dtype:
            r = _to_dtype(r, a.dtype)
        if tuple(r.shape) != tuple(a.shape):
            raise EngineGap("in-place op changes shape")
        a.write(r.values())
        return a
    return g


HANDLERS.update({
    aten.add.Tensor: _binary("+"), aten.add.Scalar: _binary("+"), aten.sub.Tensor: _binary("-"), aten.sub.Scalar: _binary("-"),
    aten.mul.Tensor: _binary("*"), aten.mul.Scalar: _binary("*"), aten.div.Tensor: _binary("/"), aten.div.Scalar: _binary("/"),
    aten.true_divide.Tensor: _binary("/"),
    aten.maximum.default: _binary("max"), aten.minimum.default: _binary("min"),
    aten.floor_divide.default: None, aten.remainder.Tensor: None, aten.remainder.Scalar: None,
    aten.gt.Tensor: _compare(">"), aten.gt.Scalar: _compare(">"), aten.lt.Tensor: _compare("<"), aten.lt.Scalar: _compare("<"),
    aten.ge.Tensor: _compare(">="), aten.ge.Scalar: _compare(">="), aten.le.Tensor: _compare("<="), aten.le.Scalar: _compare("<="),
    aten.eq.Tensor: _compare("=="), aten.eq.Scalar: _compare("=="), aten.ne.Tensor: _compare("!="), aten.ne.Scalar: _compare("!="),
    aten.bitwise_and.Tensor: _logical("and"), aten.bitwise_or.Tensor: _logical("or"), aten.bitwise_xor.Tensor: _logical("xor"),
    aten.logical_and.default: _logical("and"), aten.logical_or.default: _logical("or"), aten.logical_xor.default: _logical("xor"),
})


def _intdiv(op):
    def h(func, a, b, **kw):
        dt = _result_dtype(a, b)
        if dt.is_floating_point:
            if op == "//":
                return _ew(dt, dt, lambda x, y: xfloor(xdiv(x, y)), a, b)
            return _ew(dt, dt, lambda x, y: xsub(x, xmul(xfloor(xdiv(x, y)), y)), a, b)
        return _ew(dt, dt, _I_ARITH[op], a, b)
    return h


HANDLERS[aten.floor_divide.default] = _intdiv("//")
HANDLERS[aten.remainder.Tensor] = _intdiv("%")
HANDLERS[aten.remainder.Scalar] = _intdiv("%")
for _o, _b in ((aten.add_.Tensor, aten.add.Tensor), (aten.sub_.Tensor, aten.sub.Tensor), (aten.mul_.Tensor, aten.mul.Tensor),
               (aten.div_.Tensor, aten.div.Tensor), (aten.add_.Scalar, aten.add.Scalar), (aten.sub_.Scalar, aten.sub.Scalar),
               (aten.mul_.Scalar, aten.mul.Scalar), (aten.div_.Scalar, aten.div.Scalar), (aten.bitwise_and_.Tensor, aten.bitwise_and.Tensor),
               (aten.bitwise_or_.Tensor, aten.bitwise_or.Tensor)):
    HANDLERS[_o] = _inplace(HANDLERS[_b])


@handler(aten.div.Tensor_mode, aten.div.Scalar_mode)
def h_div_mode(func, a, b, *, rounding_mode=None):
    if rounding_mode is None:
        return _binary("/")(func, a, b)
    dt = _result_dtype(a, b)
    if dt.is_floating_point:
        r = xfloor if rounding_mode == "floor" else xtrunc
        return _ew(dt, dt, lambda x, y: r(xdiv(x, y)), a, b)
    if rounding_mode == "floor":
        return _ew(dt, dt, ifloordiv, a, b)
    return _ew(dt, dt, lambda x, y: xf.r_trunc(xf.R(x) / xf.R(y)) if (isz(x) or isz(y)) else int(Fraction(x) / Fraction(y)), a, b)


def _unary(ffn, ifn=None, out_bool=False, float_only=False):
    def h(func, a, *rest, **kw):
        if a.dtype.is_floating_point:
            vals = [ffn(v, *rest, **kw) for v in a.values()]
            return from_values(vals, a.shape, torch.bool if out_bool else a.dtype)
        if ifn is None:
            if float_only:
                b = _to_dtype(a, torch.float32)
                return from_values([ffn(v, *rest, **kw) for v in b.values()], a.shape, torch.bool if out_bool else torch.float32)
            raise EngineGap(f"{func} on {a.dtype}")
        vals = [ifn(v, *rest, **kw) for v in a.values()]
        return from_values(vals, a.shape, torch.bool if out_bool else a.dtype)
    return h


HANDLERS.update({
    aten.neg.default: _unary(xneg, lambda v: isub(0, v)),
    aten.abs.default: _unary(xabs, lambda v: IIte(icmp("<", v, 0), isub(0, v), v)),
    aten.exp.default: _unary(xexp, float_only=True),
    aten.sqrt.default: _unary(xsqrt, float_only=True),
    aten.round.default: _unary(xround, lambda v: v),
    aten.floor.default: _unary(xfloor, lambda v: v),
    aten.ceil.default: _unary(xceil, lambda v: v),
    aten.trunc.default: _unary(xtrunc, lambda v: v),
    aten.isnan.default: _unary(lambda v: v.nan, lambda v: False, out_bool=True),
    aten.isinf.default: _unary(lambda v: v.inf(), lambda v: False, out_bool=True),
    aten.isfinite.default: _unary(lambda v: v.fin(), lambda v: True, out_bool=True),
    aten.nan_to_num.default: _unary(lambda v, nan=None, posinf=None, neginf=None: xnan_to_num(v, nan, posinf, neginf), lambda v, *a, **k: v),
    aten.reciprocal.default: _unary(lambda v: xdiv(XF(Fraction(1)), v), float_only=True),
    aten.sign.default: _unary(lambda v: xite(v.nan, v, xite(v.is_pos(), XF(Fraction(1)), xite(v.is_neg(), XF(Fraction(-1)), XF(Fraction(0)))))),
})
HANDLERS[aten.nan_to_num_.default] = _inplace(HANDLERS[aten.nan_to_num.default])
HANDLERS[aten.abs_.default] = _inplace(HANDLERS[aten.abs.default])
HANDLERS[aten.neg_.default] = _inplace(HANDLERS[aten.neg.default])
HANDLERS[aten.round_.default] = _inplace(HANDLERS[aten.round.default])
HANDLERS[aten.exp_.default] = _inplace(HANDLERS[aten.exp.default])


@handler(aten.bitwise_not.default, aten.logical_not.default)
def h_not(func, a):
    if a.dtype != torch.bool:
        if func == aten.logical_not.default:
            a = _to_dtype(a, torch.bool)
        else:
            raise EngineGap("bitwise_not on integers")
    return from_values([Not(v) for v in a.values()], a.shape, torch.bool)


@handler(aten.pow.Tensor_Scalar)
def h_pow(func, a, p):
    if not a.dtype.is_floating_point:
        if float(p).is_integer() and p >= 0:
            def ip(v):
                r = 1
                for _ in range(int(p)):
                    r = imul(r, v)
                return r
            return from_values([ip(v) for v in a.values()], a.shape, a.dtype)
        a = _to_dtype(a, torch.float32)
    return from_values([xpow(v, p) for v in a.values()], a.shape, a.dtype)


@handler(aten.pow.Tensor_Tensor)
def h_pow_tt(func, a, b):
    if isinstance(b, SymTensor) and b.is_concrete() and b.numel() == 1:
        return h_pow(func, a, b.materialize().item())
    raise EngineGap("pow with tensor exponent")


@handler(aten.clamp.default, aten.clamp_min.default, aten.clamp_max.default)
def h_clamp(func, a, lo=None, hi=None):
    if func == aten.clamp_max.default:
        lo, hi = None, lo
    if a.dtype.is_floating_point:
        return from_values([xclamp(v, lo, hi) for v in a.values()], a.shape, a.dtype)

    def ic(v):
        if lo is not None:
            v = IIte(icmp("<", v, lo), int(lo), v)
        if hi is not None:
            v = IIte(icmp(">", v, hi), int(hi), v)
        return v
    return from_values([ic(v) for v in a.values()], a.shape, a.dtype)


HANDLERS[aten.clamp_.default] = _inplace(h_clamp)
HANDLERS[aten.clamp_min_.default] = _inplace(h_clamp)


@handler(aten.clamp.Tensor)
def h_clamp_t(func, a, lo=None, hi=None):
    r = a
    if lo is not None:
        r = _binary("max")(None, r, lo)
    if hi is not None:
        r = _binary("min")(None, r, hi)
    return r


@handler(aten.where.self, aten.where.ScalarSelf, aten.where.ScalarOther, aten.where.Scalar)
def h_where(func, c, a, b):
    dt = _result_dtype(a, b)
    shape = _bshape(*[x for x in (c, a, b) if isinstance(x, SymTensor)])
    n = int(torch.Size(shape).numel())
    cv = _vals(c, shape, n, torch.bool)
    av = _vals(a, shape, n, dt)
    bv = _vals(b, shape, n, dt)
    ite = xite if dt.is_floating_point else (BIte if dt == torch.bool else IIte)
    return from_values([ite(x, y, z) for x, y, z in zip(cv, av, bv)], shape, dt)


@handler(aten.masked_fill.Scalar, aten.masked_fill.Tensor)
def h_masked_fill(func, a, mask, value):
    if isinstance(value, SymTensor):
        value = _conv(value.values()[0], value.dtype, a.dtype)
    return _masked_fill(a, mask, value)


def _masked_fill(a, mask, value):
    shape = _bshape(a, mask)
    n = int(torch.Size(shape).numel())
    v = val_of(value, a.dtype)
    ite = xite if a.dtype.is_floating_point else (BIte if a.dtype == torch.bool else IIte)
    return from_values([ite(m, v, x) for m, x in zip(_vals(mask, shape, n, torch.bool), _vals(a, shape, n, a.dtype))], shape, a.dtype)


HANDLERS[aten.masked_fill_.Scalar] = _inplace(h_masked_fill)
HANDLERS[aten.masked_fill_.Tensor] = _inplace(h_masked_fill)


# ------------------------------------------------------------------ reductions
def _reduce_rows(a, dim, keepdim):
    """-> (rows of term values, out_shape, finish(ids->tensor))"""
    nd = a.dim()
    if dim is None or (isinstance(dim, (list, tuple)) and len(dim) == 0):
        dims = list(range(nd))
    elif isinstance(dim, int):
        dims = [dim % nd] if nd else []
    else:
        dims = sorted({d % nd for d in dim})
    keep = [d for d in range(nd) if d not in dims]
    idx = a.idx.permute(keep + dims) if nd else a.idx
    kshape = [a.shape[d] for d in keep]
    rl = 1
    for d in dims:
        rl *= a.shape[d]
    idx = idx.reshape(kshape + [rl])
    b = a.box
    flat = idx.reshape(-1)
    if b.conc is not None:
        allv = [val_of(x, a.dtype) for x in b.conc[flat].tolist()]
    else:
        allv = [TERMS[i] for i in b.ids[flat].tolist()]
    rows = [allv[i * rl:(i + 1) * rl] for i in range(len(allv) // rl)] if rl else [[] for _ in range(int(torch.Size(kshape).numel()))]
    out_shape = list(kshape)
    if keepdim:
        out_shape = [1 if d in dims else a.shape[d] for d in range(nd)]
    return rows, out_shape


@handler(aten.sum.dim_IntList, aten.sum.default)
def h_sum(func, a, dim=None, keepdim=False, *, dtype=None):
    rows, shp = _reduce_rows(a, dim, keepdim)
    if a.dtype.is_floating_point:
        odt = dtype or a.dtype
        out = [functools.reduce(xadd, r, XF(Fraction(0))) for r in rows]
    else:
        odt = dtype or torch.int64
        out = []
        for r in rows:
            acc = 0
            for v in r:
                acc = iadd(acc, IIte(v, 1, 0) if a.dtype == torch.bool else v)
            out.append(acc)
        if odt.is_floating_point:
            out = [_conv(v, torch.int64, odt) for v in out]
    return from_values(out, shp, odt)


@handler(aten.mean.dim, aten.mean.default)
def h_mean(func, a, dim=None, keepdim=False, *, dtype=None):
    rows, shp = _reduce_rows(a, dim, keepdim)
    if not a.dtype.is_floating_point:
        raise EngineGap("mean on non-float")
    out = [xdiv(functools.reduce(xadd, r, XF(Fraction(0))), XF(Fraction(len(r)))) if r else XF.of(math.nan) for r in rows]
    return from_values(out, shp, a.dtype)


@handler(aten.prod.dim_int, aten.prod.default)
def h_prod(func, a, dim=None, keepdim=False, *, dtype=None):
    rows, shp = _reduce_rows(a, dim, keepdim)
    if a.dtype.is_floating_point:
        return from_values([functools.reduce(xmul, r, XF(Fraction(1))) for r in rows], shp, a.dtype)
    return from_values([functools.reduce(imul, r, 1) for r in rows], shp, torch.int64)


def _allany(isall):
    def h(func, a, dim=None, keepdim=False):
        rows, shp = _reduce_rows(a, dim, keepdim)
        if a.dtype != torch.bool:
            rows = [[_conv(v, a.dtype, torch.bool) for v in r] for r in rows]
        return from_values([(And if isall else Or)(*r) for r in rows], shp, torch.bool)
    return h


HANDLERS.update({aten.all.default: _allany(True), aten.all.dim: _allany(True), aten.any.default: _allany(False), aten.any.dim: _allany(False)})
if hasattr(aten.any, "dims"):
    HANDLERS[aten.any.dims] = _allany(False)
    HANDLERS[aten.all.dims] = _allany(True)


def _argext(row, dtype, ismax):
    """first extremum (torch: NaN is the extremum if present). returns (value, index)."""
    best = row[0]
    bi = 0
    for j in range(1, len(row)):
        c = row[j]
        if dtype.is_floating_point:
            better = And(Not(best.nan), Or(c.nan, xcmp(">" if ismax else "<", c, best)))
            best = xite(better, c, best)
        elif dtype == torch.bool:
            better = And(c, Not(best)) if ismax else And(Not(c), best)
            best = BIte(better, c, best)
        else:
            better = icmp(">" if ismax else "<", c, best)
            best = IIte(better, c, best)
        bi = IIte(better, j, bi)
    return best, bi


def _ext_dim(ismax):
    def h(func, a, dim, keepdim=False):
        rows, shp = _reduce_rows(a, dim, keepdim)
        if any(len(r) == 0 for r in rows):
            raise IndexError("max(): Expected reduction dim to have non-zero size")
        res = [_argext(r, a.dtype, ismax) for r in rows]
        return from_values([r[0] for r in res], shp, a.dtype), from_values([r[1] for r in res], shp, torch.int64)
    return h


HANDLERS[aten.max.dim] = _ext_dim(True)
HANDLERS[aten.min.dim] = _ext_dim(False)


def _ext_all(ismax, want="v"):
    def h(func, a, dim=None, keepdim=False):
        if want == "i" and dim is None:
            rows, shp = _reduce_rows(a, None, False)
            shp = [1] * a.dim() if keepdim else []
        else:
            rows, shp = _reduce_rows(a, dim, keepdim)
        if any(len(r) == 0 for r in rows):
            raise RuntimeError("max(): Expected reduction dim to be specified for input.numel() == 0")
        res = [_argext(r, a.dtype, ismax) for r in rows]
        if want == "v":
            return from_values([r[0] for r in res], shp, a.dtype)
        return from_values([r[1] for r in res], shp, torch.int64)
    return h


HANDLERS.update({aten.max.default: _ext_all(True), aten.min.default: _ext_all(False), aten.amax.default: _ext_all(True),
                 aten.amin.default: _ext_all(False), aten.argmax.default: _ext_all(True, "i"), aten.argmin.default: _ext_all(False, "i")})


@handler(aten.linalg_vector_norm.default)
def h_vector_norm(func, a, ord=2, dim=None, keepdim=False, *, dtype=None):
    if ord != 2:
        raise EngineGap(f"vector_norm ord={ord}")
    rows, shp = _reduce_rows(a, dim, keepdim)
    out = [xsqrt(functools.reduce(xadd, [xmul(v, v) for v in r], XF(Fraction(0)))) for r in rows]
    return from_values(out, shp, a.dtype)


@handler(aten.cumsum.default)
def h_cumsum(func, a, dim, *, dtype=None):
    nd = a.dim()
    dim = dim % nd if nd else 0
    ids_shape = a.shape
    moved = SymTensor(a.box, a.idx.movedim(dim, -1) if nd else a.idx, a.dtype)
    vals = moved.values()
    L = a.shape[dim] if nd else 1
    out = []
    fl = a.dtype.is_floating_point
    for r in range(len(vals) // L if L else 0):
        acc = None
        for v in vals[r * L:(r + 1) * L]:
            if not fl and a.dtype == torch.bool:
                v = IIte(v, 1, 0)
            acc = v if acc is None else (xadd(acc, v) if fl else iadd(acc, v))
            out.append(acc)
    odt = dtype or (a.dtype if fl else torch.int64)
    t = from_values(out, moved.shape, odt)
    return SymTensor(t.box, t.idx.movedim(-1, dim) if nd else t.idx, odt)


# ------------------------------------------------------------------ conversions / factories on symbolic input
@handler(aten._to_copy.default)
def h_to_copy(func, a, *, dtype=None, **kw):
    dtype = dtype or a.dtype
    return from_values([_conv(v, a.dtype, dtype) for v in a.values()], a.shape, dtype)


@handler(aten.zeros_like.default, aten.ones_like.default, aten.empty_like.default, aten.full_like.default)
def h_like(func, a, *rest, dtype=None, **kw):
    dtype = dtype or a.dtype
    if func == aten.full_like.default:
        return wrap(torch.full(tuple(a.shape), rest[0], dtype=dtype))
    v = 1 if func == aten.ones_like.default else 0
    return wrap(torch.full(tuple(a.shape), v, dtype=dtype))


@handler(aten.copy_.default)
def h_copy_(func, dst, src, non_blocking=False):
    if not isinstance(src, SymTensor):
        src = wrap(torch.as_tensor(src))
    shape = tuple(dst.shape)
    vals = src.values(shape)
    if src.dtype != dst.dtype:
        vals = [_conv(v, src.dtype, dst.dtype) for v in vals]
    dst.write(vals)
    return dst


@handler(aten.fill_.Scalar, aten.fill_.Tensor)
def h_fill_(func, dst, val):
    if isinstance(val, SymTensor):
        val = _conv(val.values()[0], val.dtype, dst.dtype)
    else:
        val = val_of(val, dst.dtype)
    dst.write([val] * dst.numel())
    return dst


@handler(aten.zero_.default)
def h_zero_(func, dst):
    dst.write([val_of(0, dst.dtype)] * dst.numel())
    return dst


@handler(aten.constant_pad_nd.default)
def h_pad(func, a, pad, value=0):
    cid = term_id(val_of(value, a.dtype))
    return from_ids(aten.constant_pad_nd.default(a.ids_tensor(), pad, cid), a.dtype)


# ------------------------------------------------------------------ value dependent: masks, indices, scalars
def _explorer():
    ex = CTX.explorer
    if ex is None:
        raise EngineGap("value-dependent control flow outside an exploration")
    return ex


def concretize_mask(t):
    """bool SymTensor -> plain bool tensor, forking pattern-at-a-time."""
    if t.box.conc is not None:
        return t.conc_view().clone()
    vals = t.values()
    conc = _explorer().decide_pattern(vals)
    return torch.tensor(conc, dtype=torch.bool).reshape(tuple(t.shape))


def concretize_index(t):
    if t.box.conc is not None:
        return t.conc_view().clone().to(torch.int64)
    ex = _explorer()
    return torch.tensor([ex.concretize_int(v) for v in t.values()], dtype=torch.int64).reshape(tuple(t.shape))


@handler(aten.nonzero.default)
def h_nonzero(func, a):
    if a.dtype != torch.bool:
        a = _to_dtype(a, torch.bool)
    return wrap(concretize_mask(a).nonzero())


def _conc_indices(indices):
    out = []
    for i in indices:
        if isinstance(i, SymTensor):
            i = concretize_mask(i) if i.dtype == torch.bool else concretize_index(i)
        out.append(i)
    return out


@handler(aten.index.Tensor)
def h_index(func, a, indices):
    idx = _conc_indices(indices)
    sub = aten.index.Tensor(a.idx, idx)  # positions in a's storage of the gathered elements (a copy)
    b = a.box
    if b.conc is not None:
        return wrap(b.conc[sub.reshape(-1)].reshape(sub.shape))
    return from_ids(b.ids[sub.reshape(-1)].reshape(sub.shape), a.dtype)


@handler(aten.index_put_.default, aten.index_put.default, aten._unsafe_index_put.default if hasattr(aten, "_unsafe_index_put") else aten.index_put.default)
def h_index_put(func, a, indices, values, accumulate=False):
    inplace = func == aten.index_put_.default
    if not inplace:
        a = _move(aten.clone.default, (a,), {})
    # symbolic boolean mask with a broadcastable single value: element-wise ITE (no forking)
    if (len(indices) == 1 and isinstance(indices[0], SymTensor) and indices[0].dtype == torch.bool and indices[0].box.conc is None
            and isinstance(values, SymTensor) and values.numel() == 1 and not accumulate):
        m = indices[0]
        v = _conv(values.values()[0], values.dtype, a.dtype)
        mshape = tuple(m.shape) + (1,) * (a.dim() - m.dim())
        mv = SymTensor(m.box, m.idx.reshape(mshape), torch.bool).values(tuple(a.shape))
        ite = xite if a.dtype.is_floating_point else (BIte if a.dtype == torch.bool else IIte)
        a.write([ite(c, v, old) for c, old in zip(mv, a.values())])
        return a
    idx = _conc_indices(indices)
    pos = aten.index.Tensor(a.idx, idx)  # storage positions addressed
    if not isinstance(values, SymTensor):
        values = wrap(torch.as_tensor(values))
    vals = values.values(tuple(pos.shape)) if tuple(values.shape) != tuple(pos.shape) else values.values()
    if values.dtype != a.dtype:
        vals = [_conv(v, values.dtype, a.dtype) for v in vals]
    target = SymTensor(a.box, pos, a.dtype)  # NB: pos is a gathered copy of positions; write() scatters through it
    if accumulate:
        add = xadd if a.dtype.is_floating_point else iadd
        cur = {}
        b = a.box
        flatpos = pos.reshape(-1).tolist()
        old = target.values()
        for p, o, v in zip(flatpos, old, vals):
            cur[p] = add(cur.get(p, o), v)
        b_vals = [cur[p] for p in flatpos]
        target.write(b_vals)
    else:
        target.write(vals)
    return a


@handler(aten._local_scalar_dense.default, aten.item.default if hasattr(aten, "item") else aten._local_scalar_dense.default)
def h_item(func, a):
    if a.numel() != 1:
        raise RuntimeError("a Tensor with %d elements cannot be converted to Scalar" % a.numel())
    v = a.values()[0]
    if _is_const_val(v):
        return py_of(v)
    if a.dtype == torch.bool:
        return _explorer().decide(v)
    if a.dtype.is_floating_point:
        return v
    return SI(v)


@handler(aten.is_nonzero.default)
def h_is_nonzero(func, a):
    if a.numel() != 1:
        raise RuntimeError("Boolean value of Tensor with more than one value is ambiguous")
    v = _conv(a.values()[0], a.dtype, torch.bool)
    return _explorer().decide(v)


@handler(aten.equal.default)
def h_equal(func, a, b):
    if tuple(a.shape) != tuple(b.shape):
        return False
    r = _compare("==")(None, a, b)
    return _explorer().decide(And(*r.values()))


@handler(aten.topk.default)
def h_topk(func, a, k, dim=-1, largest=True, sorted=True):
    order = _sort_order(a, dim, descending=largest, stable=True)
    nd = a.dim()
    dim = dim % nd
    sel = order.narrow(dim, 0, k)
    vals = _gather_conc(a, dim, sel)
    return vals, wrap(sel)


def _sort_order(a, dim, descending, stable=True):
    """concrete permutation (plain int64 tensor, shape of a) that sorts a along dim; forks on comparisons."""
    nd = a.dim()
    dim = dim % nd if nd else 0
    moved = SymTensor(a.box, a.idx.movedim(dim, -1), a.dtype)
    vals = moved.values()
    L = a.shape[dim]
    ex = _explorer()
    out = []
    fl = a.dtype.is_floating_point

    def before(x, y):  # strictly before in the sorted order (NaN is largest in torch.sort)
        if fl:
            if descending:
                return ex.decide(Or(And(x.nan, Not(y.nan)), xcmp(">", x, y)))
            return ex.decide(Or(And(y.nan, Not(x.nan)), xcmp("<", x, y)))
        return ex.decide(icmp(">" if descending else "<", x, y))
    for r in range(len(vals) // L if L else 0):
        row = vals[r * L:(r + 1) * L]
        perm = list(range(L))
        # stable insertion sort with symbolic comparisons
        for i in range(1, L):
            j = i
            while j > 0 and before(row[perm[j]], row[perm[j - 1]]):
                perm[j], perm[j - 1] = perm[j - 1], perm[j]
                j -= 1
        out.extend(perm)
    return torch.tensor(out, dtype=torch.int64).reshape(tuple(moved.shape)).movedim(-1, dim)


def _gather_conc(a, dim, index):
    pos = torch.gather(a.idx, dim, index)
    b = a.box
    if b.conc is not None:
        return wrap(b.conc[pos.reshape(-1)].reshape(pos.shape))
    return from_ids(b.ids[pos.reshape(-1)].reshape(pos.shape), a.dtype)


@handler(aten.sort.default, aten.sort.stable)
def h_sort(func, a, *args, **kw):
    if func == aten.sort.stable:
        stable = kw.get("stable", args[0] if args else True)
        dim = kw.get("dim", -1)
        descending = kw.get("descending", False)
    else:
        dim = args[0] if len(args) > 0 else kw.get("dim", -1)
        descending = args[1] if len(args) > 1 else kw.get("descending", False)
    order = _sort_order(a, dim, descending)
    return _gather_conc(a, dim % a.dim(), order), wrap(order)


@handler(aten.argsort.default, aten.argsort.stable if hasattr(aten.argsort, "stable") else aten.argsort.default)
def h_argsort(func, a, *args, **kw):
    dim = kw.get("dim", args[0] if (args and func == aten.argsort.default) else -1)
    descending = kw.get("descending", args[1] if (len(args) > 1 and func == aten.argsort.default) else False)
    return wrap(_sort_order(a, dim, descending))


@handler(aten.gather.default)
def h_gather(func, a, dim, index, sparse_grad=False):
    return _gather_conc(a, dim % a.dim(), concretize_index(index) if isinstance(index, SymTensor) else index)


@handler(aten.index_select.default)
def h_index_select(func, a, dim, index):
    index = concretize_index(index) if isinstance(index, SymTensor) else index
    pos = aten.index_select.default(a.idx, dim, index)
    b = a.box
    if b.conc is not None:
        return wrap(b.conc[pos.reshape(-1)].reshape(pos.shape))
    return from_ids(b.ids[pos.reshape(-1)].reshape(pos.shape), a.dtype)


@handler(aten.mm.default, aten.bmm.default, aten.matmul.default if hasattr(aten, "matmul") else aten.mm.default)
def h_mm(func, a, b):
    if not (a.dtype.is_floating_point and b.dtype.is_floating_point):
        raise EngineGap("integer matmul")
    if a.dim() == 2:
        a3 = SymTensor(a.box, a.idx.unsqueeze(0), a.dtype)
        b3 = SymTensor(b.box, b.idx.unsqueeze(0), b.dtype)
    else:
        a3, b3 = a, b
    B, n, k = a3.shape
    m = b3.shape[-1]
    av = a3.values()
    bv = b3.values()
    out = []
    for bi in range(B):
        for i in range(n):
            for j in range(m):
                acc = XF(Fraction(0))
                for t in range(k):
                    acc = xadd(acc, xmul(av[(bi * n + i) * k + t], bv[(bi * k + t) * m + j]))
                out.append(acc)
    r = from_values(out, (B, n, m), a.dtype)
    if a.dim() == 2:
        return SymTensor(r.box, r.idx.squeeze(0), r.dtype)
    return r


def scalar_tensor_op(op, a, b):
    """``tensor <op> XF`` / ``XF <op> tensor`` reached through python's reflected operators."""
    def t(x):
        if isinstance(x, torch.Tensor):
            return x
        return tensor_of([XF.of(x)], (), torch.float32)
    with _disable_current_modes():
        a, b = _wrap_all((t(a), t(b)))
        if op in ("+", "-", "*", "/"):
            return _binary(op)(None, a, b)
        return _compare(op)(None, a, b)


# ------------------------------------------------------------------ python-level bridges (process-wide patches)
_PATCHED = False
_orig = {}


def _sym_numpy(self, *a, **k):
    from . import numpyfe
    if isinstance(self, SymTensor):
        with _disable_current_modes():
            if self.box.conc is not None:
                return self.conc_view().clone().numpy()
            vals = self.values()
            if all(_is_const_val(v) for v in vals):
                return self.materialize().numpy()
            return numpyfe.from_terms(vals, tuple(self.shape), self.dtype)
    with _disable_current_modes():
        return _orig["numpy"](self, *a, **k)


def _sym_tolist(self):
    if isinstance(self, SymTensor):
        with _disable_current_modes():
            if self.box.conc is not None:
                return self.conc_view().tolist()
            vals = [py_of(v) if _is_const_val(v) else _scalar_obj(v, self.dtype) for v in self.values()]
            a = _np.empty(len(vals), dtype=object)
            for i, v in enumerate(vals):
                a[i] = v
            return a.reshape(tuple(self.shape)).tolist()
    with _disable_current_modes():
        return _orig["tolist"](self)


def _scalar_obj(v, dtype):
    if dtype.is_floating_point:
        return v
    if dtype == torch.bool:
        return SB(v)
    return SI(v)


def _sym_item(self):
    if isinstance(self, SymTensor):
        with _disable_current_modes():
            return h_item(None, self)
    with _disable_current_modes():
        return _orig["item"](self)


def _sym_bool(self):
    if isinstance(self, SymTensor):
        with _disable_current_modes():
            return h_is_nonzero(None, self)
    with _disable_current_modes():
        return _orig["__bool__"](self)


def _sym_int(self):
    if isinstance(self, SymTensor):
        v = _sym_item(self)
        if isinstance(v, SI):
            return v.__index__()
        if isinstance(v, XF):
            raise EngineGap("int() of a symbolic float tensor")
        return int(v)
    with _disable_current_modes():
        return _orig["__int__"](self)


def _sym_float(self):
    if isinstance(self, SymTensor):
        v = _sym_item(self)
        if isinstance(v, (XF, SI)):
            raise EngineGap("float() of a symbolic tensor (python float cannot carry a term)")
        return float(v)
    with _disable_current_modes():
        return _orig["__float__"](self)


def _sym_array(self, dtype=None, *a, **k):
    r = _sym_numpy(self)
    if dtype is not None and r.dtype != object:
        r = r.astype(dtype, copy=False)
    return r


def _sym_cpu(self, *a, **k):
    if isinstance(self, SymTensor):
        return self
    return _orig["cpu"](self, *a, **k)


def _sym_setitem(self, key, val):
    if isinstance(val, (XF, SI, SB)):
        dt = self.dtype
        val = tensor_of([val_of(val, dt)], (), dt)
    return _orig["__setitem__"](self, key, val)


def install_patches():
    """Process-wide: SymTensors have no storage, so every C accessor must go through the bridge."""
    global _PATCHED
    if _PATCHED:
        return
    T = torch.Tensor
    _orig["__setitem__"] = T.__setitem__
    T.__setitem__ = _sym_setitem
    for name, fn in (("numpy", _sym_numpy), ("tolist", _sym_tolist), ("item", _sym_item), ("__bool__", _sym_bool), ("__int__", _sym_int),
                     ("__index__", _sym_int), ("__float__", _sym_float), ("__array__", _sym_array), ("cpu", _sym_cpu)):
        _orig[name] = getattr(T, name)
        setattr(T, name, fn)
    _PATCHED = True


# ------------------------------------------------------------------ module-global torch proxy (legacy constructors etc.)
import types as _types


class _TensorMeta(type):
    def __instancecheck__(cls, x):
        return isinstance(x, torch.Tensor)

    def __subclasscheck__(cls, c):
        return issubclass(c, torch.Tensor)


def _to_tensor_tree(x, dtype):
    if isinstance(x, torch.Tensor):
        return x.to(dtype) if dtype is not None and x.dtype != dtype else x
    if isinstance(x, _np.ndarray):
        if x.dtype == object:
            from . import numpyfe
            return numpyfe.to_torch(x, dtype or torch.float32)
        t = torch.from_numpy(_np.ascontiguousarray(x))
        return t.to(dtype) if dtype is not None else t
    if isinstance(x, (list, tuple)):
        if len(x) == 0:
            return torch.zeros((0,), dtype=dtype or torch.float32)
        if any(isinstance(e, (torch.Tensor, XF, SI, SB, list, tuple, _np.ndarray)) for e in x):
            parts = [_to_tensor_tree(e, dtype) for e in x]
            return torch.stack(parts)
        return torch.tensor(x, dtype=dtype) if dtype is not None else torch.tensor(x)
    if isinstance(x, XF):
        return tensor_of([x], (), dtype or torch.float32)
    if isinstance(x, SI):
        return tensor_of([x.t], (), dtype or torch.int64)
    if isinstance(x, SB):
        return tensor_of([x.b], (), dtype or torch.bool)
    return torch.tensor(x, dtype=dtype) if dtype is not None else torch.tensor(x)


class TensorShim(metaclass=_TensorMeta):
    """``torch.Tensor(data)`` legacy constructor that accepts symbolic content (always float32)."""

    def __new__(cls, data=None, *a, **k):
        if data is None:
            return torch.zeros((0,))
        if isinstance(data, int) and not a:
            return torch.zeros((data,))
        return _to_tensor_tree(data, torch.float32)


class NestedList:
    """stand-in for torch.nested.nested_tensor over a list of (possibly symbolic) tensors."""

    def __init__(self, tensors):
        self.tensors = list(tensors)

    def unbind(self, dim=0):
        return tuple(self.tensors)

    def __iter__(self):
        return iter(self.tensors)

    def __len__(self):
        return len(self.tensors)

    def __getitem__(self, i):
        return self.tensors[i]

    def size(self, d=0):
        return len(self.tensors)

    def to(self, *a, **k):
        return self

    def cpu(self):
        return self

    is_nested = True


class _NestedProxy:
    @staticmethod
    def nested_tensor(tensors, **kw):
        return NestedList(tensors)

    @staticmethod
    def as_nested_tensor(tensors, **kw):
        return NestedList(tensors)


class TorchProxy(_types.ModuleType):
    def __init__(self):
        super().__init__("torch")
        self.Tensor = TensorShim
        self.nested = _NestedProxy

    def __getattr__(self, k):
        return getattr(torch, k)

    @staticmethod
    def tensor(data, dtype=None, **k):
        if isinstance(data, (list, tuple, _np.ndarray, XF, SI, SB)):
            return _to_tensor_tree(data, dtype)
        return torch.tensor(data, dtype=dtype, **k)

    @staticmethod
    def as_tensor(data, dtype=None, **k):
        if isinstance(data, torch.Tensor):
            return data if dtype is None else data.to(dtype)
        return TorchProxy.tensor(data, dtype=dtype)

    @staticmethod
    def from_numpy(a):
        if isinstance(a, _np.ndarray) and a.dtype == object:
            from . import numpyfe
            return numpyfe.to_torch(a, None)
        return torch.from_numpy(a)


TORCH_PROXY = TorchProxy()
