"""Common harness: import shim, source hashing, reports, replay files, known findings, evidence, pool runner."""
from __future__ import annotations
import os, sys, json, time, hashlib, importlib, inspect, traceback, subprocess, math, random
from fractions import Fraction

VERIF = os.path.dirname(os.path.dirname(os.path.abspath(__file__)))
REPO = os.environ.get("SLEAP_NN_REPO", "/repo")
# SLEAP_NN_REPO / SYMX_OUT_DIR are for evaluating a scratch worktree without touching /repo or the committed evidence.
_OUT = os.environ.get("SYMX_OUT_DIR", VERIF)
EVIDENCE_DIR = os.path.join(_OUT, "evidence")
REPLAY_DIR = os.path.join(_OUT, "replays")
KNOWN_FINDINGS = os.path.join(VERIF, "known_findings.json")

EXIT_OK, EXIT_VIOLATION, EXIT_INCONCLUSIVE = 0, 1, 2


def import_shim():
    """The only change to the import environment that every run (and every replay) needs: kornia 0.8.3
    no longer exports kornia.core.Tensor, which sleap_nn.data.augmentation imports."""
    if REPO not in sys.path:
        sys.path.insert(0, REPO)
    os.environ.setdefault("SLEAP_NN_VERIF", "1")
    import warnings
    warnings.filterwarnings("ignore")
    import torch
    torch.set_num_threads(1)
    import kornia.core
    if not hasattr(kornia.core, "Tensor"):
        kornia.core.Tensor = torch.Tensor
    try:
        from loguru import logger
        logger.remove()
    except Exception:
        pass


def source_hashes(functions):
    """[(module, qualname)] -> [{function, file, sha256}] from the *current* source."""
    out = []
    for mod, qual in functions:
        try:
            m = importlib.import_module(mod)
            obj = m
            for part in qual.split("."):
                obj = getattr(obj, part)
            obj = getattr(obj, "__wrapped__", obj)
            if isinstance(obj, (staticmethod, classmethod)):
                obj = obj.__func__
            src = inspect.getsource(obj)
            f = inspect.getsourcefile(obj)
            out.append({"function": f"{mod}.{qual}", "file": os.path.relpath(f, REPO) if f else None,
                        "sha256": hashlib.sha256(src.encode()).hexdigest()[:16]})
        except Exception as e:  # noqa
            out.append({"function": f"{mod}.{qual}", "error": f"{type(e).__name__}: {e}"})
    return out


def jsonable(x):
    import numpy as np
    try:
        import torch
    except Exception:
        torch = None
    if isinstance(x, dict):
        return {str(k): jsonable(v) for k, v in x.items()}
    if isinstance(x, (list, tuple, set)):
        return [jsonable(v) for v in x]
    if isinstance(x, Fraction):
        return float(x)
    if isinstance(x, float):
        if x != x:
            return "nan"
        if math.isinf(x):
            return "inf" if x > 0 else "-inf"
        return x
    if isinstance(x, (int, str, bool)) or x is None:
        return x
    if isinstance(x, np.generic):
        return jsonable(x.item())
    if isinstance(x, np.ndarray):
        return jsonable(x.tolist())
    if torch is not None and isinstance(x, torch.Tensor):
        return jsonable(x.tolist())
    return str(x)


def unjson_float(x):
    """inverse of jsonable for float leaves."""
    if isinstance(x, list):
        return [unjson_float(v) for v in x]
    if x == "nan":
        return math.nan
    if x == "inf":
        return math.inf
    if x == "-inf":
        return -math.inf
    return x


class Report:
    """Per-configuration result, JSON-able, produced in a worker process."""

    def __init__(self, cfg):
        self.cfg = cfg
        self.obligations = {}
        self.violations = []
        self.inconclusive = []
        self.samples = []
        self.witnesses = {}
        self.paths = 0
        self.infeasible_paths = 0
        self.nontrivial_paths = 0
        self.notes = []
        self.t0 = time.time()

    def record(self, name, status, seconds=0.0):
        o = self.obligations.setdefault(name, {"queries": 0, "unsat": 0, "sat": 0, "unknown": 0, "seconds": 0.0})
        o["queries"] += 1
        o[status] = o.get(status, 0) + 1
        o["seconds"] += seconds

    def violation(self, obligation, signature, description, inputs):
        self.violations.append({"obligation": obligation, "signature": signature, "description": description, "inputs": jsonable(inputs)})

    def inconclusive_item(self, obligation, why):
        self.inconclusive.append({"obligation": obligation, "why": str(why)[:500]})

    def witness(self, name, ok):
        self.witnesses[name] = bool(ok) or self.witnesses.get(name, False)

    def sample(self, s, limit=3):
        if len(self.samples) < limit:
            self.samples.append(jsonable(s))

    def finish(self, stats=None, extra=None):
        from . import explorer
        st = dict(explorer.STATS) if stats is None else stats
        d = {"config": jsonable(self.cfg), "paths": self.paths, "infeasible_paths": self.infeasible_paths,
             "nontrivial_paths": self.nontrivial_paths, "obligations": self.obligations, "violations": self.violations,
             "inconclusive": self.inconclusive, "samples": self.samples, "witnesses": self.witnesses, "notes": self.notes,
             "queries": st.get("queries", 0), "solver_s": round(st.get("solver_s", 0.0), 3), "wall_s": round(time.time() - self.t0, 3)}
        if extra:
            d.update(extra)
        return d


def discharge(ex, rep, name, goal, on_sat=None, timeout_ms=None, **kw):
    return _discharge(ex, rep, name, goal, on_sat, timeout_ms, **kw)


def _discharge(ex, rep, name, goal, on_sat=None, timeout_ms=None, **kw):
    """Prove ``goal`` on the current path of ``ex``; record; on sat call on_sat(model, env) -> (signature, description, inputs)."""
    from .explorer import model_env, DefaultEnv
    if not ex.cone_feasible(goal):
        rep.record(name, "unknown")
        rep.inconclusive_item(name, "VACUOUS: the assumptions in the obligation's cone of influence are unsatisfiable (harness error)")
        from .explorer import Verdict
        return Verdict("unknown")
    v = ex.prove(goal, timeout_ms=timeout_ms, **kw)
    rep.record(name, v.status, v.seconds)
    if v.status == "sat":
        # the sliced model only covers the goal's cone of influence: complete it with a model of the whole path
        # (variables outside the cone are independent of it, so any model of the rest combines with the sliced one)
        env_d = {}
        try:
            full = ex.full_model([])
            env_d.update(model_env(full))
        except Exception:  # noqa
            pass
        env_d.update(model_env(v.model))
        try:
            import z3 as _z3
            from .xf import zb as _zb
            both = ex.full_model([_z3.Not(_zb(goal))]) if goal is not True and goal is not False else None
            if both is not None:
                env_d = model_env(both)
        except Exception:  # noqa
            pass
        env = DefaultEnv(env_d)
        if on_sat is not None:
            try:
                sig, desc, inputs = on_sat(v.model, env)
            except Exception as e:  # noqa
                rep.inconclusive_item(name, f"model extraction failed: {type(e).__name__}: {e}")
                return v
            rep.violation(name, sig, desc, inputs)
        else:
            rep.violation(name, name, "solver model (no extractor)", {"model": str(v.model)[:2000]})
    elif v.status == "unknown":
        rep.inconclusive_item(name, "solver returned unknown / timeout")
    return v


def discharge_all(ex, rep, name, goals, on_sat=None, timeout_ms=None, **kw):
    """One sliced query per goal (DESIGN 1.6); stops at the first sat/unknown of this obligation on this path."""
    for g in goals:
        v = _discharge(ex, rep, name, g, on_sat, timeout_ms, **kw)
        if v.status != "unsat":
            return v
    return None


# ------------------------------------------------------------------ known findings
def load_known():
    if not os.path.exists(KNOWN_FINDINGS):
        return []
    with open(KNOWN_FINDINGS) as f:
        return json.load(f).get("findings", [])


def match_known(prop, signature):
    for k in load_known():
        if k.get("property") == prop and k.get("status") == "known" and k.get("signature") == signature:
            return k
    return None


# ------------------------------------------------------------------ replay
def write_replay(prop, module, cfg, viol):
    os.makedirs(REPLAY_DIR, exist_ok=True)
    body = {"property": prop, "module": module, "config": jsonable(cfg), "obligation": viol["obligation"], "signature": viol["signature"],
            "description": viol["description"], "inputs": viol["inputs"],
            "how_to_run": f"cd {VERIF} && ./check {prop} --replay <this file>   (real torch/numpy/scipy/kornia, no symbolic shims)"}
    h = hashlib.sha256(json.dumps(body, sort_keys=True).encode()).hexdigest()[:12]
    path = os.path.join(REPLAY_DIR, f"{prop}_{h}.json")
    with open(path, "w") as f:
        json.dump(body, f, indent=1)
    return path


def run_replay_subprocess(path, timeout=300):
    """-> (reproduced: bool|None, output)"""
    try:
        p = subprocess.run([sys.executable, "-m", "symx.run", "--replay", path], cwd=VERIF, capture_output=True, text=True, timeout=timeout,
                           env=dict(os.environ, PYTHONPATH=VERIF))
    except subprocess.TimeoutExpired:
        return None, "replay timeout"
    out = (p.stdout + p.stderr)[-3000:]
    if "REPLAY: REPRODUCED" in p.stdout:
        return True, out
    if "REPLAY: NOT-REPRODUCED" in p.stdout:
        return False, out
    return None, out


# ------------------------------------------------------------------ evidence
def write_evidence(prop, tier, seed, wall_s, coverage, assumptions, violations):
    os.makedirs(EVIDENCE_DIR, exist_ok=True)
    ev = {"property_id": prop, "tier": tier, "seed": int(seed), "level": "other", "coverage": coverage, "assumptions": assumptions,
          "wall_s": round(wall_s, 2), "violations": int(violations)}
    tmp = os.path.join(EVIDENCE_DIR, f"{prop}.json.tmp")
    with open(tmp, "w") as f:
        json.dump(ev, f, indent=1)
    os.replace(tmp, os.path.join(EVIDENCE_DIR, f"{prop}.json"))
    return ev


# ------------------------------------------------------------------ worker entry
def worker(args):
    modname, cfg = args
    import_shim()
    from . import explorer
    explorer.reset_stats()
    try:
        mod = importlib.import_module(modname)
        t0 = time.time()
        r = mod.run_config(cfg)
        r.setdefault("wall_s", round(time.time() - t0, 3))
        return r
    except BaseException as e:  # noqa  (EngineGap, harness errors): inconclusive, never a verdict
        return {"config": jsonable(cfg), "harness_error": f"{type(e).__name__}: {e}", "traceback": traceback.format_exc()[-3000:],
                "paths": 0, "obligations": {}, "violations": [], "inconclusive": [{"obligation": "*", "why": f"{type(e).__name__}: {e}"}],
                "samples": [], "witnesses": {}, "queries": 0, "solver_s": 0.0, "wall_s": 0.0}


def rng(seed, *salt):
    return random.Random(hashlib.sha256(repr((seed,) + salt).encode()).digest())
