#!/bin/bash
# Offline: overlay venv on /venv (the repository's environment) + z3-solver and crosshair-tool from the wheelhouse.
set -e
cd "$(dirname "$0")"
if [ -x .venv/bin/python ] && .venv/bin/python -c "import z3, crosshair, torch" 2>/dev/null; then echo "venv ok"; exit 0; fi
rm -rf .venv
/venv/bin/python -m venv .venv
SP=$(.venv/bin/python -c "import site; print(site.getsitepackages()[0])")
echo "import site; site.addsitedir('/venv/lib/python3.12/site-packages')" > "$SP/_base.pth"
PIP_NO_INDEX=1 .venv/bin/python -m pip install --quiet --no-index --find-links /opt/veriftools/wheels z3-solver crosshair-tool
.venv/bin/python -c "import z3, crosshair, torch; print('venv built', z3.get_version_string())"
