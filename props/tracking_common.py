"""Shared harness for C09 / C10: the real Tracker (track, get_features, update_candidates, get_scores,
scores_to_cost_matrix, assign_tracks), both candidate classes and both matching algorithms run over a *symbolic
history*: presence bit of each animal in each frame, listing order, instance scores, and one symbolic association
score per (detection, stored feature) pair."""
from __future__ import annotations
import itertools
from fractions import Fraction
import z3

FUNCTIONS = [("sleap_nn.tracking.tracker", "Tracker.track"), ("sleap_nn.tracking.tracker", "Tracker.get_features"), ("sleap_nn.tracking.tracker", "Tracker.update_candidates"),
             ("sleap_nn.tracking.tracker", "Tracker.get_scores"), ("sleap_nn.tracking.tracker", "Tracker.scores_to_cost_matrix"), ("sleap_nn.tracking.tracker", "Tracker.assign_tracks"),
             ("sleap_nn.tracking.tracker", "Tracker.from_config"),
             ("sleap_nn.tracking.candidates.fixed_window", "FixedWindowCandidates.update_tracks"), ("sleap_nn.tracking.candidates.fixed_window", "FixedWindowCandidates.add_new_tracks"),
             ("sleap_nn.tracking.candidates.fixed_window", "FixedWindowCandidates.get_features_from_track_id"), ("sleap_nn.tracking.candidates.fixed_window", "FixedWindowCandidates.get_new_track_id"),
             ("sleap_nn.tracking.candidates.local_queues", "LocalQueueCandidates.update_tracks"), ("sleap_nn.tracking.candidates.local_queues", "LocalQueueCandidates.add_new_tracks"),
             ("sleap_nn.tracking.candidates.local_queues", "LocalQueueCandidates.get_features_from_track_id"), ("sleap_nn.tracking.candidates.local_queues", "LocalQueueCandidates.get_new_track_id"),
             ("sleap_nn.tracking.utils", "hungarian_matching"), ("sleap_nn.tracking.utils", "greedy_matching")]
STUBS = ["tracker/candidates/utils .np -> symx.numpyfe.NP proxy (np.zeros produces a symbolic-capable array)",
         "tracking.utils.linear_sum_assignment -> symbolic Hungarian model (validated against scipy in C15's validate config)",
         "Tracker._scoring_functions[...] -> one fresh symbolic score per (detection, stored feature) pair in the scoring function's range; Tracker._feature_methods[...] -> identity (tagged detection)",
         "loguru logger -> no-op"]


class Det:
    """duck-typed sio.PredictedInstance: what Tracker touches is .numpy(), .score, .track, .tracking_score."""

    def __init__(self, animal, frame, score):
        self.animal = animal
        self.frame = frame
        self.score = score
        self.track = None
        self.tracking_score = None

    def numpy(self):
        return self

    def __repr__(self):
        return f"Det(a{self.animal}@f{self.frame})"


def install():
    import sleap_nn.tracking.tracker as trk
    import sleap_nn.tracking.utils as tu
    import sleap_nn.tracking.candidates.fixed_window as fw
    import sleap_nn.tracking.candidates.local_queues as lq
    from symx import numpyfe, stubs
    numpyfe._Flag.sym_factories = True
    for mod in (trk, tu, fw, lq):
        mod.np = numpyfe.NP

    class _L:
        def __getattr__(self, k):
            return lambda *a, **kw: None
    for mod in (trk, lq):
        if hasattr(mod, "logger"):
            mod.logger = _L()
    tu.linear_sum_assignment = stubs.linear_sum_assignment_model
    return trk


def make_tracker(trk, cfg):
    from symx import numpyfe
    t = trk.Tracker.from_config(candidates_method=cfg["cand"], features="keypoints", scoring_method="oks", scoring_reduction=cfg["reduction"],
                                track_matching_method=cfg["matching"], window_size=cfg["window"], instance_score_threshold=cfg.get("thr", 0.0))
    t._track_objects = {}
    t._feature_methods = {"keypoints": lambda d: d}
    t._scoring_reduction_methods = {"mean": numpyfe.NP.nanmean, "max": numpyfe.NP.nanmax}
    t._track_matching_methods = {"hungarian": trk.hungarian_matching, "greedy": trk.greedy_matching}
    # the module-level functions captured in the class dict were bound before the np proxy was installed; rebind by name
    import sleap_nn.tracking.utils as tu
    t._track_matching_methods = {"hungarian": tu.hungarian_matching, "greedy": tu.greedy_matching}
    return t


def explore(cfg, rep, identity_mode, on_frame):
    """Runs the symbolic history; calls on_frame(ex, hist_so_far, result) after every track() and returns."""
    from symx import xf, numpyfe
    from symx.xf import XF, And, Or, Not, rcmp
    from symx.explorer import Explorer
    trk = install()
    K, F = cfg["K"], cfg["F"]
    sym_inst_scores = cfg.get("sym_inst_scores", False)
    present = [[z3.Bool(f"pres_{t}_{a}") for a in range(K)] for t in range(F)]
    rev = [z3.Bool(f"rev_{t}") for t in range(F)]
    base = []
    SC = {}
    ex = Explorer(base, timeout_ms=60000, max_paths=cfg.get("max_paths", 60000))

    def score_stub(f, g):
        if getattr(f, "bad", False) or getattr(g, "bad", False):
            return XF.of(float("nan"))  # a detection whose pose is entirely missing scores NaN against everything (nan_pose configurations)
        key = (f.animal, f.frame, g.animal, g.frame)
        v = SC.get(key)
        if v is None:
            v = z3.Real(f"s_{f.animal}_{f.frame}_{g.animal}_{g.frame}")
            SC[key] = v
        if identity_mode and cfg.get("score_range") == "neg":
            # scoring functions whose best value is 0 (negative distance): the same animal scores in [-0.4, 0] -- incl. exactly 0, an animal that did
            # not move -- and different animals below -0.6
            c = [v >= Fraction(-4, 10), v <= 0] if f.animal == g.animal else [v >= -100, v < Fraction(-6, 10)]
        elif identity_mode:
            c = [v > Fraction(6, 10), v <= 1] if f.animal == g.animal else [v >= 0, v < Fraction(4, 10)]
        else:
            c = [v >= 0, v <= 1] if cfg.get("score_range", "unit") == "unit" else [v <= 0]
        for q in c:
            ex.add_side(q)
        return XF(v)

    def path():
        t = make_tracker(trk, cfg)
        t._scoring_functions = {"oks": score_stub}
        hist = []
        for f in range(F):
            order = list(range(K))
            if K > 1 and ex.decide(rev[f]):
                order = order[::-1]
            dets = []
            for a in order:
                if ex.decide(present[f][a]):
                    sc = XF(z3.Real(f"is_{f}_{a}")) if sym_inst_scores else 0.9
                    if sym_inst_scores:
                        ex.add_side(z3.Real(f"is_{f}_{a}") >= 0)
                        ex.add_side(z3.Real(f"is_{f}_{a}") <= 1)
                    d_ = Det(a, f, sc)
                    if cfg.get("nan_pose"):
                        d_.bad = ex.decide(z3.Bool(f"bad_{f}_{a}"))
                    dets.append(d_)
            if identity_mode:
                pre = on_frame(ex, hist, dets, None, "pre")
                if pre == "skip":
                    return ("SKIP", hist)
            try:
                out = t.track(list(dets), f)
            except Exception as e:  # noqa
                if isinstance(e, xf.EngineGap):
                    raise
                return ("EXC", f, e, hist, dets)
            hist.append((dets, out))
            stop = on_frame(ex, hist, dets, out, "post")
            if stop:
                return ("STOP", f, stop, hist)
        return ("OK", hist)

    return ex, path, SC


def history_of(ex, env, K, F, sym_inst_scores):
    """concrete history from a model: per frame the ordered list of animals (+ instance scores)."""
    frames = []
    for t in range(F):
        order = list(range(K))
        if K > 1 and env[f"rev_{t}"]:
            order = order[::-1]
        fr = []
        for a in order:
            if env[f"pres_{t}_{a}"]:
                fr.append({"animal": a, "score": float(env[f"is_{t}_{a}"]) if sym_inst_scores else 0.9, "bad": bool(env[f"bad_{t}_{a}"])})
        frames.append(fr)
    return frames


def replay_history(cfg, inputs, check):
    """Real tracker, real numpy/scipy.  First with genuine keypoints + the real OKS scoring on well separated animals;
    if that does not reproduce, with the scoring function pinned to the model's association scores."""
    import numpy as np, warnings
    warnings.simplefilter("ignore")
    import sleap_nn.tracking.tracker as trk
    frames = inputs["frames"]
    table = {tuple(k.split(",")): v for k, v in inputs.get("scores", {}).items()}

    class RDet:
        def __init__(self, animal, frame, score, bad=False):
            self.animal, self.frame, self.score, self.bad = animal, frame, score, bad
            self.track = None
            self.tracking_score = None

        def numpy(self):
            base = np.array([[10.0, 10.0], [14.0, 18.0], [22.0, 12.0]]) + 100.0 * self.animal + 0.3 * self.frame
            return np.full_like(base, np.nan) if self.bad else base

    outcomes = []
    for attempt in ("real-oks", "pinned-scores"):
        t = trk.Tracker.from_config(candidates_method=cfg["cand"], features="keypoints", scoring_method="oks", scoring_reduction=cfg["reduction"],
                                    track_matching_method=cfg["matching"], window_size=cfg["window"], instance_score_threshold=cfg.get("thr", 0.0))
        t._track_objects = {}
        if attempt == "pinned-scores":
            if not table and not any(d.get("bad") for fr in frames for d in fr):
                break
            t._feature_methods = {"keypoints": lambda d: d}

            def sc(f, g, table=table):
                if f.bad or g.bad:
                    return float("nan")
                return float(table.get((str(f.animal), str(f.frame), str(g.animal), str(g.frame)), 0.5 if f.animal != g.animal else 0.8))
            t._scoring_functions = {"oks": sc}
        hist = []
        verdict = None
        for fi, fr in enumerate(frames):
            dets = [RDet(d["animal"], fi, d["score"], d.get("bad", False)) for d in fr]
            try:
                out = t.track(list(dets), fi)
            except Exception as e:
                verdict = (True, f"[{attempt}] frame {fi} detections {[d['animal'] for d in fr]}: track() raised {type(e).__name__}: {e}")
                break
            hist.append((dets, out))
            bad = check(cfg, hist)
            if bad:
                verdict = (True, f"[{attempt}] frame {fi}: {bad}")
                break
        if verdict:
            return verdict
        outcomes.append(f"[{attempt}] history {[[d['animal'] for d in fr] for fr in frames]} tracked without violation")
    return False, "; ".join(outcomes)
