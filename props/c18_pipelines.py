"""C18 -- interchangeable data-pipeline implementations produce the same samples.

Translation-validation style: each pair of implementations runs on the SAME symbolic example and z3 decides whether
any output element can differ.  (a) the 8 legacy DataPipe blocks vs their functional counterparts; (b) in-memory
Dataset vs the .npz-chunk path vs chunk functions + StreamingDataset.__getitem__, for the four model types."""
from __future__ import annotations
import itertools
from fractions import Fraction
import z3

ID = "C18"
FUNCTIONS = [("sleap_nn.data.normalization", "Normalizer.__iter__"), ("sleap_nn.data.resizing", "Resizer.__iter__"), ("sleap_nn.data.resizing", "PadToStride.__iter__"),
             ("sleap_nn.data.instance_centroids", "InstanceCentroidFinder.__iter__"), ("sleap_nn.data.instance_cropping", "InstanceCropper.__iter__"),
             ("sleap_nn.data.confidence_maps", "ConfidenceMapGenerator.__iter__"), ("sleap_nn.data.confidence_maps", "MultiConfidenceMapGenerator.__iter__"),
             ("sleap_nn.data.edge_maps", "PartAffinityFieldsGenerator.__iter__"),
             ("sleap_nn.data.custom_datasets", "BaseDataset._fill_cache"), ("sleap_nn.data.custom_datasets", "BottomUpDataset.__getitem__"), ("sleap_nn.data.custom_datasets", "CenteredInstanceDataset._fill_cache"),
             ("sleap_nn.data.custom_datasets", "CenteredInstanceDataset.__getitem__"), ("sleap_nn.data.custom_datasets", "CentroidDataset.__getitem__"), ("sleap_nn.data.custom_datasets", "SingleInstanceDataset.__getitem__"),
             ("sleap_nn.data.get_data_chunks", "bottomup_data_chunks"), ("sleap_nn.data.get_data_chunks", "centered_instance_data_chunks"), ("sleap_nn.data.get_data_chunks", "centroid_data_chunks"),
             ("sleap_nn.data.get_data_chunks", "single_instance_data_chunks"), ("sleap_nn.data.streaming_datasets", "BottomUpStreamingDataset.__getitem__"),
             ("sleap_nn.data.streaming_datasets", "CenteredInstanceStreamingDataset.__getitem__"), ("sleap_nn.data.streaming_datasets", "CentroidStreamingDataset.__getitem__"),
             ("sleap_nn.data.streaming_datasets", "SingleInstanceStreamingDataset.__getitem__")]
EXPLANATION = ("Equivalence queries: two implementations are run on the same symbolic example (keypoints with one missing flag per point, concrete 8x8 images) and z3 is "
               "asked whether any label-derived output element (keypoints/centroids, confidence maps, PAFs) can differ; images are compared numerically up to 1/255. "
               "(a) Normalizer, Resizer, PadToStride, InstanceCentroidFinder, InstanceCropper, ConfidenceMapGenerator, MultiConfidenceMapGenerator, PartAffinityFieldsGenerator "
               "vs apply_normalization(+grayscale/rgb), apply_resizer, apply_pad_to_stride, generate_centroids, generate_crops, generate_confmaps, generate_multiconfmaps, "
               "generate_pafs. (b) Dataset.__getitem__ in memory vs np_chunks (savez/load stubbed as a store) vs *_data_chunks + *StreamingDataset.__getitem__ (litdata read "
               "stubbed), all model types at scale 1; single-instance, centroid, bottom-up also at scale 0.5 and 2.")
ASSUMPTIONS = ["keypoints symbolic (one missing flag per point), images concrete; 1-2 frames, <=2 animals, 2 nodes", "np.savez_compressed/np.load and litdata's StreamingDataset.__getitem__ return what was stored",
               "crop_and_resize geometry-only stub: a crop's content is the constant mean of its SOURCE image (identifies which frame was cropped; pixel geometry inside the crop is not modelled)", "exp uninterpreted (equal arguments => equal values)"]
STUBS = ["np / torch proxies in the data modules", "np.savez_compressed / np.load -> in-memory store", "ld.StreamingDataset.__getitem__ -> returns the chunk-function sample", "crop_and_resize -> geometry-only stub"]
OUTSIDE = ["augmentation on", "litdata's on-disk serialisation", "more than 2 frames / 2 animals / 2 nodes", "centered-instance at scale != 1 (documented to differ)"]
REQUIRED_WITNESSES = []


def bounds(tier):
    return {"frames": 2, "animals": "<=2", "nodes": 2, "image": "8x8", "scales": [1.0, 0.5, 2.0], "max_stride": [4], "is_rgb": [False, True]}


BLOCKS = ["Normalizer", "Resizer", "PadToStride", "InstanceCentroidFinder", "InstanceCropper", "ConfidenceMapGenerator", "MultiConfidenceMapGenerator", "MultiConfidenceMapGenerator-centroids", "PartAffinityFieldsGenerator"]


def configs(tier, seed):
    out = [dict(kind="block", block=b) for b in BLOCKS]
    for cls in ("SingleInstance", "Centroid", "BottomUp", "CenteredInstance"):
        for scale in ((1.0,) if cls == "CenteredInstance" else (1.0, 0.5) if cls == "BottomUp" else (1.0, 0.5, 2.0)):
            for rgb in ((False, True) if (tier == "thorough" and scale == 1.0) else (False,)):
                out.append(dict(kind="framework", cls=cls, scale=scale, is_rgb=rgb))
    # user_instances_only=False with a predicted instance next to the user instances (all frameworks must honour the flag alike)
    for cls in (("Centroid", "CenteredInstance") if tier == "quick" else ("Centroid", "CenteredInstance", "BottomUp")):
        out.append(dict(kind="framework", cls=cls, scale=1.0, is_rgb=False, user_only=False))
    # frames smaller than max_height/max_width: the size matcher enlarges them (effective scale 2), keypoints / centroids must follow in every framework
    for cls in (("Centroid", "SingleInstance") if tier == "quick" else ("Centroid", "SingleInstance", "BottomUp", "CenteredInstance")):
        out.append(dict(kind="framework", cls=cls, scale=1.0, is_rgb=False, max_hw=16))
    # two videos whose labelled frames share a frame index (anything keyed by frame_idx alone confuses them)
    for cls in (("CenteredInstance",) if tier == "quick" else ("CenteredInstance", "Centroid", "SingleInstance")):
        out.append(dict(kind="framework", cls=cls, scale=1.0, is_rgb=False, two_videos=True))
    return out


def run_config(cfg):
    return _run_block(cfg) if cfg["kind"] == "block" else _run_framework(cfg)


def _sym_pts(T, name, shape):
    import torch
    from symx.xf import XF
    n = 1
    for d in shape[:-1]:
        n *= d
    vals = []
    for i in range(n):
        fl = z3.Bool(f"{name}_{i}#nan")
        vals += [XF(z3.Real(f"{name}_{i}_x"), fl), XF(z3.Real(f"{name}_{i}_y"), fl)]
    return T.from_values(vals, shape, torch.float32)


def _compare(ex, rep, name, a, b, extract, T, xf, img_tol=False):
    """a, b: tensors (SymTensor or plain).  Records one obligation; on difference a violation."""
    import torch
    from symx.xf import XF, And, xeq_term
    from symx.harness import discharge
    from symx.explorer import model_env, DefaultEnv
    sq = lambda t: tuple(d for d in t.shape if d != 1)
    if tuple(a.shape) != tuple(b.shape) and sq(a) == sq(b):
        rep.notes.append(f"{name}: shapes differ only by singleton dimensions {tuple(a.shape)} vs {tuple(b.shape)} (values compared after squeezing)")
    elif tuple(a.shape) != tuple(b.shape):
        rep.record(name, "sat")
        m = ex.full_model()
        rep.violation(name, f"{name}:shape", f"shapes differ: {tuple(a.shape)} vs {tuple(b.shape)}", extract(m, DefaultEnv(model_env(m))))
        return
    va = a.values() if isinstance(a, T.SymTensor) else [XF.of(v) if a.dtype.is_floating_point else v for v in a.reshape(-1).tolist()]
    vb = b.values() if isinstance(b, T.SymTensor) else [XF.of(v) if b.dtype.is_floating_point else v for v in b.reshape(-1).tolist()]
    goals = []
    for x, y in zip(va, vb):
        if isinstance(x, XF) or isinstance(y, XF):
            x, y = XF.of(x), XF.of(y)
            if x.is_const() and y.is_const():
                fx, fy = x.to_float(), y.to_float()
                if (fx != fx and fy != fy) or fx == fy or (img_tol and abs(fx - fy) <= 1.0 / 255 + 1e-6):
                    continue
                goals.append(False)
                continue
            if xf.isz(x.v) and xf.isz(y.v) and x.v.eq(y.v) and (x.nan is y.nan or (xf.isz(x.nan) and xf.isz(y.nan) and x.nan.eq(y.nan))):
                continue
            goals.append(xeq_term(x, y))
        elif x != y:
            goals.append(False)
    if not goals:
        rep.record(name, "unsat")
        return
    # cheap falsification first: evaluate both sides under a few models of the path (the solver's own and randomised ones); a numeric difference is a
    # candidate counterexample, confirmed by the replay against the real code like every other model.  Equivalence queries whose answer is "different"
    # are the ones nonlinear solving is slowest on.
    hit = _falsify(ex, va, vb, img_tol)
    if hit is not None:
        rep.record(name, "sat")
        rep.violation(name, f"{name}", f"the two implementations can produce different values for '{name}'", extract(hit[0], DefaultEnv(hit[1])))
        return
    discharge(ex, rep, name, And(*goals), on_sat=lambda m, env: (f"{name}", f"the two implementations can produce different values for '{name}'", extract(m, env)))


def _falsify(ex, va, vb, img_tol, tries=6):
    import random, math
    from symx.xf import XF, eval_xf
    from symx.explorer import model_env
    base = ex.full_model()
    if base is None:
        return None
    env0 = model_env(base)
    names = [k for k, v in env0.items() if isinstance(v, Fraction) and "!" not in k and not k.startswith(("sqrt", "exp", "fresh", "spacing"))]
    cands = [(base, env0)]
    rnd = random.Random(len(names) * 7919 + len(va))
    for _ in range(tries):
        extra = [z3.Real(k) == z3.Q(rnd.randrange(-8, 41), 4) for k in names]
        try:
            m = ex.full_model(extra)
        except Exception:  # noqa
            m = None
        if m is not None:
            cands.append((m, model_env(m)))
    class _RandEnv(dict):
        """variables the model does not mention are unconstrained on the path: give them random in-image values (flags: False) instead of 0"""

        def __init__(self, base, salt):
            super().__init__(base)
            self.salt = salt

        def __missing__(self, k):
            if k.endswith("#nan") or k.startswith(("pres", "rev", "bad")):
                v = False
            else:
                v = Fraction(random.Random(f"{k}:{self.salt}").randrange(2, 30), 4)
            self[k] = v
            return v
    cands = [(m, _RandEnv(env, j)) for j, (m, env) in enumerate(cands)] + [(cands[0][0], _RandEnv(cands[0][1], 100 + j)) for j in range(4)]
    best = None  # the candidate with the LARGEST difference (tiny differences drown in float32 on replay)
    for m, env in cands:
        memo = {}
        worst = 0.0
        for x, y in zip(va, vb):
            if not (isinstance(x, XF) or isinstance(y, XF)):
                continue
            try:
                fx, fy = eval_xf(XF.of(x), env, memo), eval_xf(XF.of(y), env, memo)
            except Exception:  # noqa
                worst = 0.0
                break
            if fx != fx and fy != fy:
                continue
            tol = (1.0 / 255 + 1e-6) if img_tol else 1e-7 * max(1.0, abs(fx) if fx == fx else 1.0)
            if (fx != fx) != (fy != fy) or ((math.isinf(fx) or math.isinf(fy)) and fx != fy):
                worst = math.inf
            elif abs(fx - fy) > tol:
                worst = max(worst, abs(fx - fy))
        if worst > 0 and (best is None or worst > best[0]):
            best = (worst, m, env)
    return None if best is None else (best[1], best[2])


# ------------------------------------------------------------------ (a) DataPipe blocks vs functions
def _block_pairs(blk, e1, e2):
    """[(key, block output, function output, is_image)] for one DataPipe block and its functional counterpart on two copies of the same example
    (used by the symbolic run on term tensors and by the replay on real tensors)."""
    import torch
    import sleap_nn.data.instance_cropping as ic
    import sleap_nn.data.normalization as nm
    import sleap_nn.data.resizing as rz
    import sleap_nn.data.instance_centroids as ce
    import sleap_nn.data.confidence_maps as cmm
    import sleap_nn.data.edge_maps as em
    if blk == "Normalizer":
        e1["image"] = torch.arange(192, dtype=torch.uint8).reshape(1, 3, 8, 8)
        e2["image"] = e1["image"].clone()
        out = next(iter(nm.Normalizer([e1], is_rgb=False)))
        ref = nm.convert_to_grayscale(nm.apply_normalization(e2["image"]))
        return [("image", out["image"], ref, True)]
    if blk == "Resizer":
        out = next(iter(rz.Resizer([e1], scale=0.5)))
        ri, rp = rz.apply_resizer(e2["image"], e2["instances"], scale=0.5)
        return [("image", out["image"], ri, True), ("instances", out["instances"], rp, False)]
    if blk == "PadToStride":
        e1["image"] = e1["image"][..., :6, :7].clone()
        e2["image"] = e2["image"][..., :6, :7].clone()
        out = next(iter(rz.PadToStride([e1], max_stride=4)))
        return [("image", out["image"], rz.apply_pad_to_stride(e2["image"], 4), True)]
    if blk == "InstanceCentroidFinder":
        out = next(iter(ce.InstanceCentroidFinder([e1], anchor_ind=0)))
        return [("centroids", out["centroids"], ce.generate_centroids(e2["instances"], anchor_ind=0), False), ("instances-untouched", out["instances"], e2["instances"], False)]
    if blk == "InstanceCropper":
        e1["centroids"] = ce.generate_centroids(e1["instances"], anchor_ind=0)
        cen = ce.generate_centroids(e2["instances"], anchor_ind=0)
        outs = [dict(o) for o in ic.InstanceCropper([e1], crop_hw=(4, 4))]
        res = []
        for q, o in enumerate(outs):
            r = ic.generate_crops(e2["image"], e2["instances"][0, q], cen[0, q], (4, 4))
            res += [(f"instance[{q}]", o["instance"], r["instance"], False), (f"centroid[{q}]", o["centroid"], r["centroid"], False), (f"instance_bbox[{q}]", o["instance_bbox"], r["instance_bbox"], False)]
        res.append(("n_crops", torch.tensor(len(outs)), torch.tensor(2), False))
        return res
    if blk == "ConfidenceMapGenerator":
        e1["instance"] = e1["instances"][:, 0]
        out = next(iter(cmm.ConfidenceMapGenerator([e1], sigma=1.5, output_stride=2, image_key="image", instance_key="instance")))
        return [("confidence_maps", out["confidence_maps"], cmm.generate_confmaps(e2["instances"][:, 0], (8, 8), 1.5, 2), False)]
    if blk.startswith("MultiConfidenceMapGenerator"):
        cen_mode = blk.endswith("centroids")
        if cen_mode:
            e1["centroids"] = ce.generate_centroids(e1["instances"], anchor_ind=0)
            out = next(iter(cmm.MultiConfidenceMapGenerator([e1], sigma=1.5, output_stride=2, centroids=True)))
            ref = cmm.generate_multiconfmaps(ce.generate_centroids(e2["instances"], anchor_ind=0), (8, 8), 2, 1.5, 2, is_centroids=True)
            return [("centroids_confidence_maps", out["centroids_confidence_maps"], ref, False)]
        out = next(iter(cmm.MultiConfidenceMapGenerator([e1], sigma=1.5, output_stride=2, centroids=False)))
        return [("confidence_maps", out["confidence_maps"], cmm.generate_multiconfmaps(e2["instances"], (8, 8), 2, 1.5, 2, is_centroids=False), False)]
    if blk == "PartAffinityFieldsGenerator":
        out = next(iter(em.PartAffinityFieldsGenerator([e1], sigma=1.5, output_stride=4, edge_inds=torch.tensor([[0, 1]]), flatten_channels=True)))
        return [("part_affinity_fields", out["part_affinity_fields"], em.generate_pafs(e2["instances"], (8, 8), 1.5, 4, torch.tensor([[0, 1]]), True), False)]
    raise KeyError(blk)


def _run_block(cfg):
    import torch
    from symx import torchfe as T, xf, stubs
    from symx.xf import XF
    from symx.explorer import Explorer
    from symx.harness import Report
    import sleap_nn.data.instance_cropping as ic
    import sleap_nn.data.normalization as nm
    import sleap_nn.data.resizing as rz
    import sleap_nn.data.instance_centroids as ce
    import sleap_nn.data.confidence_maps as cmm
    import sleap_nn.data.edge_maps as em
    T.install_patches()
    ic.crop_and_resize = stubs.crop_and_resize_geometry
    ic.torch = T.TORCH_PROXY
    rep = Report(cfg)
    blk = cfg["block"]
    ex = Explorer([], timeout_ms=60000, exp_mode="uf", fork_specials=(blk == "PartAffinityFieldsGenerator"), max_paths=500)

    def example():
        pts = _sym_pts(T, "p", (1, 2, 2, 2))
        img = (torch.arange(64, dtype=torch.float32).reshape(1, 1, 8, 8) / 64)
        return {"image": img, "instances": pts, "num_instances": 2, "frame_idx": torch.tensor(0), "video_idx": torch.tensor(0)}

    def path():
        with T.SymMode():
            return _block_pairs(blk, example(), example())

    def extract(model, env):
        return {"points": [[float("nan")] * 2 if env[f"p_{i}#nan"] else [float(env[f"p_{i}_x"]), float(env[f"p_{i}_y"])] for i in range(4)], "block": blk}
    for pairs in ex.run(path):
        rep.paths += 1
        rep.nontrivial_paths += 1
        for (key, a, b, img) in pairs:
            _compare(ex, rep, f"E-{blk}-{key}", a, b, extract, T, xf, img_tol=img)
        rep.sample({"block": blk, "compared": [p[0] for p in pairs]})
    if ex.truncated:
        rep.inconclusive_item("block", "path budget exhausted")
    return rep.finish(extra={"ops": sorted(T.OPS_USED)})


# ------------------------------------------------------------------ (b) frameworks
STORE = {}


def _make_labels(sym, single=False, with_pred=False, two_videos=False):
    """2 frames, frame 0 with two user animals (one for single-instance models), frame 1 with one; 2 nodes; symbolic keypoints."""
    import numpy as np
    from symx.xf import XF
    from symx.numpyfe import SymNd
    from symx import fakes

    def inst(name, env=None):
        a = np.empty((2, 2), dtype=object if env is None else np.float64)
        for n in range(2):
            if env is None:
                fl = z3.Bool(f"{name}_{n}#nan")
                a[n, 0], a[n, 1] = XF(z3.Real(f"{name}_{n}_x"), fl), XF(z3.Real(f"{name}_{n}_y"), fl)
            else:
                a[n] = [float("nan")] * 2 if env[f"{name}_{n}#nan"] else [float(env[f"{name}_{n}_x"]), float(env[f"{name}_{n}_y"])]
        return a.view(SymNd) if env is None else a
    env = None if sym is True else sym
    vid = fakes.FVideo(2, 8, 8)
    lf0 = fakes.FLF(vid, 0, [fakes.FInst(inst("A", env), True, "A")] + ([] if single is True else [fakes.FInst(inst("B", env), True, "B")]), fakes.ramp_image(8, 8, 1, 0))
    lf1 = fakes.FLF(vid, 1, [fakes.FInst(inst("C", env), True, "C")], fakes.ramp_image(8, 8, 1, 1))
    if with_pred:  # a predicted (non-user) instance in frame 0
        lf0 = fakes.FLF(vid, 0, [fakes.FInst(inst("A", env), True, "A"), fakes.FInst(inst("B", env), False, "B")], fakes.ramp_image(8, 8, 1, 0))
    if single == "one-frame":
        return fakes.FLabels([lf0], [vid])
    if two_videos:  # the second frame lives in a second video and has the SAME frame index as the first
        vid2 = fakes.FVideo(2, 8, 8, name="mem2")
        lf1 = fakes.FLF(vid2, 0, [fakes.FInst(inst("C", env), True, "C")], fakes.ramp_image(8, 8, 1, 5))
        return fakes.FLabels([lf0, lf1], [vid, vid2])
    return fakes.FLabels([lf0, lf1], [vid])


def _cfgs(cfg):
    from omegaconf import OmegaConf
    dc = OmegaConf.create({"user_instances_only": cfg.get("user_only", True), "preprocessing": {"is_rgb": cfg["is_rgb"], "max_height": None, "max_width": None, "scale": cfg["scale"], "crop_hw": [4, 4], "min_crop_size": None},
                           "use_augmentations_train": False})
    cm = OmegaConf.create({"sigma": 1.5, "output_stride": 2, "part_names": None, "anchor_part": 0})
    paf = OmegaConf.create({"sigma": 1.5, "output_stride": 4, "edges": None})
    return dc, cm, paf


_TMP = []


def _chunk_dir():
    """BaseDataset.__init__ creates np_chunks_path; give it a scratch directory that is removed at interpreter exit (nothing is written into it: savez/load are the in-memory store)."""
    import tempfile, atexit, shutil, os
    if not _TMP:
        d = tempfile.mkdtemp(prefix="symx_c18_", dir=os.environ.get("SYMX_SCRATCH") or None)  # the run's scratch directory is removed by symx.run
        _TMP.append(d)
        atexit.register(shutil.rmtree, d, True)
    return _TMP[0]


def _build(cfg, labels, np_chunks):
    import sleap_nn.data.custom_datasets as cd
    dc, cm, paf = _cfgs(cfg)
    cls = cfg["cls"] + "Dataset"
    kw = {"BottomUpDataset": dict(confmap_head_config=cm, pafs_head_config=paf), "CenteredInstanceDataset": dict(confmap_head_config=cm, crop_hw=(4, 4)),
          "CentroidDataset": dict(confmap_head_config=cm), "SingleInstanceDataset": dict(confmap_head_config=cm)}[cls]
    return getattr(cd, cls)(labels=labels, data_config=dc, max_stride=4, scale=cfg["scale"], max_hw=(cfg.get("max_hw", 8),) * 2, np_chunks=np_chunks, np_chunks_path=_chunk_dir() if np_chunks else None, **kw)


def _streaming_samples(cfg, labels):
    """chunk function per frame/instance, then the StreamingDataset.__getitem__ of the same model type over the stored chunks."""
    import sleap_nn.data.get_data_chunks as gc
    import sleap_nn.data.streaming_datasets as sd
    from sleap_nn.data.providers import get_max_instances
    dc, cm, paf = _cfgs(cfg)
    cls = cfg["cls"]
    chunks = []
    uo = cfg.get("user_only", True)
    mi = get_max_instances(labels)
    MHW = (cfg.get("max_hw", 8),) * 2
    for lf in labels:
        x = (lf, 0)
        if cls == "BottomUp":
            chunks.append(gc.bottomup_data_chunks(x, dc, mi, MHW, uo, cfg["scale"]))
        elif cls == "Centroid":
            chunks.append(gc.centroid_data_chunks(x, dc, mi, 0, MHW, uo, cfg["scale"]))
        elif cls == "SingleInstance":
            chunks.append(gc.single_instance_data_chunks(x, dc, MHW, uo, cfg["scale"]))
        else:
            res = gc.centered_instance_data_chunks(x, dc, mi, (4, 4), 0, MHW, uo, cfg["scale"])
            chunks.extend(res if isinstance(res, list) else list(res))
    real_get = sd.ld.StreamingDataset.__getitem__
    sd.ld.StreamingDataset.__getitem__ = lambda self, i: dict(chunks[i])
    try:
        C = getattr(sd, cls + "StreamingDataset")
        ds = C.__new__(C)
        ds.confmap_head, ds.max_stride, ds.apply_aug, ds.aug_config = cm, 4, False, None
        if cls == "BottomUp":
            ds.pafs_head, ds.edge_inds = paf, labels.skeletons[0].edge_inds
        if cls == "CenteredInstance":
            ds.crop_hw = (4, 4)
            ds.input_scale = cfg["scale"]
        if cls == "SingleInstance" or cls == "Centroid":
            pass
        return [ds[i] for i in range(len(chunks))]
    finally:
        sd.ld.StreamingDataset.__getitem__ = real_get


KEYS = {"BottomUp": ["instances", "confidence_maps", "part_affinity_fields", "image"], "Centroid": ["centroids", "centroids_confidence_maps", "image"],
        "SingleInstance": ["instances", "confidence_maps", "image"], "CenteredInstance": ["instance", "centroid", "confidence_maps", "instance_image", "instance_bbox"]}


def _install_fw():
    from symx import fakes, torchfe as T, numpyfe, stubs
    prov, cd, ic = fakes.install_dataset_shims(geometry_only_crops=True)
    import sleap_nn.data.get_data_chunks as gc
    import sleap_nn.data.streaming_datasets as sd
    for m in (gc, sd):
        m.np = numpyfe.NP
        m.torch = T.TORCH_PROXY
        if hasattr(m, "crop_and_resize"):
            m.crop_and_resize = stubs.crop_and_resize_geometry
    # npz store
    real_np = numpyfe.real_np

    def savez(fname, **kw):
        # like np.savez: every value becomes an array (a PIL image becomes its uint8 pixel array)
        STORE[str(fname)] = {k: (v if isinstance(v, real_np.ndarray) else real_np.asarray(v)) for k, v in kw.items()}

    def load(fname, *a, **k):
        return STORE[str(fname)]
    numpyfe.NP.savez_compressed = savez
    numpyfe.NP.load = load
    return prov, cd, gc, sd


def _run_framework(cfg):
    import torch
    from symx import torchfe as T, xf
    from symx.explorer import Explorer, model_env, DefaultEnv
    from symx.harness import Report
    prov, cd, gc, sd = _install_fw()
    rep = Report(cfg)
    cls = cfg["cls"]
    names = ("A", "B", "C")
    # every labelled animal has at least one visible node (frames whose instances are all empty are filtered by the in-memory
    # datasets and are the subject of C11, not of the framework comparison)
    base = [z3.Or(z3.Not(z3.Bool(f"{n}_0#nan")), z3.Not(z3.Bool(f"{n}_1#nan"))) for n in names]
    ex = Explorer(base, timeout_ms=60000, exp_mode="uf", fork_specials=(cls == "BottomUp"), max_paths=2000)

    def extract(model, env):
        return {"labels": {f"{n}_{k}": ([float("nan")] * 2 if env[f"{n}_{k}#nan"] else [float(env[f"{n}_{k}_x"]), float(env[f"{n}_{k}_y"])]) for n in names for k in range(2)}}

    def path():
        STORE.clear()
        with T.SymMode():
            try:
                mem = _build(cfg, _make_labels(True, (True if cls == "SingleInstance" else "one-frame" if cls == "BottomUp" else False), not cfg.get("user_only", True), cfg.get("two_videos", False)), False)
                mem_s = [mem[i] for i in range(len(mem))]
                mem_s = [mem[i] for i in range(len(mem))]  # the in-memory samples compared are those of a SECOND pass over the indices (nothing written into the cache by a fetch may change the next one)
                npz = _build(cfg, _make_labels(True, (True if cls == "SingleInstance" else "one-frame" if cls == "BottomUp" else False), not cfg.get("user_only", True), cfg.get("two_videos", False)), True)
                npz_s = [npz[i] for i in range(len(npz))]
                st_s = _streaming_samples(cfg, _make_labels(True, (True if cls == "SingleInstance" else "one-frame" if cls == "BottomUp" else False), not cfg.get("user_only", True), cfg.get("two_videos", False)))
            except Exception as e:  # noqa
                if isinstance(e, xf.EngineGap):
                    raise
                import traceback
                return ("EXC", e, traceback.format_exc()[-800:])
        return ("OK", mem_s, npz_s, st_s)
    for r in ex.run(path):
        rep.paths += 1
        rep.nontrivial_paths += 1
        if r[0] == "EXC":
            m = ex.full_model()
            rep.record("T-all-three-frameworks-produce-samples", "sat")
            rep.violation("T-all-three-frameworks-produce-samples", f"framework-exception:{cls}:{type(r[1]).__name__}", f"{type(r[1]).__name__}: {str(r[1])[:150]} | {r[2][-300:]}", extract(m, DefaultEnv(model_env(m))))
            continue
        rep.record("T-all-three-frameworks-produce-samples", "unsat")
        _, mem_s, npz_s, st_s = r
        for other, tag in ((npz_s, "np_chunks"), (st_s, "streaming")):
            if len(other) != len(mem_s):
                rep.record(f"F-{tag}-same-number-of-samples", "sat")
                m = ex.full_model()
                rep.violation(f"F-{tag}-same-number-of-samples", f"framework:{cls}:{tag}:count", f"in-memory dataset has {len(mem_s)} samples, {tag} has {len(other)}", extract(m, DefaultEnv(model_env(m))))
                continue
            rep.record(f"F-{tag}-same-number-of-samples", "unsat")
            for i, (a, b) in enumerate(zip(mem_s, other)):
                for key in KEYS[cls]:
                    if key not in a or key not in b:
                        rep.record(f"F-{tag}-has-key-{key}", "sat" if (key in a) != (key in b) else "unsat")
                        continue
                    _compare(ex, rep, f"F-{cls}-{tag}-{key}", a[key], b[key], extract, T, xf, img_tol=("image" in key))
        rep.sample({"cls": cls, "scale": cfg["scale"], "samples": len(mem_s), "keys": sorted(mem_s[0].keys()) if mem_s else []})
    if ex.truncated:
        rep.inconclusive_item("framework", "path budget exhausted")
    return rep.finish(extra={"ops": sorted(T.OPS_USED)})


# ------------------------------------------------------------------ replay (real torch / numpy; npz store and litdata read stubbed the same way)
def replay(cfg, inputs, obligation):
    import torch, numpy as np
    from symx.harness import unjson_float
    if cfg["kind"] == "block":
        import kornia.geometry.transform  # real crop kernel
        pts = torch.tensor(unjson_float(inputs["points"]), dtype=torch.float32).reshape(1, 2, 2, 2)

        def example():
            return {"image": (torch.arange(64, dtype=torch.float32).reshape(1, 1, 8, 8) / 64), "instances": pts.clone(), "num_instances": 2, "frame_idx": torch.tensor(0), "video_idx": torch.tensor(0)}
        try:
            pairs = _block_pairs(cfg["block"], example(), example())
        except Exception as e:  # noqa
            return True, f"block or function raised {type(e).__name__}: {e}"
        for key, a_, b_, img in pairs:
            if key not in obligation and not obligation.endswith(key):
                continue
            a_, b_ = torch.as_tensor(a_).float().squeeze(), torch.as_tensor(b_).float().squeeze()
            if a_.shape != b_.shape:
                return True, f"{key}: shapes {tuple(a_.shape)} vs {tuple(b_.shape)}"
            if not torch.allclose(a_, b_, rtol=1e-4, atol=(1.0 / 255 + 1e-6) if img else 1e-5, equal_nan=True):
                k = torch.nan_to_num((a_ - b_).abs(), nan=1e9).argmax()
                return True, f"{key}: block gives {a_.reshape(-1)[k].item()} where the function gives {b_.reshape(-1)[k].item()} (points {pts.reshape(-1, 2).tolist()})"
        return False, "block and function agree"
    import sleap_nn.data.custom_datasets as cd
    import sleap_nn.data.get_data_chunks as gc
    import sleap_nn.data.streaming_datasets as sd
    env = {}
    for k, v in inputs["labels"].items():
        v = unjson_float(v)
        env[f"{k}#nan"] = bool(np.isnan(v[0]))
        env[f"{k}_x"], env[f"{k}_y"] = (0.0, 0.0) if np.isnan(v[0]) else (v[0], v[1])
    real_savez, real_load = cd.np.savez_compressed, cd.np.load
    store = {}

    class NPX:
        def __getattr__(self, k):
            return getattr(np, k)

        @staticmethod
        def savez_compressed(f, **kw):
            store[str(f)] = {k: np.asarray(v) for k, v in kw.items()}

        @staticmethod
        def load(f, *a, **k):
            return store[str(f)]
    cd.np = NPX()
    try:
        mem = _build(cfg, _make_labels(env, (True if cfg["cls"] == "SingleInstance" else "one-frame" if cfg["cls"] == "BottomUp" else False), not cfg.get("user_only", True), cfg.get("two_videos", False)), False)
        mem_s = [mem[i] for i in range(len(mem))]
        mem_s = [mem[i] for i in range(len(mem))]  # second pass, as in the check
        npz = _build(cfg, _make_labels(env, (True if cfg["cls"] == "SingleInstance" else "one-frame" if cfg["cls"] == "BottomUp" else False), not cfg.get("user_only", True), cfg.get("two_videos", False)), True)
        npz_s = [npz[i] for i in range(len(npz))]
        st_s = _streaming_samples(cfg, _make_labels(env, (True if cfg["cls"] == "SingleInstance" else "one-frame" if cfg["cls"] == "BottomUp" else False), not cfg.get("user_only", True), cfg.get("two_videos", False)))
    except Exception as e:
        return obligation.startswith("T-"), f"{type(e).__name__}: {e}"
    finally:
        cd.np = np
    if obligation.startswith("T-"):
        return False, "no exception"
    cls = cfg["cls"]
    for other, tag in ((npz_s, "np_chunks"), (st_s, "streaming")):
        if tag not in obligation:
            continue
        if len(other) != len(mem_s):
            return True, f"{tag}: {len(other)} samples vs {len(mem_s)}"
        for i, (a, b) in enumerate(zip(mem_s, other)):
            for key in KEYS[cls]:
                if key not in obligation or key not in a or key not in b:
                    continue
                x, y = torch.as_tensor(a[key]).float(), torch.as_tensor(b[key]).float()
                tol = 1 / 255 + 1e-5 if "image" in key else 1e-4
                x, y = x.squeeze(), y.squeeze()
                if x.shape != y.shape or not torch.allclose(torch.nan_to_num(x, nan=-9.0), torch.nan_to_num(y, nan=-9.0), atol=tol):
                    return True, f"sample {i} key {key}: in-memory {x.flatten()[:8].tolist()} vs {tag} {y.flatten()[:8].tolist()}"
    return False, "frameworks agree"
