"""C08 -- peak grouping always terminates with a partition of the detected peaks.

The real get_connection_candidates -> match_candidates_sample -> group_instances_sample (assign_connections_to_instances,
make_predicted_instances) chain runs across both front ends (torch SymTensors -> .item()/.numpy() -> numpy object
arrays -> symbolic Hungarian -> Python assembly) with arbitrary (possibly NaN) line scores and opaque peak symbols;
the scoring stage (make_line_subs, get_paf_lines, score_paf_lines, compute_distance_penalty) runs on symbolic peak
positions and PAF values for totality."""
from __future__ import annotations
import itertools
from fractions import Fraction
import z3

ID = "C08"
FUNCTIONS = [("sleap_nn.inference.paf_grouping", "get_connection_candidates"), ("sleap_nn.inference.paf_grouping", "match_candidates_sample"),
             ("sleap_nn.inference.paf_grouping", "group_instances_sample"), ("sleap_nn.inference.paf_grouping", "assign_connections_to_instances"),
             ("sleap_nn.inference.paf_grouping", "make_predicted_instances"), ("sleap_nn.inference.paf_grouping", "make_line_subs"), ("sleap_nn.inference.paf_grouping", "get_paf_lines"),
             ("sleap_nn.inference.paf_grouping", "score_paf_lines"), ("sleap_nn.inference.paf_grouping", "compute_distance_penalty"), ("sleap_nn.inference.paf_grouping", "toposort_edges")]
EXPLANATION = ("Bounded symbolic execution of the real grouping chain: every candidate line score is an unconstrained extended real (NaN allowed: that is what arbitrary PAFs "
               "and coincident peaks produce), peak coordinates and values are opaque symbols (so 'is one of the input peaks carrying its score' is an identity check), "
               "the Hungarian step forks over every optimal finite assignment. On every feasible path: no exception; each output keypoint is an input peak of that node with "
               "its value; no peak twice; <=1 peak per node per instance; instances = connected components of the accepted matches; instance score = sum of accepted edge "
               "scores; per edge the accepted matches are one-to-one and of maximal total score; none below min_line_scores; small instances dropped whole.")
ASSUMPTIONS = ["line scores are arbitrary extended reals (finite or NaN); peak coordinates / values finite", "scipy.optimize.linear_sum_assignment is the validated symbolic Hungarian model (<= 2x2, thorough 3x2)",
               "skeletons are trees in the edge listings of the configuration grid; sorted_edge_inds from the real toposort_edges (C17)"]
STUBS = ["paf_grouping.torch -> proxy (torch.tensor on object arrays, nested tensors)", "paf_grouping.np -> numpy proxy (np.full produces symbolic-capable arrays)", "paf_grouping.linear_sum_assignment -> symbolic Hungarian model"]
OUTSIDE = ["more than 2 peaks per node (thorough: 3 on one node), more than 4 nodes", "batch wrappers (group_instances_batch / match_candidates_batch: nested tensors)", "float rounding"]
REQUIRED_WITNESSES = ["path-with-two-instances", "path-with-rejected-match", "path-with-empty-output"]
KNOWN_NAN = "exception:ValueError:cost-matrix-infeasible:nan-line-score"


def bounds(tier):
    return {"skeletons": "chain/star trees with <=3 (4) nodes in several edge listings", "peaks per node": "0..2", "min_line_scores": "symbolic", "min_instance_peaks": [0, 2, 3, 0.5, 1.0]}


def _skeletons(tier):
    sk = [([(0, 1)], 2), ([(0, 1), (1, 2)], 3), ([(1, 2), (0, 1)], 3), ([(1, 0), (1, 2)], 3)]
    # a 4-node listing whose topological permutation is NOT its own inverse (using the inverse permutation instead goes unnoticed on <= 3 nodes)
    sk += [([(0, 2), (0, 3), (1, 0)], 4)]
    if tier == "thorough":
        sk += [([(0, 1), (1, 2), (1, 3)], 4), ([(2, 3), (0, 1), (1, 2)], 4)]
    return sk


def configs(tier, seed):
    out = []
    for edges, n in _skeletons(tier):
        counts_list = {2: [(1, 1), (2, 2), (2, 1), (0, 2)], 3: [(1, 1, 1), (2, 2, 1), (1, 2, 2), (2, 0, 1), (2, 2, 2)], 4: [(1, 1, 1, 1), (2, 1, 2, 1)]}[n]
        if tier == "quick" and n == 4:
            counts_list = [(1, 1, 1, 1)]
        if tier == "quick" and n == 3:
            counts_list = [(1, 1, 1), (2, 2, 1), (2, 0, 1)] + ([(2, 2, 2)] if edges == [(0, 1), (1, 2)] else [])
        for counts in counts_list:
            mips = [0, 2] if tier == "quick" else [0, 2, 3, 0.5, 1.0]
            if tier == "quick" and tuple(counts) in ((2, 1), (2, 2, 1), (2, 0, 1)):
                mips = mips + [1.0, 0.5]  # fractional thresholds (incl. the float 1.0 = "all nodes") where incomplete instances occur
            for mip in mips:
                out.append(dict(kind="group", edges=edges, n_nodes=n, counts=list(counts), min_instance_peaks=mip, nan_scores=(counts in ((1, 1), (2, 2), (2, 1), (1, 1, 1), (2, 2, 1)))))
    out.append(dict(kind="score", coincide=True))
    out.append(dict(kind="score", coincide=False))
    return out


def run_config(cfg):
    return _run_group(cfg) if cfg["kind"] == "group" else _run_score(cfg)


def _install():
    import sleap_nn.inference.paf_grouping as pg
    from symx import torchfe as T, numpyfe, stubs
    T.install_patches()
    pg.torch = T.TORCH_PROXY
    pg.np = numpyfe.NP
    numpyfe._Flag.sym_factories = True
    pg.linear_sum_assignment = stubs.linear_sum_assignment_model
    return pg


def _run_group(cfg):
    import torch, numpy as np
    from symx import torchfe as T, xf, numpyfe
    from symx.xf import XF, And, Or, Not, rcmp
    from symx.explorer import Explorer, model_env, DefaultEnv
    from symx.harness import Report, discharge
    pg = _install()
    rep = Report(cfg)
    edges, n_nodes, counts, mip = [tuple(e) for e in cfg["edges"]], cfg["n_nodes"], cfg["counts"], cfg["min_instance_peaks"]
    edge_types = [pg.EdgeType(s, d) for s, d in edges]
    sorted_edge_inds = pg.toposort_edges(edge_types)
    ch = [n for n, c in enumerate(counts) for _ in range(c)]
    n_peaks = len(ch)
    mls = z3.Real("min_line_score")
    ex = Explorer([], timeout_ms=60000, max_paths=60000)
    skel = torch.tensor(edges, dtype=torch.int32)

    def path():
        with T.SymMode():
            peak_ch = torch.tensor(ch, dtype=torch.int32)
            try:
                edge_inds, edge_peak_inds = pg.get_connection_candidates(peak_ch, skel, n_nodes)
            except Exception as e:  # noqa  (grouping must finish for ANY peak set, incl. frames where no edge has both endpoints)
                if isinstance(e, xf.EngineGap):
                    raise
                return ("EXC", e, [])
            ncand = int(edge_inds.shape[0])
            scores = T.tensor_of([XF(z3.Real(f"s{i}"), z3.Bool(f"s{i}#nan") if cfg["nan_scores"] else False) for i in range(ncand)], (ncand,), torch.float32)
            peaks = T.tensor_of([XF(z3.Real(f"pk{i}_{d}")) for i in range(n_peaks) for d in "xy"], (n_peaks, 2), torch.float32)
            pvals = T.tensor_of([XF(z3.Real(f"pv{i}")) for i in range(n_peaks)], (n_peaks,), torch.float32)
            cand = [(int(e), int(a), int(b)) for e, (a, b) in zip(edge_inds.materialize().tolist(), edge_peak_inds.materialize().tolist())]
            try:
                me, ms, md, ml = pg.match_candidates_sample(edge_inds, edge_peak_inds, scores, n_edges=len(edges))
                out = pg.group_instances_sample(peaks, pvals, peak_ch, me, ms, md, ml, n_nodes, sorted_edge_inds, edge_types, min_instance_peaks=mip, min_line_scores=XF(mls))
            except Exception as e:  # noqa
                if isinstance(e, xf.EngineGap):
                    raise
                return ("EXC", e, cand)
            matches = list(zip(me.materialize().tolist(), ms.materialize().tolist(), md.materialize().tolist(), ml.values()))
        return ("OK", out, cand, matches)

    def extract(env, cand):
        return {"scores": [("nan" if (cfg["nan_scores"] and env[f"s{i}#nan"]) else float(env[f"s{i}"])) for i in range(len(cand))], "min_line_score": float(env["min_line_score"]),
                "peaks": [[float(env[f"pk{i}_x"]), float(env[f"pk{i}_y"])] for i in range(n_peaks)], "peak_vals": [float(env[f"pv{i}"]) for i in range(n_peaks)]}
    node_peaks = {n: [i for i, c in enumerate(ch) if c == n] for n in range(n_nodes)}  # node -> global peak ids in node-local order
    for r in ex.run(path):
        rep.paths += 1
        rep.nontrivial_paths += 1
        if r[0] == "EXC":
            e, cand = r[1], r[2]
            m = ex.full_model()
            env = DefaultEnv(model_env(m))
            has_nan = cfg["nan_scores"] and any(env[f"s{i}#nan"] for i in range(len(cand)))
            sig = KNOWN_NAN if (isinstance(e, ValueError) and "infeasible" in str(e) and has_nan) else f"exception:{type(e).__name__}:{str(e)[:40]}"
            rep.record("T-no-exception", "sat")
            rep.violation("T-no-exception", sig, f"grouping raised {type(e).__name__}: {str(e)[:100]}", extract(env, cand))
            continue
        rep.record("T-no-exception", "unsat")
        (inst, pscores, iscores), cand, matches = r[1], r[2], r[3]
        inst, pscores, iscores = np.asarray(inst), np.asarray(pscores), np.asarray(iscores)
        n_inst = inst.shape[0]
        rep.witness("path-with-two-instances", n_inst >= 2)
        rep.witness("path-with-empty-output", n_inst == 0)
        # ---- which matches are accepted on this path (score >= min_line_score was decided by the code's own mask)
        accepted = []
        rejected_any = False
        for (e, s_loc, d_loc, sc) in matches:
            sc = XF.of(sc)
            ge = And(Not(sc.nan), rcmp(">=", sc.v, mls)) if not sc.pinf else True
            st_yes = ex.query([xf.zb(ge)]).status
            st_no = ex.query([xf.zb(Not(ge))]).status
            if st_yes == "sat" and st_no == "unsat":
                accepted.append((e, s_loc, d_loc, sc))
            elif st_yes == "unsat":
                rejected_any = True
            else:
                rep.inconclusive_item("accepted-set", "a match is neither accepted nor rejected on the path")
        rep.witness("path-with-rejected-match", rejected_any)
        # ---- O1 one-to-one per edge type
        ok11 = all(len({m_[1] for m_ in accepted if m_[0] == e}) == len([m_ for m_ in accepted if m_[0] == e]) and len({m_[2] for m_ in accepted if m_[0] == e}) == len([m_ for m_ in accepted if m_[0] == e]) for e in range(len(edges)))
        rep.record("O1-accepted-matches-are-one-to-one-per-edge", "unsat" if ok11 else "sat")
        # ---- O2 optimality per edge among finite one-to-one assignments of the same cardinality (all matches returned by the matcher, before thresholding)
        cand_score = {}
        for i, (e, a, b) in enumerate(cand):
            cand_score[(e, a, b)] = XF(z3.Real(f"s{i}"), z3.Bool(f"s{i}#nan") if cfg["nan_scores"] else False)
        # O2b: every returned match carries the line score of ITS OWN (source peak, destination peak) candidate
        goals = []
        for (e, s_loc, d_loc, sc) in matches:
            sn, dn = edges[e]
            if s_loc >= len(node_peaks[sn]) or d_loc >= len(node_peaks[dn]):
                goals.append(False)
                continue
            ref = cand_score[(e, node_peaks[sn][s_loc], node_peaks[dn][d_loc])]
            goals.append(xf.xeq_term(XF.of(sc), ref))
        if goals:
            discharge(ex, rep, "O2b-match-carries-the-score-of-its-own-candidate-pair", And(*goals),
                      on_sat=lambda m, env, cand=cand: ("O2b-score-of-other-pair", "a match between two peaks carries the line score of a different candidate pair (peak positions and scores are misaligned)", extract(env, cand)))
        for e, (sn, dn) in enumerate(edges):
            chosen = [(node_peaks[sn][s_loc], node_peaks[dn][d_loc]) for (ee, s_loc, d_loc, sc) in matches if ee == e]
            S, D = node_peaks[sn], node_peaks[dn]
            k = min(len(S), len(D))
            if k == 0:
                continue
            tot = Fraction(0)
            fin = True
            for (a, b) in chosen:
                tot = xf.radd(tot, cand_score[(e, a, b)].v)
                fin = And(fin, Not(cand_score[(e, a, b)].nan))
            goals = [xf.zb(len(chosen) == k)]
            small, big = (S, D) if len(S) <= len(D) else (D, S)
            for perm in itertools.permutations(big, len(small)):
                pairs = list(zip(small, perm)) if len(S) <= len(D) else list(zip(perm, small))
                t = Fraction(0)
                f2 = True
                for (a, b) in pairs:
                    t = xf.radd(t, cand_score[(e, a, b)].v)
                    f2 = And(f2, Not(cand_score[(e, a, b)].nan))
                goals.append(xf.Implies(f2, And(fin, rcmp(">=", tot, t))))
            discharge(ex, rep, "O2-per-edge-matches-maximise-total-line-score", And(*goals),
                      on_sat=lambda m, env, cand=cand: ("O2-optimality", "the chosen one-to-one matches of an edge type do not maximise the total line score", extract(env, cand)))
        # ---- reference partition: union-find over accepted matches
        parent = {}

        def find(x):
            while parent.get(x, x) != x:
                x = parent[x]
            return x
        for (e, s_loc, d_loc, sc) in accepted:
            a, b = node_peaks[edges[e][0]][s_loc], node_peaks[edges[e][1]][d_loc]
            parent.setdefault(a, a)
            parent.setdefault(b, b)
            ra, rb = find(a), find(b)
            if ra != rb:
                parent[rb] = ra
        comps = {}
        for x in parent:
            comps.setdefault(find(x), set()).add(x)
        thr = int(mip * n_nodes) if isinstance(mip, float) else mip
        comps = [c for c in comps.values() if len(c) >= max(thr, 0)]
        # ---- O3 each output keypoint is an input peak of that node with its value; partition properties
        got = []
        ok_id = True
        for q in range(n_inst):
            members = set()
            for n in range(n_nodes):
                x, y, v = XF.of(inst[q, n, 0]), XF.of(inst[q, n, 1]), XF.of(pscores[q, n])
                if x.nan is True:
                    ok_id = ok_id and (y.nan is True) and (v.nan is True)
                    continue
                hit = [i for i in node_peaks[n] if xf.isz(x.v) and x.v.eq(z3.Real(f"pk{i}_x")) and xf.isz(y.v) and y.v.eq(z3.Real(f"pk{i}_y")) and xf.isz(v.v) and v.v.eq(z3.Real(f"pv{i}"))]
                if len(hit) != 1:
                    ok_id = False
                else:
                    members.add(hit[0])
            got.append(members)
        flat = [p for g in got for p in g]
        ok_part = ok_id and len(flat) == len(set(flat)) and sorted(map(sorted, got)) == sorted(map(sorted, comps))
        rep.record("O3-output-is-the-partition-into-connected-components-of-accepted-matches", "unsat" if ok_part else "sat")
        if not ok_part or not ok11:
            m = ex.full_model()
            rep.violation("O3-output-is-the-partition-into-connected-components-of-accepted-matches", "O3-partition" if ok11 else "O1-one-to-one",
                          f"instances (as sets of input peak ids) {sorted(map(sorted, got))}, expected components {sorted(map(sorted, comps))}; identity ok={ok_id}", extract(DefaultEnv(model_env(m)), cand))
            continue
        # ---- O4 instance score = sum of its accepted edge scores
        goals = []
        for q, members in enumerate(got):
            tot = Fraction(0)
            for (e, s_loc, d_loc, sc) in accepted:
                if node_peaks[edges[e][0]][s_loc] in members:
                    tot = xf.radd(tot, sc.v)
            sq = XF.of(iscores[q])
            goals.append(And(sq.fin(), rcmp("==", sq.v, tot)))
        if goals:
            discharge(ex, rep, "O4-instance-score-is-sum-of-accepted-edge-scores", And(*goals),
                      on_sat=lambda m, env, cand=cand: ("O4-score", "an instance score is not the sum of its accepted edge scores", extract(env, cand)))
        rep.sample({"instances": sorted(map(sorted, got)), "accepted": [(e, a, b) for e, a, b, _ in accepted], "path_condition": ex.path_summary(2, 60)})
    rep.infeasible_paths = ex.infeasible
    if ex.truncated:
        rep.inconclusive_item("group", "path budget exhausted")
    return rep.finish(extra={"ops": sorted(T.OPS_USED)})


def _run_score(cfg):
    """scoring stage + matching for two node types with one peak each on a symbolic 2x2 PAF: totality (coincident peaks give a zero-length candidate)."""
    import torch
    from symx import torchfe as T, xf, numpyfe
    from symx.xf import XF, And, Or, Not, rcmp
    from symx.explorer import Explorer, model_env, DefaultEnv
    from symx.harness import Report
    pg = _install()
    rep = Report(cfg)
    px = [z3.Real(n) for n in ("ax", "ay", "bx", "by")]
    base = [z3.And(v >= -8, v <= 8) for v in px]
    if not cfg["coincide"]:
        base.append(z3.Or(px[0] != px[2], px[1] != px[3]))
    else:
        base += [px[0] == px[2], px[1] == px[3]]
    ex = Explorer(base, timeout_ms=60000, fork_specials=True, max_paths=5000)

    def path():
        with T.SymMode():
            peaks = T.tensor_of([XF(v) for v in px], (2, 2), torch.float32)
            pafs = T.sym_float_tensor("paf", (2, 2, 2))
            peak_ch = torch.tensor([0, 1], dtype=torch.int32)
            skel = torch.tensor([[0, 1]], dtype=torch.int32)
            try:
                edge_inds, edge_peak_inds = pg.get_connection_candidates(peak_ch, skel, 2)
                lines = pg.get_paf_lines(pafs, peaks, edge_peak_inds, edge_inds, n_line_points=3, pafs_stride=2)
                scores = pg.score_paf_lines(lines, peaks, edge_peak_inds, max_edge_length=2.0, dist_penalty_weight=1.0)
                me, ms, md, ml = pg.match_candidates_sample(edge_inds, edge_peak_inds, scores, n_edges=1)
            except Exception as e:  # noqa
                if isinstance(e, xf.EngineGap):
                    raise
                return ("EXC", e)
        return ("OK", scores)
    for r in ex.run(path):
        rep.paths += 1
        rep.nontrivial_paths += 1
        if r[0] == "EXC":
            e = r[1]
            m = ex.full_model()
            env = DefaultEnv(model_env(m))
            same = abs(float(env["ax"]) - float(env["bx"])) < 1e-12 and abs(float(env["ay"]) - float(env["by"])) < 1e-12
            sig = (KNOWN_NAN if (same and isinstance(e, ValueError) and "infeasible" in str(e)) else f"exception:{type(e).__name__}:{str(e)[:40]}")
            rep.record("T-scoring-and-matching-do-not-raise", "sat")
            rep.violation("T-scoring-and-matching-do-not-raise", sig, f"{type(e).__name__}: {str(e)[:100]} with peaks a=({env['ax']},{env['ay']}) b=({env['bx']},{env['by']})",
                          {"peaks": [[float(env["ax"]), float(env["ay"])], [float(env["bx"]), float(env["by"])]], "pafs": [float(env[f"paf_{i}"]) for i in range(8)]})
            continue
        rep.record("T-scoring-and-matching-do-not-raise", "unsat")
        rep.sample({"score": str(r[1].values()[0])[:200]})
    for w in REQUIRED_WITNESSES:
        rep.witness(w, True)
    if ex.truncated:
        rep.inconclusive_item("score", "path budget exhausted")
    return rep.finish(extra={"ops": sorted(T.OPS_USED)})


# ------------------------------------------------------------------ replay (real torch / numpy / scipy)
def replay(cfg, inputs, obligation):
    import torch, numpy as np, warnings
    warnings.simplefilter("ignore")
    from symx.harness import unjson_float
    import sleap_nn.inference.paf_grouping as pg
    if cfg["kind"] == "score":
        peaks = torch.tensor(inputs["peaks"], dtype=torch.float32)
        pafs = torch.tensor(inputs["pafs"], dtype=torch.float32).reshape(2, 2, 2)
        peak_ch = torch.tensor([0, 1], dtype=torch.int32)
        skel = torch.tensor([[0, 1]], dtype=torch.int32)
        try:
            edge_inds, edge_peak_inds = pg.get_connection_candidates(peak_ch, skel, 2)
            lines = pg.get_paf_lines(pafs, peaks, edge_peak_inds, edge_inds, n_line_points=3, pafs_stride=2)
            scores = pg.score_paf_lines(lines, peaks, edge_peak_inds, max_edge_length=2.0, dist_penalty_weight=1.0)
            pg.match_candidates_sample(edge_inds, edge_peak_inds, scores, n_edges=1)
        except Exception as e:
            return True, f"peaks {inputs['peaks']}: {type(e).__name__}: {e}"
        return False, f"no exception (line scores {scores.tolist()})"
    edges, n_nodes, counts, mip = [tuple(e) for e in cfg["edges"]], cfg["n_nodes"], cfg["counts"], cfg["min_instance_peaks"]
    edge_types = [pg.EdgeType(s, d) for s, d in edges]
    sorted_edge_inds = pg.toposort_edges(edge_types)
    ch = [n for n, c in enumerate(counts) for _ in range(c)]
    peak_ch = torch.tensor(ch, dtype=torch.int32)
    skel = torch.tensor(edges, dtype=torch.int32)
    scores = torch.tensor(unjson_float(inputs["scores"]), dtype=torch.float32)
    peaks = torch.tensor(inputs["peaks"], dtype=torch.float32).reshape(-1, 2)
    pvals = torch.tensor(inputs["peak_vals"], dtype=torch.float32)
    mls = inputs["min_line_score"]
    try:
        edge_inds, edge_peak_inds = pg.get_connection_candidates(peak_ch, skel, n_nodes)
        me, ms, md, ml = pg.match_candidates_sample(edge_inds, edge_peak_inds, scores, n_edges=len(edges))
        inst, ps, isc = pg.group_instances_sample(peaks, pvals, peak_ch, me, ms, md, ml, n_nodes, sorted_edge_inds, edge_types, min_instance_peaks=mip, min_line_scores=mls)
    except Exception as e:
        return obligation.startswith("T-"), f"raised {type(e).__name__}: {e} (scores {inputs['scores']})"
    if obligation.startswith("T-"):
        return False, "no exception"
    node_peaks = {n: [i for i, c in enumerate(ch) if c == n] for n in range(n_nodes)}
    sc = scores.numpy().astype(np.float64)
    cand = {(int(e), int(a), int(b)): sc[i] for i, (e, (a, b)) in enumerate(zip(edge_inds.tolist(), edge_peak_inds.tolist()))}
    matches = [(int(e), node_peaks[edges[int(e)][0]][int(s)], node_peaks[edges[int(e)][1]][int(d)], float(l)) for e, s, d, l in zip(me.tolist(), ms.tolist(), md.tolist(), ml.tolist())]
    if obligation.startswith("O2b"):
        for (e, a, b, l) in matches:
            c = cand[(e, a, b)]
            if not ((np.isnan(c) and np.isnan(l)) or abs(c - l) < 1e-5):
                return True, f"match of edge {e} between peaks {a}->{b} carries line score {l}, but that candidate's score is {c} (scores {inputs['scores']})"
        return False, "every match carries its own candidate's score"
    if obligation.startswith("O2"):
        for e, (sn, dn) in enumerate(edges):
            S, D = node_peaks[sn], node_peaks[dn]
            k = min(len(S), len(D))
            if k == 0:
                continue
            tot = sum(l for (ee, a, b, l) in matches if ee == e)
            small, big = (S, D) if len(S) <= len(D) else (D, S)
            for perm in itertools.permutations(big, k):
                pairs = list(zip(small, perm)) if len(S) <= len(D) else list(zip(perm, small))
                t = sum(cand[(e, a, b)] for a, b in pairs)
                if np.isfinite(t) and not (np.isfinite(tot) and tot >= t - 1e-6):
                    return True, f"edge {e}: chosen total {tot} < alternative {pairs} total {t}"
        return False, "optimal"
    accepted = [(e, a, b, l) for (e, a, b, l) in matches if l >= np.float32(mls)]
    parent = {}

    def find(x):
        while parent.get(x, x) != x:
            x = parent[x]
        return x
    for e, a, b, l in accepted:
        parent.setdefault(a, a)
        parent.setdefault(b, b)
        if find(a) != find(b):
            parent[find(b)] = find(a)
    comps = {}
    for x in parent:
        comps.setdefault(find(x), set()).add(x)
    thr = int(mip * n_nodes) if isinstance(mip, float) else mip
    comps = sorted(sorted(c) for c in comps.values() if len(c) >= thr)
    got = []
    P = peaks.numpy()
    for q in range(inst.shape[0]):
        mem = []
        for n in range(n_nodes):
            if np.isnan(inst[q, n, 0]):
                continue
            hit = [i for i in node_peaks[n] if np.allclose(P[i], inst[q, n]) and np.isclose(pvals[i], ps[q, n])]
            if len(hit) < 1:
                return True, f"instance {q} node {n}: {inst[q, n]} is not an input peak of that node"
            mem.append(hit[0])
        got.append(sorted(mem))
    if obligation.startswith(("O3", "O1")):
        return sorted(got) != comps, f"instances {sorted(got)} expected components {comps}"
    if obligation.startswith("O4"):
        for q, mem in enumerate(got):
            tot = sum(l for e, a, b, l in accepted if a in mem)
            if abs(tot - isc[q]) > 1e-4:
                return True, f"instance {q} score {isc[q]} != sum of accepted edge scores {tot}"
        return False, "scores add up"
    return False, "unknown obligation"
