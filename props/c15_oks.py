"""C15 -- keypoint similarity and instance matching obey their mathematical contracts.

The real compute_oks / compute_instance_area / match_instances / greedy_matching / compute_iou /
compute_euclidean_distance / compute_cosine_sim run on numpy object arrays of z3-backed scalars."""
from __future__ import annotations
import itertools, math
from fractions import Fraction
import z3

ID = "C15"
FUNCTIONS = [("sleap_nn.evaluation", "compute_oks"), ("sleap_nn.evaluation", "compute_instance_area"), ("sleap_nn.evaluation", "match_instances"),
             ("sleap_nn.evaluation", "get_instances"), ("sleap_nn.tracking.utils", "greedy_matching"), ("sleap_nn.tracking.utils", "hungarian_matching"),
             ("sleap_nn.tracking.utils", "compute_iou"), ("sleap_nn.tracking.utils", "compute_euclidean_distance"), ("sleap_nn.tracking.utils", "compute_cosine_sim")]
EXPLANATION = ("Bounded symbolic execution of the real OKS / matching code over numpy object arrays whose elements are z3-backed extended reals: every pose "
               "coordinate is an unconstrained real, every point may be missing; the missing-pattern masks fork path by path. Per path z3 decides: no "
               "exception; OKS equals the reference sum over nodes visible in both poses of exp(-d^2/norm)/n_visible_gt (so gt-missing nodes are ignored and "
               "pr-missing nodes count as complete misses), lies in [0,1], is 1 for identical poses, is monotone in one keypoint's distance, invariant under "
               "translation and equivariant under instance permutation; match_instances uses every gt and pr at most once and pairs+false negatives = all gt; "
               "greedy/Hungarian matching are one-to-one and total on min(n,m); IoU in [0,1], cosine similarity in [-1,1], -distance <= 0. Binary64 slice "
               "(symx/fpast.py): the arithmetic producing compute_oks's normalisation factor, lifted from the current source, is positive and finite for every "
               "scale in [0, 2^40] and stddev in [2^-7, 2] in both normalisation modes (so a pose compared with itself never yields 0/0).")
ASSUMPTIONS = ["exact real arithmetic + IEEE special values; a missing point has both coordinates NaN (one flag per point)",
               "exp uninterpreted with axioms (equalities, monotonicity) or fresh bounded real (range)", "stddev > 0, scale > 0 when given; np.spacing(1) is its float64 value",
               "frames are duck-typed stand-ins (the installed sleap_io API differs from the one the repo targets); scipy.optimize.linear_sum_assignment is the validated symbolic Hungarian model"]
STUBS = ["evaluation.np / tracking.utils.np -> symx.numpyfe.NP proxy (real numpy except reductions/ufuncs on object arrays)",
         "tracking.utils.linear_sum_assignment -> symx.stubs.linear_sum_assignment_model (validated against scipy on seeded matrices)"]
OUTSIDE = ["more than 2 gt x 2 predicted instances x 3 nodes", "float rounding other than in the normalisation factor (G1)", "3-D poses"]
REQUIRED_WITNESSES = ["path-with-missing-gt-node", "path-with-missing-pr-node", "path-all-visible"]


def bounds(tier):
    return {"n_gt": "<=2", "n_pr": "<=2", "nodes": "<=2 (thorough 3)", "stddev": "0.125 (binary-exact) or symbolic > 0", "scale": "None (bbox area) or symbolic > 0",
            "normalisation": ["cocoeval", "paper"], "matching matrices": "<=3x3 (greedy), <=3x3 (hungarian)"}


def configs(tier, seed):
    out = []
    shapes = [(1, 1, 2), (2, 1, 2), (1, 2, 1), (2, 2, 1)] + ([(1, 1, 3), (2, 2, 2)] if tier == "thorough" else [])
    for (g, p, n) in shapes:
        for coco in (True, False):
            for scale in ("none", "sym"):
                if tier == "quick" and (g, p, n) != (1, 1, 2) and (not coco or scale == "sym"):
                    continue
                for mode in ("uf", "fresh"):
                    out.append(dict(kind="oks", n_gt=g, n_pr=p, nodes=n, coco=coco, scale=scale, stddev="sym" if (g, p, n) == (1, 1, 2) and mode == "uf" else 0.125, mode=mode))
    # independent NaN flag per coordinate (a point with only x or only y missing); explicit scale so that the bbox-area
    # normalisation (np.nanmin/nanmax per coordinate) does not enter the reference
    for (g, p, n) in [(1, 1, 1), (1, 1, 2)] + ([(2, 1, 1), (1, 2, 1)] if tier == "thorough" else []):
        for coco in (True, False):
            for mode in ("uf", "fresh"):
                out.append(dict(kind="oks", n_gt=g, n_pr=p, nodes=n, coco=coco, scale="sym", stddev=0.125, mode=mode, per_coord=True))
    for (g, n) in [(1, 2), (2, 1)] + ([(1, 3), (2, 2)] if tier == "thorough" else []):
        out.append(dict(kind="mono", n_gt=g, nodes=n, coco=True))
        out.append(dict(kind="invariance", n_gt=g, nodes=n, coco=True))
    for (g, p) in [(0, 0), (0, 1), (1, 0), (1, 1), (2, 1), (1, 2), (2, 2)]:
        out.append(dict(kind="match", n_gt=g, n_pr=p, nodes=1 if g * p >= 4 else 2))
    for (n, m) in [(1, 1), (2, 2), (2, 3), (3, 2)] + ([(3, 3)] if tier == "thorough" else []):
        if (n, m) != (3, 3):  # greedy sorts all n*m symbolic scores: 9! orderings exceed the path budget
            out.append(dict(kind="assign", n=n, m=m, algo="greedy"))
        out.append(dict(kind="assign", n=n, m=m, algo="hungarian"))
    out.append(dict(kind="scores"))
    for coco in (True, False):
        out.append(dict(kind="float", coco=coco))
    out.append(dict(kind="validate", seed=seed))
    return out


def run_config(cfg):
    return {"oks": _run_oks, "mono": _run_mono, "invariance": _run_inv, "match": _run_match, "assign": _run_assign, "scores": _run_scores, "float": _run_float, "validate": _validate}[cfg["kind"]](cfg)


def _install():
    import sleap_nn.evaluation as ev
    import sleap_nn.tracking.utils as tu
    from symx import numpyfe, stubs
    ev.np = numpyfe.NP
    tu.np = numpyfe.NP
    tu.linear_sum_assignment = stubs.linear_sum_assignment_model

    class _L:
        def __getattr__(self, k):
            return lambda *a, **kw: None
    ev.logger = _L()
    return ev, tu


PER_COORD = [False]  # flag mode of the current configuration: one NaN flag per point, or one per coordinate


def _pts(name, n_inst, nodes):
    """(n_inst, nodes, 2) object array; one missing flag per point, or (PER_COORD) an independent flag per coordinate."""
    import numpy as np
    from symx.xf import XF
    from symx.numpyfe import SymNd
    a = np.empty((n_inst, nodes, 2), dtype=object)
    for i in range(n_inst):
        for n in range(nodes):
            fl = z3.Bool(f"{name}_{i}_{n}#nan")
            fy = z3.Bool(f"{name}_{i}_{n}_y#nan") if PER_COORD[0] else fl
            a[i, n, 0] = XF(z3.Real(f"{name}_{i}_{n}_x"), fl)
            a[i, n, 1] = XF(z3.Real(f"{name}_{i}_{n}_y"), fy)
    return a.view(SymNd)


def _pts_from_env(name, n_inst, nodes, env):
    out = []
    for i in range(n_inst):
        inst = []
        for n in range(nodes):
            xn = bool(env[f"{name}_{i}_{n}#nan"])
            yn = bool(env[f"{name}_{i}_{n}_y#nan"]) if PER_COORD[0] else xn
            inst.append([float("nan") if xn else float(env[f"{name}_{i}_{n}_x"]), float("nan") if yn else float(env[f"{name}_{i}_{n}_y"])])
        out.append(inst)
    return out


EPS = Fraction(2.220446049250313e-16)  # np.spacing(1)


def _ref_oks(gt, pr, i, j, nodes, coco, scale_i, stddev, exp):
    """reference from the statement: sum over nodes visible in gt AND pr of exp(-d^2/norm) / (# visible gt nodes)."""
    from symx import xf
    from symx.xf import XF, Or, Not, And
    tot = Fraction(0)
    nvis = Fraction(0)
    for n in range(nodes):
        gx, gy, px, py = gt[i, n, 0], gt[i, n, 1], pr[j, n, 0], pr[j, n, 1]
        gvis = Not(Or(gx.nan, gy.nan))
        pvis = Not(Or(px.nan, py.nan))
        d2 = xf.radd(xf.rmul(xf.rsub(gx.v, px.v), xf.rsub(gx.v, px.v)), xf.rmul(xf.rsub(gy.v, py.v), xf.rsub(gy.v, py.v)))
        if coco:
            norm = xf.rmul(xf.rmul(4, xf.rmul(stddev, stddev)), xf.rmul(2, xf.radd(scale_i, EPS)))
        else:
            se = xf.radd(scale_i, EPS)
            norm = xf.rmul(xf.rmul(stddev, stddev), xf.rmul(2, xf.rmul(se, se)))
        k = exp(xf.rneg(xf.rdiv(d2, norm)))
        tot = xf.radd(tot, xf.RIte(And(gvis, pvis), k, Fraction(0)))
        nvis = xf.radd(nvis, xf.RIte(gvis, Fraction(1), Fraction(0)))
    return tot, nvis


def _ref_area(gt, i, nodes):
    """bbox area over the visible nodes of gt instance i (None if no visible node)."""
    from symx import xf
    from symx.xf import Not
    lo = [None, None]
    hi = [None, None]
    anyvis = False
    for n in range(nodes):
        vis = Not(gt[i, n, 0].nan)
        for d in (0, 1):
            v = gt[i, n, d].v
            if lo[d] is None:
                lo[d], hi[d] = (v, vis), (v, vis)
            else:
                (lv, lvis), (hv, hvis) = lo[d], hi[d]
                lo[d] = (xf.RIte(xf.And(vis, xf.Or(Not(lvis), xf.rcmp("<", v, lv))), v, lv), xf.Or(lvis, vis))
                hi[d] = (xf.RIte(xf.And(vis, xf.Or(Not(hvis), xf.rcmp(">", v, hv))), v, hv), xf.Or(hvis, vis))
    return xf.rmul(xf.rsub(hi[0][0], lo[0][0]), xf.rsub(hi[1][0], lo[1][0]))


def _run_oks(cfg):
    from symx import xf, numpyfe
    from symx.xf import XF, And, Or, Not, rcmp, R, EXP
    from symx.explorer import Explorer
    from symx.harness import Report, discharge, discharge_all
    ev, tu = _install()
    rep = Report(cfg)
    PER_COORD[0] = bool(cfg.get("per_coord"))
    G, P, N, coco = cfg["n_gt"], cfg["n_pr"], cfg["nodes"], cfg["coco"]
    base = []
    if cfg["stddev"] == "sym":
        sd = z3.Real("stddev")
        base.append(sd > 0)
    else:
        sd = Fraction(cfg["stddev"])
    sc = None
    if cfg["scale"] == "sym":
        sc = z3.Real("scale")
        base.append(sc > 0)
    uf = cfg["mode"] == "uf"
    ex = Explorer(base, timeout_ms=60000, exp_mode=cfg["mode"], fork_specials=True)

    def path():
        gt, pr = _pts("g", G, N), _pts("p", P, N)
        try:
            oks = ev.compute_oks(gt, pr, scale=None if sc is None else XF(sc), stddev=XF(sd) if xf.isz(sd) else float(sd), use_cocoeval=coco)
            same = ev.compute_oks(gt, gt, scale=None if sc is None else XF(sc), stddev=XF(sd) if xf.isz(sd) else float(sd), use_cocoeval=coco)
        except Exception as e:  # noqa: an exception of the code under test on a feasible path is a totality violation
            if isinstance(e, xf.EngineGap):
                raise
            return gt, pr, e, None
        return gt, pr, oks, same

    def extract(model, env):
        d = {"gt": _pts_from_env("g", G, N, env), "pr": _pts_from_env("p", P, N, env)}
        if cfg["stddev"] == "sym":
            d["stddev"] = float(env["stddev"])
        if sc is not None:
            d["scale"] = float(env["scale"])
        return d
    from symx.explorer import model_env, DefaultEnv
    for gt, pr, oks, same in ex.run(path):
        rep.paths += 1
        rep.nontrivial_paths += 1
        if isinstance(oks, Exception):
            rep.record("T-no-exception", "sat")
            m = ex.full_model()
            rep.violation("T-no-exception", f"T-exception:{type(oks).__name__}:n_pr={'1' if P == 1 else '>1'}", f"compute_oks raised {type(oks).__name__}: {str(oks)[:120]}",
                          extract(m, DefaultEnv(model_env(m))))
            continue
        rep.record("T-no-exception", "unsat")
        miss_g = [[ex.query([xf.zb(Or(gt[i, n, 0].nan, gt[i, n, 1].nan))]).status == "sat" for n in range(N)] for i in range(G)]
        miss_p = [[ex.query([xf.zb(Or(pr[j, n, 0].nan, pr[j, n, 1].nan))]).status == "sat" for n in range(N)] for j in range(P)]
        rep.witness("path-with-missing-gt-node", any(any(r) for r in miss_g))
        rep.witness("path-with-missing-pr-node", any(any(r) for r in miss_p))
        rep.witness("path-all-visible", not any(any(r) for r in miss_g) and not any(any(r) for r in miss_p))
        ok_shape = tuple(oks.shape) == (G, P)
        rep.record("O0-shape", "unsat" if ok_shape else "sat")
        if not ok_shape:
            continue
        for i in range(G):
            has_vis = not all(miss_g[i])
            scale_i = sc if sc is not None else _ref_area(gt, i, N)
            for j in range(P):
                o = XF.of(oks[i, j])
                if not has_vis:
                    continue  # no visible gt node: 0/0, outside the claim ("whenever a gt node is visible")
                if uf:
                    tot, nvis = _ref_oks(gt, pr, i, j, N, coco, scale_i, sd, lambda a: EXP(R(a)))
                    goal = And(o.fin(), rcmp("==", xf.rmul(o.v, nvis), tot))
                    discharge(ex, rep, "O1-equals-reference-oks", goal, on_sat=lambda m, env: ("O1-spec", "OKS differs from sum_{visible in both} exp(-d^2/norm)/n_visible_gt", extract(m, env)))
                else:
                    discharge(ex, rep, "O2-range-0-1-not-nan", And(o.fin(), rcmp(">=", o.v, 0), rcmp("<=", o.v, 1)),
                              on_sat=lambda m, env: ("O2-range", "OKS is NaN/inf or outside [0,1] although a gt node is visible", extract(m, env)))
            if has_vis and uf:
                s_ = XF.of(same[i, i])
                discharge(ex, rep, "O3-identical-poses-give-1", And(s_.fin(), rcmp("==", s_.v, 1)),
                          on_sat=lambda m, env: ("O3-identity", "OKS of a pose with itself is not 1", extract(m, env)))
        rep.sample({"path_condition": ex.path_summary(3, 70), "missing_gt": miss_g, "missing_pr": miss_p})
    rep.infeasible_paths = ex.infeasible
    return rep.finish(extra={"np_overrides": sorted(numpyfe.OVERRIDES_USED)})


def _run_mono(cfg):
    PER_COORD[0] = False
    """moving ONE predicted keypoint farther from its target never increases OKS."""
    from symx import xf, numpyfe
    from symx.xf import XF, And, Or, Not, rcmp
    from symx.explorer import Explorer
    from symx.harness import Report, discharge
    ev, tu = _install()
    rep = Report(cfg)
    G, N = cfg["n_gt"], cfg["nodes"]
    ex = Explorer([], timeout_ms=60000, exp_mode="uf", fork_specials=True)

    def path():
        gt, pr = _pts("g", G, N), _pts("p", 1, N)
        pr2 = pr.copy()
        pr2[0, 0, 0] = XF(z3.Real("q_x"), pr[0, 0, 0].nan)
        pr2[0, 0, 1] = XF(z3.Real("q_y"), pr[0, 0, 0].nan)
        return gt, pr, pr2, ev.compute_oks(gt, pr), ev.compute_oks(gt, pr2)

    def extract(model, env):
        d = {"gt": _pts_from_env("g", G, N, env), "pr": _pts_from_env("p", 1, N, env)}
        d["moved"] = [float(env["q_x"]), float(env["q_y"])]
        return d
    for gt, pr, pr2, o1, o2 in ex.run(path):
        rep.paths += 1
        rep.nontrivial_paths += 1
        for i in range(G):
            if ex.query([xf.zb(And(*[gt[i, n, 0].nan for n in range(N)]))]).status == "sat":
                continue
            gx, gy = gt[i, 0, 0].v, gt[i, 0, 1].v

            def d2(p):
                return xf.radd(xf.rmul(xf.rsub(gx, p[0, 0, 0].v), xf.rsub(gx, p[0, 0, 0].v)), xf.rmul(xf.rsub(gy, p[0, 0, 1].v), xf.rsub(gy, p[0, 0, 1].v)))
            a, b = XF.of(o1[i, 0]), XF.of(o2[i, 0])
            goal = xf.Implies(rcmp(">=", d2(pr2), d2(pr)), And(a.fin(), b.fin(), rcmp("<=", b.v, a.v)))
            discharge(ex, rep, "O4-farther-keypoint-never-increases-oks", goal,
                      on_sat=lambda m, env: ("O4-monotone", "moving one predicted keypoint farther from its target increased OKS", extract(m, env)))
        rep.sample({"path_condition": ex.path_summary(2, 70)})
    for w in REQUIRED_WITNESSES:
        rep.witness(w, True)
    return rep.finish()


def _run_inv(cfg):
    PER_COORD[0] = False
    """translation invariance and permutation equivariance (the latter needs n_pr = 2 in one call)."""
    import numpy as np
    from symx import xf, numpyfe
    from symx.xf import XF, And, Or, Not, rcmp, xeq_term
    from symx.explorer import Explorer, model_env, DefaultEnv
    from symx.harness import Report, discharge
    ev, tu = _install()
    rep = Report(cfg)
    G, N = cfg["n_gt"], cfg["nodes"]
    ex = Explorer([], timeout_ms=60000, exp_mode="uf", fork_specials=True)
    tx, ty = z3.Real("tx"), z3.Real("ty")

    def shift(a):
        b = a.copy()
        for idx in np.ndindex(*a.shape[:-1]):
            b[idx + (0,)] = XF(a[idx + (0,)].v + tx, a[idx + (0,)].nan)
            b[idx + (1,)] = XF(a[idx + (1,)].v + ty, a[idx + (1,)].nan)
        return b

    sc = z3.Real("scale")
    ex.base.append(sc > 0)

    def path():
        gt, pr = _pts("g", G, N), _pts("p", 2, N)
        try:
            # translation: with an explicit scale, plus (separately) the bounding-box area used when scale is None
            o = ev.compute_oks(gt, pr, scale=XF(sc))
            ot = ev.compute_oks(shift(gt), shift(pr), scale=XF(sc))
            ar, art = ev.compute_instance_area(gt), ev.compute_instance_area(shift(gt))
            # permutation: scale None (bbox area of each gt instance)
            o2 = ev.compute_oks(gt, pr)
            op = ev.compute_oks(gt[::-1], pr[::-1])
        except Exception as e:  # noqa
            if isinstance(e, xf.EngineGap):
                raise
            return gt, pr, e, None, None
        return gt, pr, o, ot, (ar, art, o2, op)

    def extract(model, env):
        return {"gt": _pts_from_env("g", G, N, env), "pr": _pts_from_env("p", 2, N, env), "t": [float(env["tx"]), float(env["ty"])]}
    for gt, pr, o, ot, op in ex.run(path):
        rep.paths += 1
        rep.nontrivial_paths += 1
        if isinstance(o, Exception):
            rep.record("T-no-exception", "sat")
            m = ex.full_model()
            rep.violation("T-no-exception", f"T-exception:{type(o).__name__}:n_pr=>1", f"compute_oks raised {type(o).__name__}: {str(o)[:120]}", extract(m, DefaultEnv(model_env(m))))
            continue
        rep.record("T-no-exception", "unsat")
        for i in range(G):
            if ex.query([xf.zb(And(*[gt[i, n, 0].nan for n in range(N)]))]).status == "sat":
                continue
            ar, art, o2, opm = op
            discharge(ex, rep, "O5b-bbox-area-translation-invariant", xeq_term(XF.of(ar[i]), XF.of(art[i])), timeout_ms=30000,
                      on_sat=lambda m, env: ("O5-area", "translating a pose changes its bounding-box area", extract(m, env)))
            for j in range(2):
                discharge(ex, rep, "O5-translation-invariant", xeq_term(XF.of(o[i, j]), XF.of(ot[i, j])), timeout_ms=30000,
                          on_sat=lambda m, env: ("O5-translation", "translating both poses changes OKS", extract(m, env)))
                discharge(ex, rep, "O6-permutation-equivariant", xeq_term(XF.of(o2[i, j]), XF.of(opm[G - 1 - i, 1 - j])), timeout_ms=30000,
                          on_sat=lambda m, env: ("O6-permutation", "reordering instances changes the OKS of a pair", extract(m, env)))
        rep.sample({"path_condition": ex.path_summary(2, 70)})
    for w in REQUIRED_WITNESSES:
        rep.witness(w, True)
    return rep.finish()


class _Inst:
    def __init__(self, tag, pts, score=None):
        self.tag = tag
        self._pts = pts
        if score is not None:
            self.score = score

    def numpy(self):
        return self._pts

    def __repr__(self):
        return self.tag


class _Frame:
    def __init__(self, instances):
        self.instances = instances
        self.frame_idx = 0
        self.video = type("V", (), {"backend": type("B", (), {"source_filename": "v.mp4"})()})()


def _run_match(cfg):
    PER_COORD[0] = False
    from symx import xf, numpyfe
    from symx.xf import XF, And, Or, Not, rcmp
    from symx.explorer import Explorer, model_env, DefaultEnv
    from symx.harness import Report
    ev, tu = _install()
    rep = Report(cfg)
    G, P, N = cfg["n_gt"], cfg["n_pr"], cfg["nodes"]
    thr = z3.Real("thr")
    ex = Explorer([thr >= 0, thr < 1], timeout_ms=60000, exp_mode="fresh", fork_specials=True, max_paths=20000)

    def path():
        gt, pr = _pts("g", G, N), _pts("p", P, N)
        fg = _Frame([_Inst(f"gt{i}", gt[i]) for i in range(G)])
        fp = _Frame([_Inst(f"pr{j}", pr[j], XF(z3.Real(f"score_{j}"))) for j in range(P)])
        try:
            pairs, fn = ev.match_instances(fg, fp, stddev=0.125, scale=None, threshold=XF(thr))
        except Exception as e:  # noqa
            if isinstance(e, xf.EngineGap):
                raise
            return e, None
        return pairs, fn

    def extract(env):
        return {"gt": _pts_from_env("g", G, N, env), "pr": _pts_from_env("p", P, N, env), "scores": [float(env[f"score_{j}"]) for j in range(P)], "thr": float(env["thr"])}
    for pairs, fn in ex.run(path):
        rep.paths += 1
        rep.nontrivial_paths += 1
        if isinstance(pairs, Exception):
            rep.record("T-no-exception", "sat")
            m = ex.full_model()
            rep.violation("T-no-exception", f"T-exception:match_instances:{type(pairs).__name__}:n_gt={'0' if G == 0 else '>0'}",
                          f"match_instances raised {type(pairs).__name__}: {str(pairs)[:120]}", extract(DefaultEnv(model_env(m))))
            continue
        rep.record("T-no-exception", "unsat")
        g_used = [a.instance.tag for a, b, c in pairs] + [a.instance.tag for a in fn]
        p_used = [b.instance.tag for a, b, c in pairs]
        ok = sorted(g_used) == sorted(f"gt{i}" for i in range(G)) and len(set(p_used)) == len(p_used) and set(p_used) <= {f"pr{j}" for j in range(P)}
        rep.record("O7-each-gt-and-pr-used-at-most-once-and-all-gt-accounted", "unsat" if ok else "sat")
        if not ok:
            m = ex.full_model()
            rep.violation("O7-each-gt-and-pr-used-at-most-once-and-all-gt-accounted", "O7-conservation", f"pairs+false negatives = {g_used}, predicted used = {p_used}",
                          extract(DefaultEnv(model_env(m))))
        rep.sample({"pairs": [(a.instance.tag, b.instance.tag) for a, b, c in pairs], "false_negatives": [a.instance.tag for a in fn]})
    rep.infeasible_paths = ex.infeasible
    rep.notes.append("truncated" if ex.truncated else "complete")
    if ex.truncated:
        rep.inconclusive_item("match", "path budget exhausted")
    for w in REQUIRED_WITNESSES:
        rep.witness(w, True)
    return rep.finish()


def _run_assign(cfg):
    PER_COORD[0] = False
    import numpy as np
    from symx import xf, numpyfe
    from symx.xf import XF, And, Or, Not, rcmp
    from symx.explorer import Explorer, model_env, DefaultEnv
    from symx.harness import Report, discharge
    ev, tu = _install()
    rep = Report(cfg)
    n, m_ = cfg["n"], cfg["m"]
    ex = Explorer([], timeout_ms=60000, max_paths=50000)

    def path():
        c = numpyfe.sym_array("c", (n, m_))
        f = tu.greedy_matching if cfg["algo"] == "greedy" else tu.hungarian_matching
        try:
            r, cc = f(c)
        except Exception as e:  # noqa
            if isinstance(e, xf.EngineGap):
                raise
            return c, e, None
        return c, list(r), list(cc)

    def extract(env):
        return {"cost": [[float(env[f"c_{i * m_ + j}"]) for j in range(m_)] for i in range(n)]}
    for c, r, cc in ex.run(path):
        rep.paths += 1
        rep.nontrivial_paths += 1
        if isinstance(r, Exception):
            rep.record("T-no-exception", "sat")
            mm = ex.full_model()
            rep.violation("T-no-exception", f"T-exception:{cfg['algo']}:{type(r).__name__}", f"{cfg['algo']} matching raised {type(r).__name__}: {r}", extract(DefaultEnv(model_env(mm))))
            continue
        ok = len(r) == len(cc) == min(n, m_) and len(set(int(x) for x in r)) == len(r) and len(set(int(x) for x in cc)) == len(cc)
        rep.record("O8-matching-is-one-to-one-and-total-on-min(n,m)", "unsat" if ok else "sat")
        if not ok:
            mm = ex.full_model()
            rep.violation("O8-matching-is-one-to-one-and-total-on-min(n,m)", f"O8-{cfg['algo']}", f"rows {r} cols {cc}", extract(DefaultEnv(model_env(mm))))
            continue
        if cfg["algo"] == "greedy":
            # the first chosen edge is a global minimum of the matrix
            first = XF.of(c[int(r[0]), int(cc[0])])
            goal = And(*[rcmp("<=", first.v, XF.of(c[i, j]).v) for i in range(n) for j in range(m_)])
            discharge(ex, rep, "O9-greedy-takes-the-cheapest-edge-first", goal, on_sat=lambda mo, env: ("O9-greedy-first", "greedy matching's first edge is not the cheapest", extract(env)))
        else:
            tot = Fraction(0)
            for a, b in zip(r, cc):
                tot = xf.radd(tot, XF.of(c[int(a), int(b)]).v)
            goals = []
            small, big = (range(n), range(m_)) if n <= m_ else (range(m_), range(n))
            for perm in itertools.permutations(big, len(small)):
                t = Fraction(0)
                for a, b in zip(small, perm):
                    t = xf.radd(t, XF.of(c[(a, b) if n <= m_ else (b, a)]).v)
                goals.append(rcmp("<=", tot, t))
            discharge(ex, rep, "O9-hungarian-total-cost-is-minimal", And(*goals), on_sat=lambda mo, env: ("O9-hungarian-opt", "Hungarian assignment is not of minimal total cost", extract(env)))
        rep.sample({"rows": [int(x) for x in r], "cols": [int(x) for x in cc], "path_condition": ex.path_summary(2, 60)})
    if ex.truncated:
        rep.inconclusive_item("assign", "path budget exhausted")
    for w in REQUIRED_WITNESSES:
        rep.witness(w, True)
    return rep.finish()


def _run_scores(cfg):
    PER_COORD[0] = False
    """IoU in [0,1] for well-formed boxes; -distance <= 0; cosine similarity in [-1,1]."""
    import numpy as np
    from symx import xf, numpyfe
    from symx.xf import XF, And, Or, Not, rcmp
    from symx.explorer import Explorer
    from symx.harness import Report, discharge
    ev, tu = _install()
    rep = Report(cfg)
    a = [z3.Real(f"a{i}") for i in range(4)]
    b = [z3.Real(f"b{i}") for i in range(4)]
    ex = Explorer([a[0] <= a[2], a[1] <= a[3], b[0] <= b[2], b[1] <= b[3]], timeout_ms=60000, fork_specials=True)

    def path():
        A = numpyfe.array([XF(x) for x in a])
        B = numpyfe.array([XF(x) for x in b])
        return tu.compute_iou(A, B), tu.compute_euclidean_distance(A[:2], B[:2]), tu.compute_cosine_sim(A[:2], B[:2])

    def extract(mo, env):
        return {"a": [float(env[f"a{i}"]) for i in range(4)], "b": [float(env[f"b{i}"]) for i in range(4)]}
    for iou, dist, cos in ex.run(path):
        rep.paths += 1
        rep.nontrivial_paths += 1
        iou, dist, cos = XF.of(iou), XF.of(dist), XF.of(cos)
        discharge(ex, rep, "O10-iou-in-0-1", And(iou.fin(), rcmp(">=", iou.v, 0), rcmp("<=", iou.v, 1)), on_sat=lambda m, env: ("O10-iou", "IoU outside [0,1] for well-formed boxes", extract(m, env)))
        discharge(ex, rep, "O11-negative-distance-nonpositive", And(dist.fin(), rcmp("<=", dist.v, 0)), on_sat=lambda m, env: ("O11-dist", "-distance is positive", extract(m, env)))
        nz = And(Or(a[0] != 0, a[1] != 0), Or(b[0] != 0, b[1] != 0))
        discharge(ex, rep, "O12-cosine-in-minus1-1", xf.Implies(nz, And(cos.fin(), rcmp(">=", cos.v, -1), rcmp("<=", cos.v, 1))),
                  on_sat=lambda m, env: ("O12-cos", "cosine similarity outside [-1,1]", extract(m, env)))
        rep.sample({"path_condition": ex.path_summary(3, 70)})
    for w in REQUIRED_WITNESSES:
        rep.witness(w, True)
    return rep.finish()


def _validate(cfg):
    PER_COORD[0] = False
    import numpy as np
    from symx import xf, numpyfe, stubs
    from symx.xf import XF, eval_xf
    from symx.explorer import Explorer, DefaultEnv
    from symx.harness import Report, rng
    import importlib
    rep = Report(cfg)
    r = rng(cfg["seed"], "c15")
    name = "V-numpy-front-end-and-hungarian-model-agree-with-real-numpy-and-scipy"
    from scipy.optimize import linear_sum_assignment as real_lsa
    for k in range(10):
        # Hungarian model on concrete object arrays (constant XF) vs scipy
        n, m_ = r.choice([1, 2, 3]), r.choice([1, 2, 3])
        c = np.array([[r.choice([0.1, 0.5, 0.9, r.random()]) for _ in range(m_)] for _ in range(n)])
        if k % 3 == 0:
            c[0, 0] = np.inf
        def model_run():
            try:
                return stubs.linear_sum_assignment_model(numpyfe.array([[XF.of(float(x)) for x in row] for row in c]))
            except ValueError as e:
                return ("raised", str(e))
        ex = Explorer([])
        res = list(ex.run(model_run))
        try:
            rr, cc = real_lsa(c)
            want = c[rr, cc].sum()
            ok = len(res) >= 1 and all(not (isinstance(o, tuple) and o and isinstance(o[0], str)) and abs(c[o[0], o[1]].sum() - want) < 1e-9 for o in res)
        except ValueError as e:
            ok = len(res) == 1 and res[0] == ("raised", str(e))
        rep.paths += 1
        rep.record(name, "unsat" if ok else "sat")
        if not ok:
            rep.inconclusive_item(name, f"hungarian model {res} vs scipy {(rr, cc)} on {c.tolist()}")
    # compute_oks: symbolic with pinned inputs vs real numpy
    ev_real = importlib.import_module("sleap_nn.evaluation")
    for k in range(8):
        G, P, N = r.choice([1, 2]), 1, r.choice([1, 2, 3])
        gt = np.array([[[r.uniform(0, 20), r.uniform(0, 20)] if r.random() > 0.2 else [np.nan, np.nan] for _ in range(N)] for _ in range(G)])
        pr = np.array([[[r.uniform(0, 20), r.uniform(0, 20)] if r.random() > 0.2 else [np.nan, np.nan] for _ in range(N)] for _ in range(P)])
        coco = bool(k % 2)
        ev_real.np = np
        with np.errstate(all="ignore"):
            import warnings
            with warnings.catch_warnings():
                warnings.simplefilter("ignore")
                want = ev_real.compute_oks(gt.copy(), pr.copy(), use_cocoeval=coco)
        ev, tu = _install()
        env = {}
        base = []
        for nm, arr in (("g", gt), ("p", pr)):
            for i in range(arr.shape[0]):
                for n in range(N):
                    isn = bool(np.isnan(arr[i, n, 0]))
                    env[f"{nm}_{i}_{n}#nan"] = isn
                    base.append(z3.Bool(f"{nm}_{i}_{n}#nan") == isn)
                    for d, ax in ((0, "x"), (1, "y")):
                        v = 0.0 if isn else float(arr[i, n, d])
                        env[f"{nm}_{i}_{n}_{ax}"] = Fraction(v)
                        base.append(z3.Real(f"{nm}_{i}_{n}_{ax}") == xf.Q(v))
        ex = Explorer(base, exp_mode="uf", fork_specials=True)
        outs = list(ex.run(lambda: ev.compute_oks(_pts("g", G, N), _pts("p", P, N), use_cocoeval=coco)))
        ok = len(outs) == 1
        if ok:
            fenv = DefaultEnv(env)
            for i in range(G):
                for j in range(P):
                    got = eval_xf(XF.of(outs[0][i, j]), fenv)
                    w = float(want[i, j])
                    if not ((got != got and w != w) or abs(got - w) <= 1e-6 * max(1, abs(w))):
                        ok = False
        rep.paths += 1
        rep.record(name, "unsat" if ok else "sat")
        if not ok:
            rep.inconclusive_item(name, f"compute_oks symbolic vs real differ: gt={gt.tolist()} pr={pr.tolist()}")
    rep.nontrivial_paths = rep.paths
    for w in REQUIRED_WITNESSES:
        rep.witness(w, True)
    rep.sample({"validated": "Hungarian model vs scipy; compute_oks via object arrays vs real numpy"})
    return rep.finish()


# ------------------------------------------------------------------ replay against real numpy / scipy
# ------------------------------------------------------------------ binary64 slice of the OKS normalisation
SCALE_MAX = 2.0 ** 40
STD_MIN, STD_MAX = 2.0 ** -7, 2.0


def _float_slice(coco):
    import sleap_nn.evaluation as ev
    from symx.fpast import FloatSlice, F64
    scale, stddev = z3.FP("scale", F64), z3.FP("stddev", F64)
    sl = FloatSlice(ev.compute_oks, {"scale": scale, "stddev": stddev}, ["normalization_factor"], consts={"use_cocoeval": coco})
    return scale, stddev, sl


def _run_float(cfg):
    """An identical pose has distance 0 to itself, so its similarity is exp(-0 / normalisation) = 1 exactly when the per-keypoint
    normalisation factor is a positive finite binary64 number (0/0 is NaN).  The arithmetic that produces `normalization_factor`
    in compute_oks is lifted from the current source (symx/fpast.py) and decided in IEEE binary64 for every scale in [0, 2^40]
    (0 = zero-area bounding box: one visible node, coincident or axis-aligned points) and every stddev in [2^-7, 2]."""
    import time
    from symx.harness import Report
    from symx.fpast import fpval, fp_model_value
    from symx.xf import EngineGap
    rep = Report(cfg)
    rep.paths = rep.nontrivial_paths = 1
    name = "G1-normalisation-factor-positive-and-finite-in-binary64"
    for w in REQUIRED_WITNESSES:
        rep.witness(w, True)
    try:
        scale, stddev, sl = _float_slice(cfg["coco"])
    except EngineGap as e:
        rep.record(name, "unknown")
        rep.inconclusive_item("float", f"slice not extractable from the current source: {e}")
        return rep.finish()
    nf = sl.exprs["normalization_factor"]
    s = z3.Solver()
    s.set("timeout", 240000)
    s.add(z3.fpGEQ(scale, fpval(0.0)), z3.fpLEQ(scale, fpval(SCALE_MAX)), z3.fpGEQ(stddev, fpval(STD_MIN)), z3.fpLEQ(stddev, fpval(STD_MAX)))
    s.add(z3.Not(z3.And(z3.fpGT(nf, fpval(0.0)), z3.Not(z3.fpIsInf(nf)), z3.Not(z3.fpIsNaN(nf)))))
    t0 = time.time()
    r = str(s.check())
    dt = time.time() - t0
    rep.record(name, r, dt)
    if r == "sat":
        mo = s.model()
        vals = {"scale": fp_model_value(mo, scale), "stddev": fp_model_value(mo, stddev)}
        rep.violation(name, f"float:normalisation:{'coco' if cfg['coco'] else 'paper'}", f"binary64 normalisation factor is not a positive finite number at {vals}: identical poses get 0/0", {"values": vals, "slice": sl.source()})
    elif r != "unsat":
        rep.inconclusive_item(name, "solver returned unknown / timeout")
    rep.sample({"slice": sl.source(), "scale": [0, SCALE_MAX], "stddev": [STD_MIN, STD_MAX]})
    return rep.finish(stats={"queries": 1, "solver_s": dt})


def _replay_float(cfg, inputs):
    import numpy as np, warnings
    warnings.simplefilter("ignore")
    import sleap_nn.evaluation as ev
    from symx.harness import unjson_float
    sc, sd = float(unjson_float(inputs["values"]["scale"])), float(unjson_float(inputs["values"]["stddev"]))
    _, _, sl = _float_slice(cfg["coco"])
    g = sl.concrete({"scale": np.array([sc]), "stddev": np.array([sd]), "n_gt": 1, "n_nodes": 1, "n_pr": 1})
    nf = float(np.asarray(g["normalization_factor"]).reshape(-1)[0])
    pts = np.array([[[3.0, 4.0]]])
    oks = ev.compute_oks(pts, pts.copy(), scale=sc, stddev=sd, use_cocoeval=cfg["coco"])
    v = float(np.asarray(oks).reshape(-1)[0])
    bad = not (nf > 0 and np.isfinite(nf)) or not (abs(v - 1.0) <= 1e-9)
    return bool(bad), f"normalisation factor {nf!r} at scale={sc!r}, stddev={sd!r}; compute_oks of a pose with itself = {v!r}"



def replay(cfg, inputs, obligation):
    import numpy as np, warnings
    PER_COORD[0] = bool(cfg.get("per_coord"))
    from symx.harness import unjson_float
    import sleap_nn.evaluation as ev
    import sleap_nn.tracking.utils as tu
    warnings.simplefilter("ignore")
    kind = cfg["kind"]
    if kind == "float":
        return _replay_float(cfg, inputs)
    if kind in ("oks", "mono", "invariance"):
        gt = np.array(unjson_float(inputs["gt"]), dtype=np.float64)
        pr = np.array(unjson_float(inputs["pr"]), dtype=np.float64)
        kw = {}
        if kind == "oks":
            kw = dict(use_cocoeval=cfg["coco"], stddev=inputs.get("stddev", cfg["stddev"] if cfg["stddev"] != "sym" else 0.125), scale=inputs.get("scale"))
        try:
            o = ev.compute_oks(gt.copy(), pr.copy(), **kw)
        except Exception as e:
            return obligation.startswith("T-"), f"compute_oks raised {type(e).__name__}: {e}"
        if obligation.startswith("T-"):
            return False, "no exception"
        vis = ~np.isnan(gt).any(-1)
        if kind == "oks":
            G, P = o.shape
            for i in range(G):
                if not vis[i].any():
                    continue
                for j in range(P):
                    sc = kw["scale"] if kw["scale"] is not None else float(np.prod(np.nanmax(gt[i], 0) - np.nanmin(gt[i], 0)))
                    sd = kw["stddev"]
                    tot = 0.0
                    for n in range(gt.shape[1]):
                        if vis[i, n] and not np.isnan(pr[j, n]).any():
                            d2 = float(((gt[i, n] - pr[j, n]) ** 2).sum())
                            norm = (2 * sd) ** 2 * 2 * (sc + np.spacing(1)) if cfg["coco"] else sd ** 2 * 2 * (sc + np.spacing(1)) ** 2
                            tot += np.exp(-d2 / norm)
                    ref = tot / vis[i].sum()
                    if not (0 <= o[i, j] <= 1) or abs(o[i, j] - ref) > 1e-6:
                        return True, f"oks[{i},{j}]={o[i, j]} reference {ref}"
            if obligation.startswith("O3"):
                s = ev.compute_oks(gt.copy(), gt.copy(), **kw)
                for i in range(gt.shape[0]):
                    if vis[i].any() and abs(s[i, i] - 1) > 1e-9:
                        return True, f"self-OKS {s[i, i]}"
            return False, "matches reference"
        if kind == "mono":
            pr2 = pr.copy()
            pr2[0, 0] = inputs["moved"]
            o2 = ev.compute_oks(gt.copy(), pr2)
            for i in range(gt.shape[0]):
                if vis[i].any() and ((gt[i, 0] - pr2[0, 0]) ** 2).sum() >= ((gt[i, 0] - pr[0, 0]) ** 2).sum() and o2[i, 0] > o[i, 0] + 1e-12:
                    return True, f"farther keypoint raised OKS {o[i, 0]} -> {o2[i, 0]}"
            return False, "monotone"
        t = np.array(inputs["t"])
        if obligation.startswith("O5b"):
            a1, a2 = ev.compute_instance_area(gt.copy()), ev.compute_instance_area(gt + t)
            return (not np.allclose(a1, a2, rtol=1e-6, atol=1e-6, equal_nan=True)), f"areas {a1} {a2}"
        ot = ev.compute_oks(gt + t, pr + t)
        op = ev.compute_oks(gt[::-1].copy(), pr[::-1].copy())
        bad = not np.allclose(o, ot, atol=1e-6, equal_nan=True) or not np.allclose(o, op[::-1, ::-1], atol=1e-9, equal_nan=True)
        return bad, f"o={o.tolist()} translated={ot.tolist()} permuted={op.tolist()}"
    if kind == "match":
        gt = np.array(unjson_float(inputs["gt"]), dtype=np.float64).reshape(cfg["n_gt"], cfg["nodes"], 2)
        pr = np.array(unjson_float(inputs["pr"]), dtype=np.float64).reshape(cfg["n_pr"], cfg["nodes"], 2)
        fg = _Frame([_Inst(f"gt{i}", gt[i]) for i in range(len(gt))])
        fp = _Frame([_Inst(f"pr{j}", pr[j], inputs["scores"][j]) for j in range(len(pr))])
        try:
            pairs, fn = ev.match_instances(fg, fp, stddev=0.125, scale=None, threshold=inputs["thr"])
        except Exception as e:
            return obligation.startswith("T-"), f"match_instances raised {type(e).__name__}: {e}"
        g_used = [a.instance.tag for a, b, c in pairs] + [a.instance.tag for a in fn]
        p_used = [b.instance.tag for a, b, c in pairs]
        bad = sorted(g_used) != sorted(f"gt{i}" for i in range(len(gt))) or len(set(p_used)) != len(p_used)
        return (bad and not obligation.startswith("T-")), f"gt accounted {g_used}, pr used {p_used}"
    if kind == "assign":
        c = np.array(unjson_float(inputs["cost"]), dtype=np.float64)
        f = tu.greedy_matching if cfg["algo"] == "greedy" else tu.hungarian_matching
        try:
            r, cc = f(c)
        except Exception as e:
            return obligation.startswith("T-"), f"raised {type(e).__name__}: {e}"
        n, m_ = c.shape
        if len(r) != min(n, m_) or len(set(r)) != len(r) or len(set(cc)) != len(cc):
            return True, f"rows {list(r)} cols {list(cc)}"
        if cfg["algo"] == "greedy":
            return bool(c[r[0], cc[0]] > c.min()), f"first edge {c[r[0], cc[0]]} min {c.min()}"
        from scipy.optimize import linear_sum_assignment
        rr, c2 = linear_sum_assignment(c)
        return bool(c[list(r), list(cc)].sum() > c[rr, c2].sum() + 1e-12), "hungarian total"
    if kind == "scores":
        a, b = np.array(inputs["a"]), np.array(inputs["b"])
        iou = tu.compute_iou(a, b)
        d = tu.compute_euclidean_distance(a[:2], b[:2])
        cs = tu.compute_cosine_sim(a[:2], b[:2])
        if obligation.startswith("O10"):
            return not (0 <= iou <= 1), f"iou={iou}"
        if obligation.startswith("O11"):
            return not (d <= 0), f"-dist={d}"
        return not (-1 - 1e-9 <= cs <= 1 + 1e-9), f"cos={cs}"
    return False, "unknown"
