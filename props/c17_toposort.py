"""C17 -- every tree skeleton gets a complete, parent-before-child edge order (CrossHair over the real
toposort_edges and PAFScorer.__attrs_post_init__, networkx executed for real)."""
from __future__ import annotations
import json

ID = "C17"
FUNCTIONS = [("sleap_nn.inference.paf_grouping", "toposort_edges"), ("sleap_nn.inference.paf_grouping", "PAFScorer.__attrs_post_init__")]
EXPLANATION = ("CrossHair (z3) executes the real toposort_edges / PAFScorer construction with symbolic src[] and dst[] integer lists constrained by the "
               "precondition to be a rooted labelled tree (any node numbering, any edge listing). Node labels are realised when networkx hashes them, so this "
               "degenerates to solver-driven enumeration of labelled trees x listings: exhaustive within the bound, the solver contributing feasibility "
               "pruning and path bookkeeping ('Confirmed over all paths').")
ASSUMPTIONS = ["networkx (DiGraph, topological_sort, bfs_edges) is executed for real and trusted", "node indices are 0..n for n edges"]
STUBS = ["one concrete warm-up call of toposort_edges before analysis (networkx lazily exec-compiles dispatch wrappers, which CrossHair forbids)", "loguru logger -> no-op"]
OUTSIDE = ["skeletons with more than 4 nodes (3 edges); 5-7 nodes are outside the claim", "non-tree graphs"]
REQUIRED_WITNESSES = []
BUDGET_S = {"quick": 900, "thorough": 7200}


def bounds(tier):
    return {"edges": "1..3 (<=4 nodes)" if tier == "quick" else "1..4 (<=5 nodes)", "per_condition_timeout_s": 400 if tier == "quick" else 3000}


def configs(tier, seed):
    out = [dict(n=n, root=None, timeout=900 if tier == "quick" else 1800) for n in (1, 2)]
    out += [dict(n=3, root=r, timeout=900 if tier == "quick" else 1800) for r in range(4)]
    # (4-edge trees, split by root, were tried in the thorough tier: ~3000 labelled listings per root at ~1 s each did not confirm within 3000 s)
    return out


def run_config(cfg):
    from symx.harness import Report
    from symx import chrunner
    from props import c17_contracts as C
    from sleap_nn.inference.paf_grouping import toposort_edges, EdgeType
    toposort_edges([EdgeType(0, 1), EdgeType(1, 2)])  # warm-up
    C._check([0, 1], [1, 2])
    rep = Report(cfg)
    fn = getattr(C, f"edge_order_complete_and_parent_first_{cfg['n']}" + (f"_r{cfg['root']}" if cfg.get("root") is not None else ""))
    r = chrunner.run_contract(fn, per_condition_timeout=cfg["timeout"], per_path_timeout=60)
    rep.paths = 1
    rep.nontrivial_paths = 1
    name = f"CH-edge-order-complete-and-parent-first[{cfg['n']} edges]"
    rep.notes.append(f"root={cfg.get('root')}")
    if r["state"] == "CONFIRMED":
        rep.record(name, "unsat", r["solver_s"])
    elif r["state"] == "REFUTED":
        rep.record(name, "sat", r["solver_s"])
        rep.violation(name, "toposort-order", f"CrossHair: {r['message'][:300]}", {"call": r.get("counterexample")})
    else:
        rep.record(name, "unknown", r["solver_s"])
        rep.inconclusive_item(name, f"CrossHair state {r['state']}: {json.dumps(r['messages'])[:300]}")
    rep.sample({"edges": cfg["n"], "crosshair_state": r["state"], "queries": r["queries"], "seconds": r["seconds"]})
    return rep.finish(stats={"queries": r["queries"], "solver_s": r["solver_s"]})


def replay(cfg, inputs, obligation):
    from props import c17_contracts as C
    call = inputs.get("call") or {}
    kw = call.get("kwargs")
    if kw is None:
        return False, f"counterexample not parsable: {call}"
    src, dst = kw.get("src"), kw.get("dst")
    try:
        ok = C._check(src, dst)
    except Exception as e:
        return True, f"toposort on src={src} dst={dst} raised {type(e).__name__}: {e}"
    return (not ok), f"src={src} dst={dst}: order valid = {ok}"
