"""C14 -- every valid model configuration yields outputs of the contracted shape (UNet, ConvNeXt and Swin-T families, shape level).

The REAL Model / UNet / ConvNextWrapper / Encoder / Decoder / Head modules are built for every configuration of a finite grid
and their real forward methods run on a shape-only tensor stand-in (symx/shapefe.py) whose height and width are SYMBOLIC
multiples k*max_stride, l*max_stride of the maximum stride: z3 then decides, for every k, l >= 1 at once, that no layer
rejects the input and that every head's output has exactly (parts | 2*edges) channels and spatial size input / head stride --
for a first call and for a second call with independent symbolic sizes on the same module (layers that keep state from the
first call, like the same-padding pool that overwrites its own padding attribute, would show there)."""
from __future__ import annotations
import itertools, json
import z3

ID = "C14"
FUNCTIONS = [("sleap_nn.architectures.model", "Model.__init__"), ("sleap_nn.architectures.model", "Model.forward"), ("sleap_nn.architectures.unet", "UNet.__init__"),
             ("sleap_nn.architectures.unet", "UNet.from_config"), ("sleap_nn.architectures.unet", "UNet.forward"), ("sleap_nn.architectures.convnext", "ConvNextWrapper.__init__"),
             ("sleap_nn.architectures.convnext", "ConvNextWrapper.forward"), ("sleap_nn.architectures.convnext", "ConvNeXtEncoder.__init__"),
             ("sleap_nn.architectures.swint", "SwinTWrapper.__init__"), ("sleap_nn.architectures.swint", "SwinTWrapper.forward"), ("sleap_nn.architectures.swint", "SwinTransformerEncoder.__init__"),
             ("sleap_nn.architectures.swint", "SwinTransformerEncoder.forward"),
             ("sleap_nn.architectures.encoder_decoder", "Encoder.__init__"), ("sleap_nn.architectures.encoder_decoder", "Encoder.forward"),
             ("sleap_nn.architectures.encoder_decoder", "Decoder.__init__"), ("sleap_nn.architectures.encoder_decoder", "Decoder.forward"),
             ("sleap_nn.architectures.encoder_decoder", "SimpleUpsamplingBlock.forward"), ("sleap_nn.architectures.encoder_decoder", "SimpleConvBlock.__init__"),
             ("sleap_nn.architectures.common", "MaxPool2dWithSamePadding.forward"), ("sleap_nn.architectures.common", "MaxPool2dWithSamePadding._calc_same_pad"),
             ("sleap_nn.architectures.heads", "Head.make_head"), ("sleap_nn.architectures.model", "get_head"), ("sleap_nn.architectures.model", "get_backbone")]
EXPLANATION = ("For every configuration of a finite grid (backbone family x max_stride x output strides x stem stride x filters_rate x convs_per_block x middle_block x "
               "up_interpolate x head type and head strides) the real Model is constructed and its real forward runs on a shape-only tensor whose height/width are symbolic "
               "multiples k*max_stride, l*max_stride (k, l unbounded positive integers): every torch kernel is replaced by its documented shape rule, channel counts are "
               "checked at every layer, symbolic extents that must agree (skip-connection concatenations, element-wise sums) fork the explorer. z3 decides for all k, l: no "
               "layer rejects the input (E1), each head's output has the contracted channel count (S1) and spatial size input/stride (S2), identically for a second call "
               "with independent symbolic sizes on the same module instance (S3: no state carried between calls changes a shape). The shape rules are validated against "
               "real torch on concrete sizes in every run (V).")
ASSUMPTIONS = ["input sides are positive multiples of max_stride (the property's precondition); batch size 1 or 2 and in_channels 1 are concrete",
               "evaluation mode (batch_norm in training mode is rejected by the front end)",
               "each torch kernel obeys its documented shape rule (validated per run on concrete sizes against real torch for the same modules)"]
STUBS = ["torch / torch.nn.functional kernels -> shape rules (symx/shapefe.py) via the __torch_function__ protocol",
         "torchvision shifted_window_attention -> its documented contract (B,H,W,C) -> (B,H,W,C) with channel/head checks (validated against the real function on concrete sizes in every run); patch merging, patch embedding, norms and MLPs of Swin-T run for real on the stand-in", "architectures.common.torch -> proxy giving torch.ceil(torch.tensor(x)).item() its scalar meaning for a symbolic x"]
OUTSIDE = ["the inside of torchvision's window attention (window partitioning with size-dependent padding and masks) -- replaced by its shape contract",
           "output VALUES: determinism and independence from batch-mates / earlier calls at the value level (kernels behind FFI; only shape-level statefulness is decided)",
           "configurations outside the listed grid; pretrained weights; in_channels other than 1"]
REQUIRED_WITNESSES = ["symbolic-forward-completed", "second-call-checked"]
BUDGET_S = {"quick": 900, "thorough": 5400}

PARTS = ["a", "b", "c"]
EDGES = [[0, 1], [1, 2]]


def bounds(tier):
    return {"input size": "k*max_stride x l*max_stride for ALL integers k, l >= 1 (two independent calls)", "batch": [1, 2],
            "unet grid": "max_stride {8,16[,32]} x output_stride {1,2,4} x stem_stride {None,2[,4]} x filters_rate {2,1.5} x convs_per_block {1,2[,3]} x middle_block x up_interpolate",
            "convnext grid": "arch {tiny, custom 4-stage} x stem_patch_stride {2,4} x output_stride {1,2,4} x up_interpolate x convs_per_block {1,2}",
            "swint grid": "arch {tiny, custom 4-stage} x stem_patch_stride {2,4} x output_stride {1,2,4} x up_interpolate x window_size {7,3}",
            "heads": "single_instance, centered_instance, centroid (stride = backbone output stride), bottomup (confmaps at the output stride with pafs at 1x or 2x of it, and pafs at the output stride with confmaps at 2x)"}


# ---------------------------------------------------------------------- configuration grid
def _heads(os_, max_stride):
    cm = lambda s: {"part_names": PARTS, "sigma": 2.5, "output_stride": s, "loss_weight": 1.0}
    out = [("single_instance", {"confmaps": cm(os_)}), ("centered_instance", {"confmaps": dict(cm(os_), anchor_part=None)}), ("centroid", {"confmaps": {"anchor_part": None, "sigma": 2.5, "output_stride": os_, "loss_weight": 1.0}})]
    for ps in (os_, 2 * os_):
        if ps < max_stride:  # the decoder delivers feature maps at strides max_stride/2 ... output_stride; the bottleneck itself is not an output
            out.append(("bottomup", {"confmaps": cm(os_), "pafs": {"edges": EDGES, "sigma": 4.0, "output_stride": ps, "loss_weight": 1.0}}))
    if 2 * os_ < max_stride:  # ... and the other way round: the FIRST head (confidence maps) coarser than the second
        out.append(("bottomup", {"confmaps": cm(2 * os_), "pafs": {"edges": EDGES, "sigma": 4.0, "output_stride": os_, "loss_weight": 1.0}}))
    return out


def _expected_channels(model_type, head_name):
    if model_type == "centroid":
        return 1
    return 2 * len(EDGES) if "PartAffinity" in head_name or "paf" in head_name.lower() else len(PARTS)


def _unet_grid(tier):
    out = []
    for ms in ((8, 16) if tier == "quick" else (8, 16, 32)):
        for os_ in (1, 2, 4):
            for stem in ((None, 2) if tier == "quick" else (None, 2, 4)):
                for fr, nf in ((2, 4), (1.5, 4), (1.5, 5), (1.5, 6)):  # with a fractional rate the per-level channel counts are truncated: base widths whose products are fractional at several depths
                    for cpb in ((1, 2) if tier == "quick" else (1, 2, 3)):
                        for mid in (True, False):
                            for up in (True, False):
                                if nf != 4 and (cpb == 1 or not mid):
                                    continue  # the two known-finding classes are covered with the base width 4
                                out.append(("unet", {"in_channels": 1, "kernel_size": 3, "filters": nf, "filters_rate": fr, "max_stride": ms, "convs_per_block": cpb, "stacks": 1,
                                                     "stem_stride": stem, "middle_block": mid, "up_interpolate": up, "output_stride": os_}))
    return out


def _convnext_grid(tier):
    out = []
    small = {"depths": [1, 1, 2, 1], "channels": [8, 16, 32, 64]}
    for mt, arch in ((("custom", small),) if tier == "quick" else (("custom", small), ("tiny", None))):
        for stem in (2, 4):
            for os_ in (1, 2, 4):
                for up in (True, False):
                    for cpb in (1, 2):
                        out.append(("convnext", {"in_channels": 1, "model_type": mt, "arch": arch, "kernel_size": 3, "filters_rate": 2, "convs_per_block": cpb, "up_interpolate": up,
                                                 "stem_patch_kernel": 4, "stem_patch_stride": stem, "output_stride": os_, "max_stride": stem * 8}))
    return out


def _swint_grid(tier):
    out = []
    small = {"embed": 8, "depths": [1, 1, 2, 1], "num_heads": [1, 2, 4, 8]}
    for mt, arch in ((("custom", small),) if tier == "quick" else (("custom", small), ("tiny", None))):
        for stem in (2, 4):
            for os_ in (1, 2, 4):
                if os_ > stem:  # the decoder's last level is at stride stem/... (cf. the repaired head in_channels): keep heads on decoder levels
                    pass
                for up in (True, False):
                    for win in ([7, 7], [3, 3]):
                        out.append(("swint", {"in_channels": 1, "model_type": mt, "arch": arch, "patch_size": [4, 4], "window_size": win, "kernel_size": 3, "filters_rate": 2, "convs_per_block": 2,
                                              "up_interpolate": up, "stem_patch_stride": stem, "output_stride": os_, "max_stride": stem * 8}))
    return out


def _models(tier):
    """list of (backbone_type, backbone_cfg, model_type, head_cfg)"""
    out = []
    for bt, bc in _unet_grid(tier) + _convnext_grid(tier) + _swint_grid(tier):
        for mt, hc in _heads(bc["output_stride"], bc["max_stride"]):
            out.append((bt, bc, mt, hc))
    return out


N_CHUNKS = 32
import torchvision.models.swin_transformer as _sw
REAL_SWIN_ATTENTION = _sw.shifted_window_attention  # captured before any stub is installed (module import time)


def configs(tier, seed):
    n = len(_models(tier))
    out = [dict(kind="shapes", chunk=c, of=N_CHUNKS, n_models=n) for c in range(N_CHUNKS)]
    out.append(dict(kind="validate", seed=seed))
    return out


def run_config(cfg):
    return _run_shapes(cfg) if cfg["kind"] == "shapes" else _validate(cfg)


def _build(bt, bc, mt, hc):
    import torch
    from omegaconf import OmegaConf
    from sleap_nn.architectures.model import Model
    torch.manual_seed(0)
    return Model(bt, OmegaConf.create(bc), OmegaConf.create(hc), 1, mt).eval()


def _install():
    import sleap_nn.architectures.common as common
    from symx import shapefe
    common.torch = shapefe.COMMON_TORCH
    shapefe.install_swin_stubs()
    return shapefe


def _t(x):
    from symx.xf import SI, isz
    if isinstance(x, SI):
        return x.t if isz(x.t) else z3.IntVal(int(x.t))
    return z3.IntVal(int(x))


def _run_shapes(cfg):
    import torch
    from symx import xf
    from symx.xf import SI
    from symx.explorer import Explorer, model_env, DefaultEnv
    from symx.harness import Report, discharge
    S = _install()
    rep = Report(cfg)
    tier_models = _models("thorough" if cfg["n_models"] > len(_models("quick")) else "quick")
    mine = [(i, m) for i, m in enumerate(tier_models) if i % cfg["of"] == cfg["chunk"]]
    k1, l1, k2, l2 = [z3.Int(n) for n in ("k1", "l1", "k2", "l2")]
    for idx, (bt, bc, mt, hc) in mine:
        tag = {"model_index": idx, "backbone": bt, "backbone_config": bc, "model_type": mt, "head_config": hc}
        try:
            model = _build(bt, bc, mt, hc)
        except Exception as e:  # noqa  a valid configuration that cannot even be constructed
            rep.paths += 1
            rep.record("E0-valid-configuration-constructs", "sat")
            rep.violation("E0-valid-configuration-constructs", f"construct:{bt}:{type(e).__name__}", f"Model(...) raised {type(e).__name__}: {str(e)[:200]}", dict(tag, sizes=None))
            continue
        rep.record("E0-valid-configuration-constructs", "unsat")
        ms = bc["max_stride"]
        ex = Explorer([k1 >= 1, l1 >= 1, k2 >= 1, l2 >= 1], timeout_ms=60000, max_paths=64)

        def path():
            import copy
            mdl = copy.deepcopy(model)  # a fresh instance per explored path: layers that keep state (MaxPool2dWithSamePadding overwrites its padding) must not leak between paths
            try:
                o1 = mdl(S.ShapeT((1, 1, SI(k1 * ms), SI(l1 * ms))))
                o2 = mdl(S.ShapeT((2, 1, SI(k2 * ms), SI(l2 * ms))))  # ... but the second call is on the SAME instance as the first
            except S.ShapeErr as e:
                return ("ERR", str(e))
            return ("OK", o1, o2)

        def extract(model_, env):
            return dict(tag, sizes=[[int(env["k1"]) * ms, int(env["l1"]) * ms], [int(env["k2"]) * ms, int(env["l2"]) * ms]])
        for r in ex.run(path):
            rep.paths += 1
            rep.nontrivial_paths += 1
            if r[0] == "ERR":
                mo = ex.full_model()
                rep.record("E1-no-layer-rejects-an-input-of-multiples-of-max-stride", "sat")
                sig = f"reject:{bt}"
                # the two configuration classes recorded as known findings get their own signatures (anything else stays "reject:<family>")
                if bt == "unet" and not bc["middle_block"] and "channels" in r[1]:
                    sig += ":middle_block=False"
                elif bt == "unet" and bc["convs_per_block"] == 1 and "channels" in r[1]:
                    sig += ":convs_per_block=1:empty-encoder-blocks"
                elif bt == "convnext" and "channels" in r[1] and bc["output_stride"] > bc["stem_patch_stride"]:
                    sig += ":output-stride-above-last-decoder-stride"
                rep.violation("E1-no-layer-rejects-an-input-of-multiples-of-max-stride", sig, f"a layer rejects the input: {r[1]}", extract(mo, DefaultEnv(model_env(mo))))
                continue
            rep.record("E1-no-layer-rejects-an-input-of-multiples-of-max-stride", "unsat")
            rep.witness("symbolic-forward-completed", True)
            heads = {h.name: h for h in model.heads}
            for call, (o, B, kk, ll) in enumerate(((r[1], 1, k1, l1), (r[2], 2, k2, l2))):
                ok_keys = set(o.keys()) == set(heads.keys())
                rep.record("S0-one-output-per-head", "unsat" if ok_keys else "sat")
                if not ok_keys:
                    mo = ex.full_model()
                    rep.violation("S0-one-output-per-head", f"heads:{bt}", f"outputs {sorted(o.keys())} for heads {sorted(heads)}", extract(mo, DefaultEnv(model_env(mo))))
                    continue
                for name, out in o.items():
                    hs = heads[name].output_stride
                    want_c = _expected_channels(mt, name)
                    okc = len(out.shape) == 4 and not isinstance(out.shape[1], SI) and int(out.shape[1]) == want_c and int(out.shape[0]) == B
                    rep.record("S1-head-output-has-the-contracted-channels", "unsat" if okc else "sat")
                    if not okc:
                        mo = ex.full_model()
                        rep.violation("S1-head-output-has-the-contracted-channels", f"channels:{bt}:{mt}", f"head {name}: output shape {out} expected {want_c} channels, batch {B}", extract(mo, DefaultEnv(model_env(mo))))
                        continue
                    goal = z3.And(_t(out.shape[2]) * hs == kk * ms, _t(out.shape[3]) * hs == ll * ms)
                    oname = "S2-head-output-is-input-over-head-stride" if call == 0 else "S3-second-call-on-the-same-module-has-the-same-shape-law"
                    discharge(ex, rep, oname, goal, on_sat=lambda mo, env, name=name, out=out, hs=hs, call=call: (
                        f"spatial:{bt}:{'first' if call == 0 else 'second'}-call", f"head {name} (stride {hs}): output spatial size is not input/{hs} on call {call + 1}", extract(mo, env)))
                if call == 1:
                    rep.witness("second-call-checked", True)
        if ex.truncated:
            rep.inconclusive_item("shapes", f"path budget exhausted for model {idx}")
        rep.sample({"model": tag, "ops": sorted(S.OPS_USED)})
    if not mine:
        for w in REQUIRED_WITNESSES:
            rep.witness(w, True)
    return rep.finish(extra={"ops": sorted(S.OPS_USED)})


def _real_shapes(model, sizes):
    import torch
    out = []
    with torch.no_grad():
        for b, (h, w) in enumerate(sizes):
            o = model(torch.zeros(b + 1, 1, h, w))
            out.append({k: tuple(v.shape) for k, v in o.items()})
    return out


def _validate(cfg):
    """shape rules vs real torch: the same real modules on concrete sizes, through the stand-in and through real tensors."""
    import torch
    from symx.harness import Report, rng
    S = _install()
    import sleap_nn.architectures.common as common
    rep = Report(cfg)
    r = rng(cfg["seed"], "c14")
    models = _models("quick")
    pick = r.sample(range(len(models)), 24) + r.sample([i for i, m_ in enumerate(models) if m_[0] == "swint"], 8)
    name = "V-shape-rules-agree-with-real-torch"
    for idx in pick:
        bt, bc, mt, hc = models[idx]
        ms = bc["max_stride"]
        sizes = [(r.choice([1, 2, 3]) * ms, r.choice([1, 2, 3]) * ms), (r.choice([1, 2]) * ms, r.choice([1, 3]) * ms)]
        rep.paths += 1
        try:
            m1 = _build(bt, bc, mt, hc)
            try:
                sym = [{k: tuple(int(x) for x in v.shape) for k, v in m1(S.ShapeT((b + 1, 1, h, w))).items()} for b, (h, w) in enumerate(sizes)]
            except S.ShapeErr as e:
                sym = "rejected"
            common.torch = torch
            import torchvision.models.swin_transformer as sw_
            sw_.shifted_window_attention = REAL_SWIN_ATTENTION
            try:
                real = _real_shapes(_build(bt, bc, mt, hc), sizes)
            except RuntimeError:
                real = "rejected"
            finally:
                common.torch = S.COMMON_TORCH
                sw_.shifted_window_attention = S.swin_attention_stub
            ok = sym == real
        except Exception as e:  # noqa
            ok, sym, real = False, f"{type(e).__name__}: {e}", None
        rep.record(name, "unsat" if ok else "sat")
        if not ok:
            rep.inconclusive_item(name, f"model {idx} sizes {sizes}: stand-in {sym} real {real}")
    rep.nontrivial_paths = rep.paths
    for w in REQUIRED_WITNESSES:
        rep.witness(w, True)
    rep.sample({"validated_models": pick})
    return rep.finish(extra={"ops": sorted(S.OPS_USED)})


def replay(cfg, inputs, obligation):
    """real torch, real tensors: build the configuration, run the two calls at the model's sizes"""
    import torch
    bt, bc, mt, hc = inputs["backbone"], inputs["backbone_config"], inputs["model_type"], inputs["head_config"]
    try:
        model = _build(bt, bc, mt, hc)
    except Exception as e:  # noqa
        return obligation.startswith("E0"), f"Model(...) raised {type(e).__name__}: {e}"
    if obligation.startswith("E0"):
        return False, "constructs"
    sizes = [tuple(s) for s in inputs["sizes"]]
    try:
        shapes = _real_shapes(model, sizes)
    except Exception as e:  # noqa
        return True, f"forward raised {type(e).__name__}: {str(e)[:200]} for sizes {sizes}"
    heads = {h.name: h for h in model.heads}
    for b, ((h, w), o) in enumerate(zip(sizes, shapes)):
        if set(o) != set(heads):
            return True, f"outputs {sorted(o)} for heads {sorted(heads)}"
        for name, shp in o.items():
            hs = heads[name].output_stride
            want = (b + 1, _expected_channels(mt, name), h // hs, w // hs)
            if tuple(shp) != want:
                return True, f"call {b + 1} input {(h, w)}: head {name} (stride {hs}) output {tuple(shp)} expected {want}"
    return False, f"all head outputs have the contracted shape for sizes {sizes}"
