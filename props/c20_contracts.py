"""PEP-316 contract functions for C20, analysed by CrossHair.  Each is an ordinary function over the REAL builders;
``post: _`` must hold for every argument value satisfying ``pre``."""
from __future__ import annotations
from typing import List, Optional


def _builders():
    import sleap_nn.train as T
    return T


_CACHE = {}


def warm():
    """Concrete sub-configurations that the contracts only pass along are built ONCE, outside CrossHair's tracing
    (tracing executes every Python bytecode of the builders symbolically-aware and is ~50x slower)."""
    T = _builders()
    if _CACHE:
        return
    _CACHE["dc"] = T.get_data_config(train_labels_path="a.slp", val_labels_path="b.slp")
    _CACHE["tc"] = T.get_trainer_config()
    for bb, hd in (("unet", "single_instance"), ("convnext", "centered_instance"), ("unet", "centroid"), ("swint", "bottomup"), ("unet", "bottomup")):
        _CACHE[("mc", bb, hd)] = T.get_model_config(backbone_config=bb, head_configs=hd)
    _CACHE["full"] = _full(_CACHE["dc"], _CACHE[("mc", "unet", "bottomup")], _CACHE["tc"])


def _dc():
    return _CACHE["dc"] if "dc" in _CACHE else _builders().get_data_config(train_labels_path="a.slp", val_labels_path="b.slp")


def _tc():
    return _CACHE["tc"] if "tc" in _CACHE else _builders().get_trainer_config()


def _mc(bb, hd):
    return _CACHE[("mc", bb, hd)] if ("mc", bb, hd) in _CACHE else _builders().get_model_config(backbone_config=bb, head_configs=hd)


GEO = ("rotation", "scale", "translate", "erase_scale", "mixup")
INT = ("uniform_noise", "gaussian_noise", "contrast", "brightness")


def _geo_ok(names, g):
    ok = True
    if "rotation" in names:
        ok = ok and g.affine_p == 1.0 and g.rotation != 0
    if "scale" in names:
        ok = ok and g.affine_p == 1.0 and tuple(g.scale) != (1.0, 1.0)
    if "translate" in names:
        ok = ok and g.affine_p == 1.0 and g.translate_height != 0 and g.translate_width != 0
    if "erase_scale" in names:
        ok = ok and g.erase_p == 1.0
    if "mixup" in names:
        ok = ok and g.mixup_p == 1.0
    # nothing that was not named is switched on
    if not any(n in names for n in ("rotation", "scale", "translate")):
        ok = ok and g.affine_p == 0.0
    if "erase_scale" not in names:
        ok = ok and g.erase_p == 0.0
    if "mixup" not in names:
        ok = ok and g.mixup_p == 0.0
    return ok


def geometric_names_all_enabled(names: List[str]) -> bool:
    """
    pre: len(names) <= 3
    pre: all(n in ("rotation", "scale", "translate", "erase_scale", "mixup") for n in names)
    post: _
    """
    cfg = _builders().get_aug_config(None, list(names))
    return _geo_ok(names, cfg.geometric)


def intensity_names_all_enabled(names: List[str]) -> bool:
    """
    pre: len(names) <= 3
    pre: all(n in ("uniform_noise", "gaussian_noise", "contrast", "brightness") for n in names)
    post: _
    """
    i = _builders().get_aug_config(list(names), None).intensity
    ok = (i.uniform_noise_p == (1.0 if "uniform_noise" in names else 0.0) and i.gaussian_noise_p == (1.0 if "gaussian_noise" in names else 0.0)
          and i.contrast_p == (1.0 if "contrast" in names else 0.0) and i.brightness_p == (1.0 if "brightness" in names else 0.0))
    return ok


def _full(dc, mc, tc):
    from sleap_nn.config.training_job_config import TrainingJobConfig, verify_training_cfg
    return verify_training_cfg(TrainingJobConfig(data_config=dc, model_config=mc, trainer_config=tc).to_sleap_nn_cfg())


def data_args_reach_their_place_a(scale: float, max_height: int, max_width: int, is_rgb: bool) -> bool:
    """
    pre: 0.0 <= scale <= 8.0
    pre: 1 <= max_height <= 4096 and 1 <= max_width <= 4096
    post: _
    """
    T = _builders()
    dc = T.get_data_config(train_labels_path="a.slp", val_labels_path="b.slp", scale=scale, max_height=max_height, max_width=max_width, is_rgb=is_rgb)
    c = _full(dc, _mc("unet", "single_instance"), _tc())
    p = c.data_config.preprocessing
    d = c.data_config
    return (p.scale == scale and p.max_height == max_height and p.max_width == max_width and p.is_rgb == is_rgb and d.train_labels_path == "a.slp"
            and d.val_labels_path == "b.slp" and d.use_augmentations_train is False and d.augmentation_config is None)


def data_args_reach_their_place_b(chunk_size: int, min_crop_size: int, user_only: bool, delete_chunks: bool) -> bool:
    """
    pre: 1 <= chunk_size <= 100000 and 1 <= min_crop_size <= 4096
    post: _
    """
    T = _builders()
    dc = T.get_data_config(train_labels_path="a.slp", val_labels_path="b.slp", chunk_size=chunk_size, min_crop_size=min_crop_size, user_instances_only=user_only,
                           delete_chunks_after_training=delete_chunks)
    c = _full(dc, _mc("convnext", "centered_instance"), _tc())
    d = c.data_config
    return (d.chunk_size == chunk_size and d.preprocessing.min_crop_size == min_crop_size and d.user_instances_only == user_only and d.delete_chunks_after_training == delete_chunks
            and d.preprocessing.scale == 1.0 and d.preprocessing.is_rgb is False)


def trainer_args_reach_their_place_a(batch_size: int, num_workers: int, top_k: int, shuffle: bool, save_last: bool) -> bool:
    """
    pre: 1 <= batch_size <= 1024 and 0 <= num_workers <= 64 and -1 <= top_k <= 10
    post: _
    """
    T = _builders()
    tc = T.get_trainer_config(batch_size=batch_size, shuffle_train=shuffle, num_workers=num_workers, ckpt_save_top_k=top_k, ckpt_save_last=save_last)
    c = _full(_dc(), _mc("unet", "centroid"), tc).trainer_config
    return (c.train_data_loader.batch_size == batch_size and c.val_data_loader.batch_size == batch_size and c.train_data_loader.shuffle == shuffle
            and c.train_data_loader.num_workers == num_workers and c.val_data_loader.num_workers == num_workers and c.model_ckpt.save_top_k == top_k
            and c.model_ckpt.save_last == save_last)


def trainer_args_reach_their_place_b(max_epochs: int, seed: int) -> bool:
    """
    pre: 1 <= max_epochs <= 100000 and 0 <= seed <= 2**31
    post: _
    """
    T = _builders()
    tc = T.get_trainer_config(max_epochs=max_epochs, seed=seed)
    c = _full(_dc(), _mc("swint", "bottomup"), tc).trainer_config
    return c.max_epochs == max_epochs and c.seed == seed and c.optimizer_name == "Adam"


def trainer_args_reach_their_place_d(lr: float, amsgrad: bool) -> bool:
    """
    pre: 0.0 < lr <= 1.0
    post: _
    """
    T = _builders()
    tc = T.get_trainer_config(learning_rate=lr, amsgrad=amsgrad)
    c = _full(_dc(), _mc("unet", "single_instance"), tc).trainer_config
    return c.optimizer.lr == lr and c.optimizer.amsgrad == amsgrad


def trainer_args_reach_their_place_c(min_delta: float, patience: int, early: bool) -> bool:
    """
    pre: 0.0 <= min_delta <= 1.0 and 1 <= patience <= 1000
    post: _
    """
    T = _builders()
    tc = T.get_trainer_config(early_stopping=early, early_stopping_min_delta=min_delta, early_stopping_patience=patience)
    c = _full(_dc(), _mc("unet", "centroid"), tc).trainer_config
    return c.early_stopping.stop_training_on_plateau == early and c.early_stopping.min_delta == min_delta and c.early_stopping.patience == patience


def backbone_dict_reaches_its_place_a(in_channels: int, filters: int) -> bool:
    """
    pre: 1 <= in_channels <= 3 and 1 <= filters <= 256
    post: _
    """
    T = _builders()
    mc = T.get_model_config(backbone_config={"unet": {"in_channels": in_channels, "filters": filters, "max_stride": 16, "output_stride": 2}},
                            head_configs={"single_instance": {"confmaps": {"part_names": None, "sigma": 2.5, "output_stride": 2}}})
    c = _full(_dc(), mc, _tc()).model_config
    u = c.backbone_config.unet
    return (u.in_channels == in_channels and u.filters == filters and u.max_stride == 16 and u.output_stride == 2 and c.backbone_config.convnext is None
            and c.backbone_config.swint is None and c.head_configs.single_instance.confmaps.sigma == 2.5 and c.head_configs.centroid is None and c.head_configs.bottomup is None)


def backbone_dict_reaches_its_place_b(max_stride: int, output_stride: int) -> bool:
    """
    pre: max_stride in (8, 16, 32) and output_stride in (1, 2, 4)
    post: _
    """
    T = _builders()
    mc = T.get_model_config(backbone_config={"unet": {"in_channels": 1, "filters": 32, "max_stride": max_stride, "output_stride": output_stride}},
                            head_configs={"centroid": {"confmaps": {"anchor_part": None, "sigma": 1.5, "output_stride": output_stride}}})
    c = _full(_dc(), mc, _tc()).model_config
    u = c.backbone_config.unet
    return (u.max_stride == max_stride and u.output_stride == output_stride and c.head_configs.centroid.confmaps.output_stride == output_stride
            and c.head_configs.centroid.confmaps.sigma == 1.5 and c.head_configs.single_instance is None)


def normalisation_is_idempotent(scale: float, batch_size: int) -> bool:
    """
    pre: 0.0 <= scale <= 8.0 and 1 <= batch_size <= 1024
    post: _
    """
    from sleap_nn.config.training_job_config import verify_training_cfg
    import copy
    # a complete, already normalised configuration (built concretely in warm()) whose two fields are then made symbolic:
    # normalising it again must change neither them nor anything else
    c1 = copy.deepcopy(_CACHE["full"]) if "full" in _CACHE else _full(_dc(), _mc("unet", "bottomup"), _tc())
    c1.data_config.preprocessing.scale = scale
    c1.trainer_config.train_data_loader.batch_size = batch_size
    c2 = verify_training_cfg(c1)
    return (c2.data_config.preprocessing.scale == scale and c2.trainer_config.train_data_loader.batch_size == batch_size and c1.data_config.preprocessing.scale == scale
            and set(c1.keys()) == set(c2.keys()) and c2.model_config.head_configs.bottomup is not None
            and c2.model_config.head_configs.bottomup.confmaps.sigma == c1.model_config.head_configs.bottomup.confmaps.sigma
            and c2.trainer_config.val_data_loader.batch_size == c1.trainer_config.val_data_loader.batch_size)


BACKBONE_PRESETS = ("unet", "unet_medium_rf", "unet_large_rf", "convnext", "convnext_tiny", "convnext_small", "convnext_base", "convnext_large",
                    "swint", "swint_tiny", "swint_small", "swint_base")
HEAD_PRESETS = ("single_instance", "centered_instance", "centroid", "bottomup")


def _snapshot(obj):
    import attrs
    return attrs.asdict(obj, recurse=True)


def _edit_all(obj, delta):
    """edit every scalar leaf of an attrs configuration object in place (validators may refuse some edits: those leaves stay)"""
    import attrs
    n = 0
    for f in attrs.fields(type(obj)):
        v = getattr(obj, f.name)
        if attrs.has(type(v)):
            n += _edit_all(v, delta)
            continue
        if isinstance(v, bool):
            nv = not v
        elif isinstance(v, int):
            nv = v + delta
        elif isinstance(v, float):
            nv = v + delta
        elif isinstance(v, str):
            nv = v + "~"
        else:
            continue
        try:
            type(obj).__setattr__(obj, f.name, nv)  # not builtins.setattr: CrossHair runs that one untraced
            n += 1
        except Exception:  # noqa  a validator refused the edited value
            pass
    return n


def _fresh(build, delta):
    o1 = build()
    snap = _snapshot(o1)
    edited = _edit_all(o1, delta)
    return edited > 0 and _snapshot(build()) == snap


# every unspecified option gets the schema default ON EVERY CALL: editing the object a builder returned must not leak into the next
# call with the same arguments (preset objects, default sub-configurations and lists must be fresh)
def backbone_presets_do_not_share_state(bi: int, delta: int) -> bool:
    """
    pre: 0 <= bi < 12 and 1 <= delta <= 64
    post: _
    """
    T = _builders()
    return _fresh(lambda: T.get_backbone_config(BACKBONE_PRESETS[bi]), delta)


def head_presets_do_not_share_state(hi: int, delta: int) -> bool:
    """
    pre: 0 <= hi < 4 and 1 <= delta <= 64
    post: _
    """
    T = _builders()
    return _fresh(lambda: T.get_head_configs(HEAD_PRESETS[hi]), delta)


def defaults_do_not_share_state(delta: int) -> bool:
    """concrete companion (run by the 'concrete' configuration, not by CrossHair: the attrs validators fork on every edited leaf)"""
    T = _builders()
    return (_fresh(lambda: T.get_data_config(train_labels_path="a.slp", val_labels_path="b.slp"), delta) and _fresh(lambda: T.get_trainer_config(), delta)
            and _fresh(lambda: T.get_model_config(backbone_config="unet", head_configs="centroid"), delta))


def scheduler_dict_reaches_its_place(step: bool, give_a: bool, give_b: bool, a: int, g: float) -> bool:
    """
    pre: 1 <= a <= 1000 and 0.0 < g <= 1.0
    post: _
    """
    # a scheduler named with a parameter dictionary -- possibly EMPTY -- is selected, carries the given parameters and the schema
    # defaults for the rest; the other scheduler stays unset
    from sleap_nn.config.trainer_config import StepLRConfig, ReduceLROnPlateauConfig
    T = _builders()
    if step:
        d = {}
        if give_a:
            d["step_size"] = a
        if give_b:
            d["gamma"] = g
        c = T.get_trainer_config(lr_scheduler={"step_lr": d}).lr_scheduler
        ref = StepLRConfig()
        s = c.step_lr
        return (s is not None and c.reduce_lr_on_plateau is None and s.step_size == (a if give_a else ref.step_size) and s.gamma == (g if give_b else ref.gamma))
    d = {}
    if give_a:
        d["patience"] = a
    if give_b:
        d["factor"] = g
    c = T.get_trainer_config(lr_scheduler={"reduce_lr_on_plateau": d}).lr_scheduler
    ref = ReduceLROnPlateauConfig()
    s = c.reduce_lr_on_plateau
    return (s is not None and c.step_lr is None and s.patience == (a if give_a else ref.patience) and s.factor == (g if give_b else ref.factor)
            and s.threshold == ref.threshold and s.cooldown == ref.cooldown and s.threshold_mode == ref.threshold_mode)
