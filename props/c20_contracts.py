"""PEP-316 contract functions for C20, analysed by CrossHair.  Each is an ordinary function over the REAL builders;
``post: _`` must hold for every argument value satisfying ``pre``."""
from __future__ import annotations
from typing import List, Optional


def _builders():
    import sleap_nn.train as T
    return T


GEO = ("rotation", "scale", "translate", "erase_scale", "mixup")
INT = ("uniform_noise", "gaussian_noise", "contrast", "brightness")


def _geo_ok(names, g):
    ok = True
    if "rotation" in names:
        ok = ok and g.affine_p == 1.0 and g.rotation != 0
    if "scale" in names:
        ok = ok and g.affine_p == 1.0 and tuple(g.scale) != (1.0, 1.0)
    if "translate" in names:
        ok = ok and g.affine_p == 1.0 and g.translate_height != 0 and g.translate_width != 0
    if "erase_scale" in names:
        ok = ok and g.erase_p == 1.0
    if "mixup" in names:
        ok = ok and g.mixup_p == 1.0
    # nothing that was not named is switched on
    if not any(n in names for n in ("rotation", "scale", "translate")):
        ok = ok and g.affine_p == 0.0
    if "erase_scale" not in names:
        ok = ok and g.erase_p == 0.0
    if "mixup" not in names:
        ok = ok and g.mixup_p == 0.0
    return ok


def geometric_names_all_enabled(names: List[str]) -> bool:
    """
    pre: len(names) <= 3
    pre: all(n in ("rotation", "scale", "translate", "erase_scale", "mixup") for n in names)
    post: _
    """
    cfg = _builders().get_aug_config(None, list(names))
    return _geo_ok(names, cfg.geometric)


def intensity_names_all_enabled(names: List[str]) -> bool:
    """
    pre: len(names) <= 3
    pre: all(n in ("uniform_noise", "gaussian_noise", "contrast", "brightness") for n in names)
    post: _
    """
    i = _builders().get_aug_config(list(names), None).intensity
    ok = (i.uniform_noise_p == (1.0 if "uniform_noise" in names else 0.0) and i.gaussian_noise_p == (1.0 if "gaussian_noise" in names else 0.0)
          and i.contrast_p == (1.0 if "contrast" in names else 0.0) and i.brightness_p == (1.0 if "brightness" in names else 0.0))
    return ok


def _full(dc, mc, tc):
    from sleap_nn.config.training_job_config import TrainingJobConfig, verify_training_cfg
    return verify_training_cfg(TrainingJobConfig(data_config=dc, model_config=mc, trainer_config=tc).to_sleap_nn_cfg())


def data_args_reach_their_place(scale: float, max_height: int, max_width: int, chunk_size: int, min_crop_size: int, is_rgb: bool, user_only: bool, delete_chunks: bool) -> bool:
    """
    pre: 0.0 <= scale <= 8.0
    pre: 1 <= max_height <= 4096 and 1 <= max_width <= 4096 and 1 <= chunk_size <= 100000 and 1 <= min_crop_size <= 4096
    post: _
    """
    T = _builders()
    dc = T.get_data_config(train_labels_path="a.slp", val_labels_path="b.slp", scale=scale, max_height=max_height, max_width=max_width, chunk_size=chunk_size,
                           min_crop_size=min_crop_size, is_rgb=is_rgb, user_instances_only=user_only, delete_chunks_after_training=delete_chunks)
    c = _full(dc, T.get_model_config(backbone_config="unet", head_configs="single_instance"), T.get_trainer_config())
    p = c.data_config.preprocessing
    d = c.data_config
    return (p.scale == scale and p.max_height == max_height and p.max_width == max_width and d.chunk_size == chunk_size and p.min_crop_size == min_crop_size
            and p.is_rgb == is_rgb and d.user_instances_only == user_only and d.delete_chunks_after_training == delete_chunks
            and d.train_labels_path == "a.slp" and d.val_labels_path == "b.slp" and d.use_augmentations_train is False and d.augmentation_config is None)


def trainer_args_reach_their_place(batch_size: int, num_workers: int, top_k: int, max_epochs: int, seed: int, lr: float, min_delta: float, patience: int,
                                   shuffle: bool, save_last: bool, amsgrad: bool, early: bool) -> bool:
    """
    pre: 1 <= batch_size <= 1024 and 0 <= num_workers <= 64 and -1 <= top_k <= 10 and 1 <= max_epochs <= 100000 and 0 <= seed <= 2**31
    pre: 0.0 < lr <= 1.0 and 0.0 <= min_delta <= 1.0 and 1 <= patience <= 1000
    post: _
    """
    T = _builders()
    tc = T.get_trainer_config(batch_size=batch_size, shuffle_train=shuffle, num_workers=num_workers, ckpt_save_top_k=top_k, ckpt_save_last=save_last, max_epochs=max_epochs, seed=seed,
                              learning_rate=lr, amsgrad=amsgrad, early_stopping=early, early_stopping_min_delta=min_delta, early_stopping_patience=patience)
    c = _full(T.get_data_config(train_labels_path="a.slp", val_labels_path="b.slp"), T.get_model_config(backbone_config="unet", head_configs="centroid"), tc).trainer_config
    return (c.train_data_loader.batch_size == batch_size and c.val_data_loader.batch_size == batch_size and c.train_data_loader.shuffle == shuffle
            and c.train_data_loader.num_workers == num_workers and c.val_data_loader.num_workers == num_workers and c.model_ckpt.save_top_k == top_k
            and c.model_ckpt.save_last == save_last and c.max_epochs == max_epochs and c.seed == seed and c.optimizer.lr == lr and c.optimizer.amsgrad == amsgrad
            and c.early_stopping.stop_training_on_plateau == early and c.early_stopping.min_delta == min_delta and c.early_stopping.patience == patience)


def backbone_dict_reaches_its_place(in_channels: int, filters: int, max_stride_log: int, output_stride_log: int, filters_rate: float) -> bool:
    """
    pre: 1 <= in_channels <= 3 and 1 <= filters <= 256 and 0 <= output_stride_log <= max_stride_log <= 5 and 1.0 <= filters_rate <= 4.0
    post: _
    """
    T = _builders()
    ms, os_ = 2 ** max_stride_log, 2 ** output_stride_log
    mc = T.get_model_config(backbone_config={"unet": {"in_channels": in_channels, "filters": filters, "max_stride": ms, "output_stride": os_, "filters_rate": filters_rate}},
                            head_configs={"single_instance": {"confmaps": {"part_names": None, "sigma": 2.5, "output_stride": os_}}})
    c = _full(T.get_data_config(train_labels_path="a.slp", val_labels_path="b.slp"), mc, T.get_trainer_config()).model_config
    u = c.backbone_config.unet
    return (u.in_channels == in_channels and u.filters == filters and u.max_stride == ms and u.output_stride == os_ and u.filters_rate == filters_rate
            and c.backbone_config.convnext is None and c.backbone_config.swint is None and c.head_configs.single_instance.confmaps.sigma == 2.5
            and c.head_configs.single_instance.confmaps.output_stride == os_ and c.head_configs.centroid is None and c.head_configs.bottomup is None)


def normalisation_is_idempotent(scale: float, max_height: int, batch_size: int, lr: float, is_rgb: bool) -> bool:
    """
    pre: 0.0 <= scale <= 8.0 and 1 <= max_height <= 4096 and 1 <= batch_size <= 1024 and 0.0 < lr <= 1.0
    post: _
    """
    from sleap_nn.config.training_job_config import verify_training_cfg
    from omegaconf import OmegaConf
    T = _builders()
    c1 = _full(T.get_data_config(train_labels_path="a.slp", val_labels_path="b.slp", scale=scale, max_height=max_height, is_rgb=is_rgb),
               T.get_model_config(backbone_config="unet", head_configs="bottomup"), T.get_trainer_config(batch_size=batch_size, learning_rate=lr))
    c2 = verify_training_cfg(c1)
    return OmegaConf.to_container(c1) == OmegaConf.to_container(c2) and c2.data_config.preprocessing.scale == scale and c2.trainer_config.optimizer.lr == lr


def probability_validator(p: float) -> bool:
    """
    post: _
    """
    from sleap_nn.config.data_config import IntensityConfig, GeometricConfig
    ok = 0.0 <= p <= 1.0
    res = []
    for mk in (lambda: IntensityConfig(uniform_noise_p=p), lambda: IntensityConfig(gaussian_noise_p=p), lambda: IntensityConfig(contrast_p=p), lambda: IntensityConfig(brightness_p=p),
               lambda: GeometricConfig(affine_p=p), lambda: GeometricConfig(erase_p=p), lambda: GeometricConfig(mixup_p=p)):
        try:
            mk()
            res.append(True)
        except ValueError:
            res.append(False)
    return all(r == ok for r in res)


def scale_validator(s: float) -> bool:
    """
    post: _
    """
    from sleap_nn.config.data_config import PreprocessingConfig
    try:
        PreprocessingConfig(scale=s)
        return s >= 0
    except ValueError:
        return not (s >= 0)
