"""C10 -- well-separated animals keep their identity across frames.

Same symbolic-history harness as C09, restricted to the property's scenario class by assumptions placed in the
harness: same-animal association scores exceed every cross-animal score by a margin (> 0.6 vs < 0.4), a new
animal only appears in a frame in which all previously seen animals are present, absences are shorter than
the tracking window.  A composition lemma ties the score abstraction to the real scoring functions."""
from __future__ import annotations
import itertools
from fractions import Fraction
import z3
from . import tracking_common as TC

ID = "C10"
FUNCTIONS = TC.FUNCTIONS + [("sleap_nn.evaluation", "compute_oks"), ("sleap_nn.tracking.utils", "compute_euclidean_distance"), ("sleap_nn.tracking.utils", "compute_iou"),
                            ("sleap_nn.tracking.utils", "get_bbox"), ("sleap_nn.tracking.utils", "get_centroid")]
EXPLANATION = ("Symbolic histories of K animals over F frames through the real Tracker (both candidate classes, both matchers, mean/max reduction): presence "
               "bits, listing order and every association score are solver variables, constrained only to the property's scenario class. On every feasible "
               "history the map animal -> track is shown to be a function (same track on every frame in which the animal is detected) and injective (a "
               "newcomer gets an identity nobody has held). Lemmas on the real scoring code show that rigid translates that move less than they are apart "
               "satisfy the score-separation assumption.")
ASSUMPTIONS = ["scenario class of the property: same-animal scores in (0.6,1], cross-animal scores in [0,0.4); newcomers only while everybody else is visible; an animal is never absent for >= window frames (fixed window) ",
               "score abstraction: one fresh symbolic value per (detection, stored feature) pair; lemma L1-L3 connect it to compute_oks / -euclidean distance / IoU for translated templates",
               "duck-typed detections, real sio.Track"]
STUBS = TC.STUBS
OUTSIDE = ["more than 3 animals / 4 frames", "FlowShiftTracker", "identity hand-over outside the scenario class (by design: no distance gating)"]
REQUIRED_WITNESSES = ["history-with-late-arrival", "history-with-absence", "history-with-reversed-listing"]


def bounds(tier):
    return {"animals K": 2 if tier == "quick" else 3, "frames F": 3 if tier == "quick" else 4, "window": "F+1 (absences always shorter) and 2 (absences of length 1 only)"}


def configs(tier, seed):
    out = []
    F = 3
    for cand in ("fixed_window", "local_queues"):
        for matching in ("hungarian", "greedy"):
            # three animals only with the Hungarian matcher: greedy sorts all K*K symbolic scores per frame and exceeded 60000 paths after 27 min
            K = 3 if (tier == "thorough" and matching == "hungarian") else 2
            out.append(dict(kind="history", K=K, F=F, cand=cand, matching=matching, reduction="mean", window=F + 1, thr=0.0))
            out.append(dict(kind="history", K=K, F=F, cand=cand, matching=matching, reduction="max", window=2, thr=0.0))
            if tier == "thorough":
                out.append(dict(kind="history", K=2, F=4, cand=cand, matching=matching, reduction="mean", window=3, thr=0.0))
    for cand in ("fixed_window", "local_queues"):  # negative-distance scores (best value exactly 0)
        for matching in ("hungarian", "greedy"):
            out.append(dict(kind="history", K=2, F=3, cand=cand, matching=matching, reduction="max", window=2, thr=0.0, score_range="neg"))
    out.append(dict(kind="lemma", which="oks"))
    out.append(dict(kind="lemma", which="euclid"))
    out.append(dict(kind="lemma", which="iou"))
    return out


def run_config(cfg):
    return _run_history(cfg) if cfg["kind"] == "history" else _run_lemma(cfg)


def identity_violation(hist):
    """concrete oracle over a whole history [(dets, out)]."""
    ident = {}
    for dets, out in hist:
        for o in out:
            if o.track is None:
                continue
            n = o.track.name
            if o.animal in ident and ident[o.animal] != n:
                return f"animal {o.animal} changed track {ident[o.animal]} -> {n}"
            ident.setdefault(o.animal, n)
    if len(set(ident.values())) != len(ident):
        return f"two animals share an identity: {ident}"
    return None


def _in_class(K, window, pres):
    """is the (concrete) presence history inside the property's scenario class?"""
    seen = set()
    last = {}
    for t, fr in enumerate(pres):
        for a in fr:
            if a not in seen and seen and not seen <= set(fr):
                return False  # newcomer while a previously seen animal is missing
        for a in fr:
            if a in last and t - last[a] > window:  # all its instances left the window
                return False
        # fixed window counts *queue entries* (frames with detections), conservative: use frame distance
        for a in fr:
            seen.add(a)
            last[a] = t
    return True


def _run_history(cfg):
    from symx import xf
    from symx.explorer import model_env, DefaultEnv
    from symx.harness import Report
    rep = Report(cfg)
    K, F, W = cfg["K"], cfg["F"], cfg["window"]

    def on_frame(ex, hist, dets, out, phase):
        if phase == "pre":
            pres = [[d.animal for d in ds] for ds, _ in hist] + [[d.animal for d in dets]]
            # absences must be shorter than the window: with window w an animal may miss at most w-1 consecutive queue entries
            seen = set()
            last = {}
            for t, fr in enumerate(pres):
                for a in fr:
                    if a not in seen and seen and not seen <= set(fr):
                        return "skip"
                    if a in last and (t - last[a]) >= W:
                        return "skip"
                for a in fr:
                    seen.add(a)
                    last[a] = t
            return None
        return None

    ex, path, SC = TC.explore(cfg, rep, True, on_frame)

    def extract(env):
        d = {"frames": TC.history_of(ex, env, K, F, False)}
        d["scores"] = {",".join(map(str, k)): float(env[v.decl().name()]) for k, v in SC.items()}
        return d
    for r in ex.run(path):
        if r[0] == "SKIP":
            continue
        rep.paths += 1
        rep.nontrivial_paths += 1
        hist = r[-1] if r[0] == "OK" else r[3]
        pres = [[d.animal for d in ds] for ds, _ in hist]
        firsts = {}
        for t, fr in enumerate(pres):
            for a in fr:
                firsts.setdefault(a, t)
        rep.witness("history-with-late-arrival", any(t > 0 for t in firsts.values()) and len(firsts) > 1)
        rep.witness("history-with-absence", any(a in pres[i] and a not in pres[i + 1] and a in pres[i + 2] for i in range(len(pres) - 2) for a in range(K)))
        rep.witness("history-with-reversed-listing", any(len(fr) > 1 and fr[0] > fr[1] for fr in pres))
        if r[0] == "EXC":
            m = ex.full_model()
            e = r[2]
            rep.record("T-no-exception-inside-the-scenario-class", "sat")
            rep.violation("T-no-exception-inside-the-scenario-class", f"exception:{type(e).__name__}:{cfg['cand']}:{cfg['matching']}",
                          f"track() raised {type(e).__name__}: {str(e)[:100]} after history {pres}", extract(DefaultEnv(model_env(m))))
            continue
        bad = identity_violation(hist)
        rep.record("O1-animal-to-track-is-a-function-and-injective", "sat" if bad else "unsat")
        if bad:
            m = ex.full_model()
            rep.violation("O1-animal-to-track-is-a-function-and-injective", f"identity:{'switch' if 'changed' in bad else 'shared'}:{cfg['cand']}:{cfg['matching']}",
                          f"{bad}; history {pres}", extract(DefaultEnv(model_env(m))))
        else:
            rep.sample({"history": pres, "tracks": [[(o.animal, o.track.name if o.track else None) for o in out] for _, out in hist]})
    rep.infeasible_paths = ex.infeasible
    if ex.truncated:
        rep.inconclusive_item("history", "path budget exhausted")
    return rep.finish()


def _run_lemma(cfg):
    """Composition lemmas on the REAL scoring functions: for a rigid template translated by at most delta per frame and two
    animals at least Delta > 3*delta apart (in every coordinate used), same-animal score > cross-animal score."""
    import numpy as np
    from symx import xf, numpyfe
    from symx.xf import XF, And, Or, Not, rcmp
    from symx.explorer import Explorer
    from symx.harness import Report, discharge
    import sleap_nn.evaluation as ev
    import sleap_nn.tracking.utils as tu
    rep = Report(cfg)
    ev.np = numpyfe.NP
    tu.np = numpyfe.NP
    numpyfe._Flag.sym_factories = False
    which = cfg["which"]
    tpl = [(0, 0), (4, 6), (10, 2)]  # concrete rigid template (3 nodes)
    ax, ay, bx, by, mx, my = [z3.Real(n) for n in ("ax", "ay", "bx", "by", "mx", "my")]
    delta = Fraction(2)
    Delta = Fraction(30)
    base = [mx <= delta, mx >= -delta, my <= delta, my >= -delta, bx - ax >= Delta, by - ay >= -Delta, by - ay <= Delta]
    ex = Explorer(base, timeout_ms=120000, exp_mode="uf", fork_specials=True)

    def pose(ox, oy):
        a = np.empty((len(tpl), 2), dtype=object)
        for i, (x, y) in enumerate(tpl):
            a[i, 0] = XF(ox + x)
            a[i, 1] = XF(oy + y)
        return a.view(numpyfe.SymNd)

    def path():
        A0, A1, B0 = pose(ax, ay), pose(ax + mx, ay + my), pose(bx, by)
        if which == "oks":
            return XF.of(ev.compute_oks(A0, A1)[0, 0]), XF.of(ev.compute_oks(B0, A1)[0, 0])
        if which == "euclid":
            ca, cb, cq = tu.get_centroid(A0), tu.get_centroid(B0), tu.get_centroid(A1)
            return XF.of(tu.compute_euclidean_distance(cq, ca)), XF.of(tu.compute_euclidean_distance(cq, cb))
        return XF.of(tu.compute_iou(tu.get_bbox(A1), tu.get_bbox(A0))), XF.of(tu.compute_iou(tu.get_bbox(A1), tu.get_bbox(B0)))

    for same, cross in ex.run(path):
        rep.paths += 1
        rep.nontrivial_paths += 1
        discharge(ex, rep, f"L-{which}-same-animal-score-exceeds-cross-animal-score", And(same.fin(), cross.fin(), rcmp(">", same.v, cross.v)),
                  on_sat=lambda m, env: (f"lemma:{which}", "a translated template scores no higher against itself than against a far away animal",
                                         {k: float(env[k]) for k in ("ax", "ay", "bx", "by", "mx", "my")}))
        rep.sample({"lemma": which, "same": str(same.v)[:200]})
    for w in REQUIRED_WITNESSES:
        rep.witness(w, True)
    return rep.finish()


def replay(cfg, inputs, obligation):
    if cfg["kind"] == "lemma":
        import numpy as np
        import sleap_nn.evaluation as ev
        import sleap_nn.tracking.utils as tu
        tpl = np.array([(0, 0), (4, 6), (10, 2)], dtype=np.float64)
        A0 = tpl + [inputs["ax"], inputs["ay"]]
        A1 = A0 + [inputs["mx"], inputs["my"]]
        B0 = tpl + [inputs["bx"], inputs["by"]]
        if cfg["which"] == "oks":
            s, c = ev.compute_oks(A0, A1)[0, 0], ev.compute_oks(B0, A1)[0, 0]
        elif cfg["which"] == "euclid":
            s, c = tu.compute_euclidean_distance(tu.get_centroid(A1), tu.get_centroid(A0)), tu.compute_euclidean_distance(tu.get_centroid(A1), tu.get_centroid(B0))
        else:
            s, c = tu.compute_iou(tu.get_bbox(A1), tu.get_bbox(A0)), tu.compute_iou(tu.get_bbox(A1), tu.get_bbox(B0))
        return (not s > c), f"same {s} cross {c}"

    def check(cfg_, hist):
        return identity_violation(hist)
    return TC.replay_history(cfg, inputs, check)
