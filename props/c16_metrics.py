"""C16 -- evaluation metrics are perfect for perfect predictions, bounded and monotone.

The real Evaluator.voc_metrics / mOKS / pck_metrics / distance_metrics / visibility_metrics, match_frame_pairs and
compute_dists run over numpy object arrays of z3-backed scalars (the Evaluator constructor, which needs sleap_io
files, is bypassed; frame pairs are duck-typed)."""
from __future__ import annotations
import itertools, math
from fractions import Fraction
import z3

ID = "C16"
FUNCTIONS = [("sleap_nn.evaluation", "Evaluator.voc_metrics"), ("sleap_nn.evaluation", "Evaluator.mOKS"), ("sleap_nn.evaluation", "Evaluator.pck_metrics"),
             ("sleap_nn.evaluation", "Evaluator.distance_metrics"), ("sleap_nn.evaluation", "Evaluator.visibility_metrics"), ("sleap_nn.evaluation", "match_frame_pairs"),
             ("sleap_nn.evaluation", "match_instances"), ("sleap_nn.evaluation", "compute_dists"), ("sleap_nn.evaluation", "compute_oks")]
EXPLANATION = ("Bounded symbolic execution of the real metric code: (voc) match scores, detection scores and the number of false negatives symbolic -> AP, AR, mAP, mAR in "
               "[0,1] and non-increasing in the match threshold on every sort order; (pck) symbolic distances (possibly missing) and two symbolic pixel thresholds -> "
               "PCK in [0,1] and non-decreasing in the threshold; (vis) visibility confusion counts over symbolic missing patterns -> ratios in [0,1]; (dist) average "
               "distance >= 0; (fixed point) predictions identical to symbolic ground truth through the real matching -> mOKS 1, distances 0, AP = AR = 1 up to "
               "np.spacing, PCK = visible fraction; (deletion) recall after deleting a prediction vs before, through the real greedy matching with a symbolic OKS matrix; "
               "(float) the scalar arithmetic of the recall / precision curve is lifted from the current source of voc_metrics by an AST pass (symx/fpast.py) and decided in "
               "IEEE binary64 (z3 FloatingPoint) for all counts up to 2^16 (2^20): full recall is exactly 1.0, both curves in [0,1], recall monotone in tp, all-TP precision 1 up to 2^-50.")
ASSUMPTIONS = ["exact real arithmetic + IEEE special values; one missing flag per point; every instance has at least one visible node",
               "threshold grids are passed as the functions' own parameters (3 match thresholds, 5 recall thresholds): the defaults 10/101/10 are outside the claim",
               "deletion obligation: compute_oks inside match_instances is replaced by a symbolic OKS matrix in [0,1] (any geometry); replay realises it geometrically when possible, else pins it",
               "Evaluator.__init__ / find_frame_pairs (sleap_io files) bypassed; frames duck-typed"]
STUBS = ["evaluation.np -> numpy proxy", "Evaluator built with __new__ and its positive_pairs / false_negatives / dists_dict attributes set by the harness or by the real match_frame_pairs/compute_dists", "loguru -> no-op"]
OUTSIDE = ["more than 3 matched pairs / 2 frames x 2 animals x 2 nodes", "percentiles of distance_metrics beyond 'avg' (np.percentile interpolation on symbolic order statistics is modelled only for <= 4 values)", "float rounding other than in the recall/precision curve arithmetic (F1-F5)", "instance counts above 2^16 (quick) / 2^20 (thorough) in F1-F5; above 64 in F3"]
REQUIRED_WITNESSES = ["voc-path-with-true-and-false-positive"]
KNOWN = "recall-increases-after-deleting-a-prediction"


def bounds(tier):
    return {"matched pairs": "<=3", "false negatives": "0..2", "match thresholds": [0.5, 0.75, 0.95], "recall thresholds": [0, 0.25, 0.5, 0.75, 1.0], "pck thresholds": "two symbolic t1 <= t2",
            "fixed point": "2 frames x <=2 animals x 2 nodes" if tier == "thorough" else "1-2 frames x <=2 animals x <=2 nodes"}


def configs(tier, seed):
    out = []
    for n in (1, 2, 3):
        for fn in (0, 1, 2) if (tier == "thorough" or n < 3) else (0, 1):
            out.append(dict(kind="voc", n=n, fn=fn))
    out.append(dict(kind="voc", n=0, fn=1))
    for shp in ([(1, 2), (2, 1), (2, 2)] + ([(3, 1)] if tier == "thorough" else [])):  # (3,2): six possibly-missing distances x two thresholds did not finish in 25 min
        out.append(dict(kind="pck", pairs=shp[0], nodes=shp[1]))
        out.append(dict(kind="vis", pairs=shp[0], nodes=shp[1]))
    for (frames, animals, nodes) in ([(1, 1, 2), (1, 2, 1), (2, 1, 1)] + ([(2, 2, 1)] if tier == "thorough" else [])):  # (1,2,2): a path decision came back unknown (nonlinear OKS of two 2-node animals)
        out.append(dict(kind="fixed", frames=frames, animals=animals, nodes=nodes))
    out.append(dict(kind="fixed", frames=1, animals=1, nodes=2, per_coord=True))
    out.append(dict(kind="fixed", frames=2, animals=1, nodes=1, drop=True))  # deleted predictions, incl. frames left without any
    out.append(dict(kind="fixed", frames=1, animals=2, nodes=1, drop=True))  # x and y of a labelled point missing independently
    out.append(dict(kind="deletion", n_gt=2, n_pr=2))
    out.append(dict(kind="float", N=2 ** 16 if tier == "quick" else 2 ** 20, N_mono=64))  # F3 with counts <= 256 did not finish in 240 s
    return out


def run_config(cfg):
    return {"voc": _run_voc, "pck": _run_pck, "vis": _run_vis, "fixed": _run_fixed, "deletion": _run_deletion, "float": _run_float}[cfg["kind"]](cfg)


def _install():
    import sleap_nn.evaluation as ev
    from symx import numpyfe
    ev.np = numpyfe.NP
    numpyfe._Flag.sym_factories = True

    class _L:
        def __getattr__(self, k):
            return lambda *a, **kw: None
    ev.logger = _L()
    return ev


class _I:
    def __init__(self, tag, pts=None, score=None):
        self.tag, self._pts = tag, pts
        if score is not None:
            self.score = score

    def numpy(self):
        return self._pts


class _M:
    """stand-in for MatchInstance"""

    def __init__(self, inst, frame_idx=0):
        self.instance, self.frame_idx, self.video_path = inst, frame_idx, "v.mp4"


class _Frame:
    def __init__(self, instances, idx=0):
        self.instances, self.frame_idx = instances, idx
        self.video = type("V", (), {"backend": type("B", (), {"source_filename": "v.mp4"})()})()


MT = [0.5, 0.75, 0.95]
RT = [0.0, 0.25, 0.5, 0.75, 1.0]


def _run_voc(cfg):
    import numpy as np
    from symx import xf, numpyfe
    from symx.xf import XF, And, Or, Not, rcmp
    from symx.explorer import Explorer
    from symx.harness import Report, discharge
    ev = _install()
    rep = Report(cfg)
    n, nfn = cfg["n"], cfg["fn"]
    m = [z3.Real(f"m{i}") for i in range(n)]
    d = [z3.Real(f"d{i}") for i in range(n)]
    base = [z3.And(x >= 0, x <= 1) for x in m] + [z3.And(x >= 0, x <= 1) for x in d]
    ex = Explorer(base, timeout_ms=60000, max_paths=100000)

    def path():
        E = ev.Evaluator.__new__(ev.Evaluator)
        E.positive_pairs = [(_M(_I(f"g{i}")), _M(_I(f"p{i}", score=XF(d[i]))), XF(m[i])) for i in range(n)]
        E.false_negatives = [_M(_I(f"fn{i}")) for i in range(nfn)]
        return E.voc_metrics(match_score_by="oks", match_score_thresholds=np.array(MT), recall_thresholds=np.array(RT))

    def extract(model, env):
        return {"match_scores": [float(env[f"m{i}"]) for i in range(n)], "detection_scores": [float(env[f"d{i}"]) for i in range(n)], "false_negatives": nfn}
    for res in ex.run(path):
        rep.paths += 1
        rep.nontrivial_paths += 1
        if n == 0:
            ok = all(res[k] == 0 for k in res)
            rep.record("V0-no-matched-pairs-gives-all-zero-metrics", "unsat" if ok else "sat")
            rep.witness("voc-path-with-true-and-false-positive", True)
            continue
        AP, AR = [XF.of(x) for x in res["oks_voc.AP"]], [XF.of(x) for x in res["oks_voc.AR"]]
        mAP, mAR = XF.of(res["oks_voc.mAP"]), XF.of(res["oks_voc.mAR"])
        rng = And(*[And(v.fin(), rcmp(">=", v.v, 0), rcmp("<=", v.v, 1)) for v in AP + AR + [mAP, mAR]])
        discharge(ex, rep, "V1-AP-AR-mAP-mAR-in-0-1", rng, on_sat=lambda mo, env: ("voc-range", "a VOC ratio leaves [0,1]", extract(mo, env)))
        mono = And(*[And(rcmp(">=", AP[k].v, AP[k + 1].v), rcmp(">=", AR[k].v, AR[k + 1].v)) for k in range(len(MT) - 1)])
        discharge(ex, rep, "V2-AP-AR-non-increasing-in-match-threshold", mono, on_sat=lambda mo, env: ("voc-monotone", "AP or AR increases with the match threshold", extract(mo, env)))
        if nfn == 0:
            perfect = And(*[rcmp("==", x, 1) for x in m])
            eps = Fraction(1, 10 ** 9)
            one = And(*[And(rcmp(">=", v.v, 1 - eps), rcmp("<=", v.v, 1)) for v in AP + AR])
            discharge(ex, rep, "V3-perfect-matches-give-AP-AR-1-up-to-spacing", xf.Implies(perfect, one), on_sat=lambda mo, env: ("voc-perfect", "all match scores 1 and no false negatives but AP/AR != 1", extract(mo, env)))
        if n >= 2:
            w = ex.query([xf.zb(And(rcmp(">=", m[0], 0.5), rcmp("<", m[1], 0.5)))])
            rep.witness("voc-path-with-true-and-false-positive", w.status == "sat")
        else:
            rep.witness("voc-path-with-true-and-false-positive", True)
        rep.sample({"path_condition": ex.path_summary(3, 60), "AP0": str(AP[0].v)[:150]})
    if ex.truncated:
        rep.inconclusive_item("voc", "path budget exhausted")
    return rep.finish()


def _sym_dists(pairs, nodes):
    import numpy as np
    from symx.xf import XF
    from symx.numpyfe import SymNd
    a = np.empty((pairs, nodes), dtype=object)
    for i in range(pairs):
        for k in range(nodes):
            a[i, k] = XF(z3.Real(f"dist_{i}_{k}"), z3.Bool(f"dist_{i}_{k}#nan"))
    return a.view(SymNd)


def _run_pck(cfg):
    import numpy as np
    from symx import xf, numpyfe
    from symx.xf import XF, And, Or, Not, rcmp
    from symx.explorer import Explorer
    from symx.harness import Report, discharge
    ev = _install()
    rep = Report(cfg)
    P, N = cfg["pairs"], cfg["nodes"]
    t1, t2 = z3.Real("t1"), z3.Real("t2")
    base = [t1 > 0, t1 <= t2] + [z3.Real(f"dist_{i}_{k}") >= 0 for i in range(P) for k in range(N)]
    ex = Explorer(base, timeout_ms=60000, max_paths=50000)

    def path():
        E = ev.Evaluator.__new__(ev.Evaluator)
        E.dists_dict = {"dists": _sym_dists(P, N), "frame_idxs": list(range(P)), "video_paths": ["v"] * P}
        th = np.empty(2, dtype=object)
        th[0], th[1] = XF(t1), XF(t2)
        r = E.pck_metrics(thresholds=th.view(numpyfe.SymNd))
        dm = E.distance_metrics()
        return r, dm, E.dists_dict["dists"]

    def extract(model, env):
        return {"dists": [["nan" if env[f"dist_{i}_{k}#nan"] else float(env[f"dist_{i}_{k}"]) for k in range(N)] for i in range(P)], "t1": float(env["t1"]), "t2": float(env["t2"])}
    for r, dm, dists in ex.run(path):
        rep.paths += 1
        rep.nontrivial_paths += 1
        mp = XF.of(r["mPCK"])
        parts = [XF.of(x) for x in np.asarray(r["mPCK_parts"]).reshape(-1)]
        discharge(ex, rep, "P1-PCK-in-0-1", And(*[And(v.fin(), rcmp(">=", v.v, 0), rcmp("<=", v.v, 1)) for v in parts + [mp]]),
                  on_sat=lambda mo, env: ("pck-range", "a PCK value leaves [0,1]", extract(mo, env)))
        # per threshold PCK (mean over pairs and nodes of the boolean array) is non-decreasing from t1 to t2
        pcks = r["pcks"]
        tot = [Fraction(0), Fraction(0)]
        for i in range(P):
            for k in range(N):
                for t in (0, 1):
                    e = pcks[i, k, t]
                    tot[t] = xf.radd(tot[t], xf.RIte(e.b if isinstance(e, xf.SB) else bool(e), Fraction(1), Fraction(0)))
        discharge(ex, rep, "P2-PCK-non-decreasing-in-pixel-threshold", rcmp("<=", tot[0], tot[1]), on_sat=lambda mo, env: ("pck-monotone", "PCK decreases when the pixel threshold grows", extract(mo, env)))
        # the dists array handed in is not modified (pck_metrics works on a copy)
        same = all(isinstance(dists[i, k], XF) and xf.isz(dists[i, k].v) and dists[i, k].v.eq(z3.Real(f"dist_{i}_{k}")) for i in range(P) for k in range(N))
        rep.record("P3-pck-does-not-modify-stored-distances", "unsat" if same else "sat")
        if not same:
            from symx.explorer import model_env as _me, DefaultEnv as _DE
            mo_ = ex.full_model()  # the path fixes which distances are missing: the change may show only for those
            rep.violation("P3-pck-does-not-modify-stored-distances", "pck-mutates-dists", "pck_metrics changed the stored distance array", extract(mo_, _DE(_me(mo_))))
        avg = XF.of(dm["avg"])
        anyvis = Or(*[Not(z3.Bool(f"dist_{i}_{k}#nan")) for i in range(P) for k in range(N)])
        discharge(ex, rep, "P4-average-distance-nonnegative", xf.Implies(anyvis, And(avg.fin(), rcmp(">=", avg.v, 0))), on_sat=lambda mo, env: ("dist-avg", "average distance negative / NaN with visible nodes", extract(mo, env)))
        rep.sample({"path_condition": ex.path_summary(3, 60)})
    rep.witness("voc-path-with-true-and-false-positive", True)
    if ex.truncated:
        rep.inconclusive_item("pck", "path budget exhausted")
    return rep.finish()


def _sym_pose(name, nodes, per_coord=False):
    """per_coord: x and y of a point may be missing independently (flags `..#nan` for x and `..y#nan` for y)"""
    import numpy as np
    from symx.xf import XF
    from symx.numpyfe import SymNd
    a = np.empty((nodes, 2), dtype=object)
    for k in range(nodes):
        fl = z3.Bool(f"{name}_{k}#nan")
        fy = z3.Bool(f"{name}_{k}y#nan") if per_coord else fl
        a[k, 0], a[k, 1] = XF(z3.Real(f"{name}_{k}_x"), fl), XF(z3.Real(f"{name}_{k}_y"), fy)
    return a.view(SymNd)


def _run_vis(cfg):
    import numpy as np
    from symx import xf, numpyfe
    from symx.xf import XF, And, Or, Not, rcmp
    from symx.explorer import Explorer
    from symx.harness import Report, discharge
    ev = _install()
    rep = Report(cfg)
    P, N = cfg["pairs"], cfg["nodes"]
    ex = Explorer([], timeout_ms=60000, max_paths=50000)

    def path():
        E = ev.Evaluator.__new__(ev.Evaluator)
        E.positive_pairs = [(_M(_I(f"g{i}", _sym_pose(f"g{i}", N))), _M(_I(f"p{i}", _sym_pose(f"p{i}", N))), XF.of(0.9)) for i in range(P)]
        return E.visibility_metrics()

    def extract(model, env):
        return {"gt_missing": [[bool(env[f"g{i}_{k}#nan"]) for k in range(N)] for i in range(P)], "pr_missing": [[bool(env[f"p{i}_{k}#nan"]) for k in range(N)] for i in range(P)]}
    for r in ex.run(path):
        rep.paths += 1
        rep.nontrivial_paths += 1
        goals = []
        for key in ("precision", "recall"):
            v = r[key]
            if isinstance(v, float) and v != v:
                continue
            v = XF.of(v)
            goals.append(Or(v.nan, And(v.fin(), rcmp(">=", v.v, 0), rcmp("<=", v.v, 1))))
        tot = xf.SI.of(r["tp"]) + xf.SI.of(r["fp"]) + xf.SI.of(r["tn"]) + xf.SI.of(r["fn"])
        goals.append((tot == P * N).b)
        discharge(ex, rep, "S1-visibility-ratios-in-0-1-and-counts-add-up", And(*goals), on_sat=lambda mo, env: ("vis-range", "visibility precision/recall leaves [0,1] or the confusion counts do not add up", extract(mo, env)))
        rep.sample({"path_condition": ex.path_summary(3, 60)})
    rep.witness("voc-path-with-true-and-false-positive", True)
    return rep.finish()


def _run_fixed(cfg):
    """predictions identical to the (symbolic) ground truth, through the real match_frame_pairs + compute_dists."""
    import numpy as np
    from symx import xf, numpyfe
    from symx.xf import XF, And, Or, Not, rcmp
    from symx.explorer import Explorer, model_env, DefaultEnv
    from symx.harness import Report, discharge
    ev = _install()
    rep = Report(cfg)
    F, A, N = cfg["frames"], cfg["animals"], cfg["nodes"]
    pc = bool(cfg.get("per_coord"))

    def miss(f, a, k):  # a keypoint is missing when any of its coordinates is
        return z3.Or(z3.Bool(f"g{f}{a}_{k}#nan"), z3.Bool(f"g{f}{a}_{k}y#nan")) if pc else z3.Bool(f"g{f}{a}_{k}#nan")
    base = []
    for f in range(F):
        for a in range(A):
            base.append(z3.Or(*[z3.Not(miss(f, a, k)) for k in range(N)]))  # at least one visible node per instance
    ex = Explorer(base, timeout_ms=60000, exp_mode="uf", fork_specials=True, max_paths=20000)

    def path():
        pairs = []
        for f in range(F):
            gts = [_I(f"g{f}{a}", _sym_pose(f"g{f}{a}", N, pc)) for a in range(A)]
            prs = [_I(f"p{f}{a}", _sym_pose(f"g{f}{a}", N, pc), score=XF(z3.Real(f"sc{f}{a}"))) for a in range(A)]
            if cfg.get("drop"):  # any subset of the (perfect) predictions may have been deleted, incl. all predictions of a frame
                prs = [p_ for a, p_ in enumerate(prs) if ex.decide(z3.Bool(f"keep{f}{a}"))]
            pairs.append((_Frame(gts, f), _Frame(prs, f)))
        E = ev.Evaluator.__new__(ev.Evaluator)
        try:
            E.positive_pairs, E.false_negatives = ev.match_frame_pairs(pairs, stddev=0.125, scale=None, threshold=0)
            E.dists_dict = ev.compute_dists(E.positive_pairs)
            th = np.array([1.0, 5.0])
            return E, E.mOKS(), E.voc_metrics(match_score_thresholds=np.array(MT), recall_thresholds=np.array(RT)), E.pck_metrics(thresholds=th), E.distance_metrics()
        except Exception as e:  # noqa
            if isinstance(e, xf.EngineGap):
                raise
            return None, e, None, None, None

    def extract(model, env):
        def pt(f, a, k):
            fx = env[f"g{f}{a}_{k}#nan"]
            fy = env[f"g{f}{a}_{k}y#nan"] if pc else fx
            return ["nan" if fx else float(env[f"g{f}{a}_{k}_x"]), "nan" if fy else float(env[f"g{f}{a}_{k}_y"])]
        return {"keep": {f"{f}{a}": (bool(env[f"keep{f}{a}"]) if cfg.get("drop") else True) for f in range(F) for a in range(A)},
                "gt": {f"g{f}{a}": [pt(f, a, k) for k in range(N)] for f in range(F) for a in range(A)},
                "scores": {f"{f}{a}": float(env[f"sc{f}{a}"]) for f in range(F) for a in range(A)}}
    eps = Fraction(1, 10 ** 9)
    for E, mo_, voc, pck, dm in ex.run(path):
        rep.paths += 1
        rep.nontrivial_paths += 1
        if E is None:
            m = ex.full_model()
            rep.record("F0-no-exception", "sat")
            rep.violation("F0-no-exception", f"fixed-exception:{type(mo_).__name__}", f"evaluation of perfect predictions raised {type(mo_).__name__}: {str(mo_)[:120]}", extract(m, DefaultEnv(model_env(m))))
            continue
        rep.record("F0-no-exception", "unsat")
        if cfg.get("drop"):
            # conservation: every ground-truth instance is either matched or reported as missed, whatever was deleted (so deleting predictions
            # cannot shrink the recall denominator); the kept perfect predictions are all matched
            kept = sum(1 for f in range(F) for a in range(A) if ex.query([z3.Not(z3.Bool(f"keep{f}{a}"))]).status == "unsat")
            ok = len(E.positive_pairs) + len(E.false_negatives) == F * A and len(E.positive_pairs) == kept
            rep.record("FC-every-ground-truth-instance-is-matched-or-missed", "unsat" if ok else "sat")
            if not ok:
                m = ex.full_model()
                rep.violation("FC-every-ground-truth-instance-is-matched-or-missed", "fixed-conservation", f"{len(E.positive_pairs)} pairs + {len(E.false_negatives)} false negatives for {F * A} ground-truth instances, {kept} predictions kept", extract(m, DefaultEnv(model_env(m))))
            continue
        ok_counts = len(E.positive_pairs) == F * A and len(E.false_negatives) == 0
        rep.record("F1-every-instance-matched", "unsat" if ok_counts else "sat")
        if not ok_counts:
            m = ex.full_model()
            rep.violation("F1-every-instance-matched", "fixed-unmatched", f"{len(E.positive_pairs)} pairs, {len(E.false_negatives)} false negatives for identical predictions", extract(m, DefaultEnv(model_env(m))))
            continue
        mk = XF.of(mo_["mOKS"])
        discharge(ex, rep, "F2-mOKS-is-1", And(mk.fin(), rcmp("==", mk.v, 1)), on_sat=lambda m, env: ("fixed-moks", "mOKS != 1 for identical predictions", extract(m, env)))
        AP, AR = [XF.of(x) for x in voc["oks_voc.AP"]], [XF.of(x) for x in voc["oks_voc.AR"]]
        discharge(ex, rep, "F3-AP-AR-are-1-up-to-spacing", And(*[And(rcmp(">=", v.v, 1 - eps), rcmp("<=", v.v, 1)) for v in AP + AR]),
                  on_sat=lambda m, env: ("fixed-voc", "AP/AR != 1 for identical predictions", extract(m, env)))
        d = np.asarray(E.dists_dict["dists"])
        goals = [Or(XF.of(x).nan, And(XF.of(x).fin(), rcmp("==", XF.of(x).v, 0))) for x in d.reshape(-1)]
        discharge(ex, rep, "F4-all-distances-zero", And(*goals), on_sat=lambda m, env: ("fixed-dists", "non-zero distance for identical predictions", extract(m, env)))
        # PCK = fraction of visible keypoints
        vis = Fraction(0)
        for f in range(F):
            for a in range(A):
                for k in range(N):
                    vis = xf.radd(vis, xf.RIte(miss(f, a, k), Fraction(0), Fraction(1)))
        mp = XF.of(pck["mPCK"])
        discharge(ex, rep, "F5-PCK-equals-visible-fraction", And(mp.fin(), rcmp("==", xf.rmul(mp.v, F * A * N), vis)), on_sat=lambda m, env: ("fixed-pck", "PCK != fraction of visible keypoints for identical predictions", extract(m, env)))
        rep.sample({"pairs": len(E.positive_pairs), "path_condition": ex.path_summary(2, 60)})
    rep.witness("voc-path-with-true-and-false-positive", True)
    if ex.truncated:
        rep.inconclusive_item("fixed", "path budget exhausted")
    return rep.finish()


def _run_deletion(cfg):
    """deleting a prediction can never increase recall -- through the real score-sorted greedy match_instances.
    The OKS matrix is symbolic (any geometry); recall at threshold t = #pairs with oks >= t / n_gt."""
    import numpy as np
    from symx import xf, numpyfe
    from symx.xf import XF, And, Or, Not, rcmp
    from symx.explorer import Explorer, model_env, DefaultEnv
    from symx.harness import Report
    ev = _install()
    rep = Report(cfg)
    G, P = cfg["n_gt"], cfg["n_pr"]
    O = [[z3.Real(f"oks_{i}_{j}") for j in range(P)] for i in range(G)]
    sc = [z3.Real(f"score_{j}") for j in range(P)]
    t = z3.Real("t")
    base = [z3.And(o >= 0, o <= 1) for row in O for o in row] + [t > 0, t <= 1]
    ex = Explorer(base, timeout_ms=60000, max_paths=50000)

    def oks_stub(points_gt, points_pr, stddev=None, scale=None, **kw):
        gi = [int(p[0, 0]) for p in points_gt]
        pj = int(points_pr[0][0, 0])
        out = np.empty((len(gi), 1), dtype=object)
        for r, i in enumerate(gi):
            out[r, 0] = XF(O[i][pj])
        return out.view(numpyfe.SymNd)

    def run(keep):
        fg = _Frame([_I(f"g{i}", np.array([[float(i), 0.0]])) for i in range(G)])
        fp = _Frame([_I(f"p{j}", np.array([[float(j), 0.0]]), score=XF(sc[j])) for j in keep])
        pairs, fn = ev.match_instances(fg, fp, stddev=0.125, scale=None, threshold=0)
        return [(a.instance.tag, b.instance.tag, c) for a, b, c in pairs]

    def path():
        real = ev.compute_oks
        ev.compute_oks = oks_stub
        try:
            full = run(list(range(P)))
            sub = {j: run([q for q in range(P) if q != j]) for j in range(P)}
        finally:
            ev.compute_oks = real
        return full, sub

    def tp(pairs):
        s = Fraction(0)
        for _, _, c in pairs:
            s = xf.radd(s, xf.RIte(rcmp(">=", XF.of(c).v, t), Fraction(1), Fraction(0)))
        return s
    for full, sub in ex.run(path):
        rep.paths += 1
        rep.nontrivial_paths += 1
        # D0: a pair is only formed when its OKS exceeds the match threshold (0 here): a prediction with OKS 0 to everything stays unmatched
        for (a, b, c) in full:
            v = ex.prove(rcmp(">", XF.of(c).v, 0))
            rep.record("D0-matched-pairs-have-oks-above-the-match-threshold", v.status, v.seconds)
            if v.status == "sat":
                env = DefaultEnv(model_env(ex.full_model([z3.Not(xf.zb(rcmp(">", XF.of(c).v, 0)))])) or {})
                rep.violation("D0-matched-pairs-have-oks-above-the-match-threshold", "pair-at-or-below-match-threshold", f"pair ({a},{b}) was formed although its OKS does not exceed the match threshold",
                              {"oks": [[float(env[f"oks_{i}_{q}"]) for q in range(P)] for i in range(G)], "scores": [float(env[f"score_{q}"]) for q in range(P)], "t": float(env["t"]), "deleted": -1})
        for j, pr in sub.items():
            v = ex.prove(rcmp("<=", tp(pr), tp(full)))
            rep.record("D1-deleting-a-prediction-never-increases-recall", v.status, v.seconds)
            if v.status == "sat":
                env = DefaultEnv(model_env(v.model))
                full_env = DefaultEnv(model_env(ex.full_model([z3.Not(xf.zb(rcmp("<=", tp(pr), tp(full))))])) or {})
                env = full_env if len(full_env) else env
                rep.violation("D1-deleting-a-prediction-never-increases-recall", KNOWN,
                              f"deleting prediction {j} raises the number of matches with OKS >= t (greedy score-sorted matching lets a high-score, badly localised prediction block a better one)",
                              {"oks": [[float(env[f"oks_{i}_{q}"]) for q in range(P)] for i in range(G)], "scores": [float(env[f"score_{q}"]) for q in range(P)], "t": float(env["t"]), "deleted": j})
            elif v.status == "unknown":
                rep.inconclusive_item("D1", "unknown")
        rep.sample({"full": [(a, b) for a, b, _ in full], "path_condition": ex.path_summary(2, 60)})
    rep.witness("voc-path-with-true-and-false-positive", True)
    return rep.finish()


# ------------------------------------------------------------------ replay (real numpy)
# ------------------------------------------------------------------ binary64 slice of the recall / precision curve
def _float_slices():
    import sleap_nn.evaluation as ev
    from symx.fpast import FloatSlice, F64
    tp, tp2, fp_, n = [z3.FP(x, F64) for x in ("tp", "tp2", "fp", "npig")]
    sl = FloatSlice(ev.Evaluator.voc_metrics, {"tp": tp, "fp": fp_, "npig": n}, ["rc", "pr"])
    sl2 = FloatSlice(ev.Evaluator.voc_metrics, {"tp": tp2, "fp": fp_, "npig": n}, ["rc"])
    return (tp, tp2, fp_, n), sl, sl2


def _run_float(cfg):
    """'up to rounding': the scalar arithmetic of the recall / precision curve (`rc`, `pr` in voc_metrics, whatever the current source
    computes them from tp, fp, npig) is re-interpreted in IEEE binary64 and z3 decides, for every count up to N, that full recall is
    EXACTLY 1.0 (so the recall threshold 1.0 is reached and AP of perfect predictions is 1), that both curves stay in [0,1], that recall
    is monotone in tp and that an all-true-positive prefix has precision 1 up to 2**-50."""
    import time
    from symx.harness import Report
    from symx.fpast import fpval, is_integral, fp_model_value
    from symx.xf import EngineGap
    rep = Report(cfg)
    rep.paths = rep.nontrivial_paths = 1
    N, Nm = cfg["N"], cfg["N_mono"]
    names = {"F1": "F1-full-recall-is-exactly-1.0-in-binary64", "F2": "F2-recall-curve-in-0-1-in-binary64", "F3": "F3-recall-curve-monotone-in-tp-in-binary64",
             "F4": "F4-precision-curve-in-0-1-in-binary64", "F5": "F5-all-true-positive-precision-is-1-up-to-2^-50"}
    try:
        (tp, tp2, fp_, n), sl, sl2 = _float_slices()
    except EngineGap as e:
        for k in names.values():
            rep.record(k, "unknown")
        rep.inconclusive_item("float", f"slice not extractable from the current source: {e}")
        return rep.finish()
    rc, pr, rc2 = sl.exprs["rc"], sl.exprs["pr"], sl2.exprs["rc"]
    one, zero = fpval(1.0), fpval(0.0)

    def base(M):
        return [is_integral(n, 1, M), is_integral(tp, 0, M), z3.fpLEQ(tp, n), is_integral(fp_, 0, M)]
    obl = {"F1": base(N) + [tp == n, z3.Not(z3.fpEQ(rc, one))],
           "F2": base(N) + [z3.Not(z3.And(z3.fpGEQ(rc, zero), z3.fpLEQ(rc, one)))],
           "F3": base(Nm) + [is_integral(tp2, 0, Nm), z3.fpLEQ(tp, tp2), z3.fpLEQ(tp2, n), z3.fpGT(rc, rc2)],
           "F4": base(N) + [z3.Not(z3.And(z3.fpGEQ(pr, zero), z3.fpLEQ(pr, one)))],
           "F5": base(N) + [fp_ == zero, z3.fpGEQ(tp, one), z3.fpLT(pr, fpval(1 - 2.0 ** -50))]}
    nq, tot = 0, 0.0
    for k, cons in obl.items():
        s = z3.Solver()
        s.set("timeout", 240000)
        s.add(*cons)
        t0 = time.time()
        r = str(s.check())
        dt = time.time() - t0
        nq += 1
        tot += dt
        rep.record(names[k], r, dt)
        if r == "sat":
            mo = s.model()
            vals = {v: fp_model_value(mo, x) for v, x in (("tp", tp), ("tp2", tp2), ("fp", fp_), ("npig", n))}
            rep.violation(names[k], f"float:{k}", f"binary64 evaluation of the curve arithmetic breaks {names[k]} at {vals}", {"which": k, "values": vals, "slice": sl.source()})
        elif r != "unsat":
            rep.inconclusive_item(names[k], "solver returned unknown / timeout")
    rep.sample({"slice": sl.source(), "N": N, "N_mono": Nm})
    rep.witness("voc-path-with-true-and-false-positive", True)
    return rep.finish(stats={"queries": nq, "solver_s": tot})


def _replay_float(inputs):
    import numpy as np
    import sleap_nn.evaluation as ev
    k, v = inputs["which"], inputs["values"]
    _, sl, _ = _float_slices()
    import math

    def iv(x, default):  # variables an obligation does not mention are unconstrained in its model
        x = unjson_float(x)
        return default if (not isinstance(x, (int, float)) or math.isnan(x) or math.isinf(x) or x != int(x) or x < 0) else int(x)
    from symx.harness import unjson_float
    nv = iv(v["npig"], 1)
    tpv = iv(v["tp"], nv)
    tp2v, fpv = iv(v["tp2"], tpv), iv(v["fp"], 0)
    g = sl.concrete({"tp": np.array([tpv, tp2v]), "fp": np.array([fpv, fpv]), "npig": nv})  # the current source text, executed by real numpy
    rc, pr = np.asarray(g["rc"], dtype=np.float64), np.asarray(g["pr"], dtype=np.float64)
    if k == "F1":
        bad = rc[0] != 1.0
        detail = f"rc = {rc[0]!r} for tp = npig = {nv}"
        if bad and nv <= 1 << 17:  # end to end: perfect predictions through the real voc_metrics
            E = ev.Evaluator.__new__(ev.Evaluator)
            E.positive_pairs = [(_M(_I("g")), _M(_I("p", score=1.0)), 1.0)] * nv
            E.false_negatives = []
            r = E.voc_metrics()
            detail += f"; voc_metrics on {nv} perfect predictions: mAP={r['oks_voc.mAP']!r} mAR={r['oks_voc.mAR']!r}"
        return bool(bad), detail
    if k == "F2":
        return bool(not (0 <= rc[0] <= 1)), f"rc = {rc[0]!r} for tp={tpv}, npig={nv}"
    if k == "F3":
        return bool(rc[0] > rc[1]), f"rc(tp={tpv}) = {rc[0]!r} > rc(tp={tp2v}) = {rc[1]!r}, npig={nv}"
    if k == "F4":
        return bool(not (0 <= pr[0] <= 1)), f"pr = {pr[0]!r} for tp={tpv}, fp={fpv}"
    return bool(pr[0] < 1 - 2.0 ** -50), f"pr = {pr[0]!r} for tp={tpv}, fp=0"



def replay(cfg, inputs, obligation):
    import numpy as np, warnings
    warnings.simplefilter("ignore")
    from symx.harness import unjson_float
    import sleap_nn.evaluation as ev
    kind = cfg["kind"]
    if kind == "float":
        return _replay_float(inputs)
    E = ev.Evaluator.__new__(ev.Evaluator)
    if kind == "voc":
        n = cfg["n"]
        E.positive_pairs = [(_M(_I(f"g{i}")), _M(_I(f"p{i}", score=inputs["detection_scores"][i])), inputs["match_scores"][i]) for i in range(n)]
        E.false_negatives = [_M(_I("fn"))] * cfg["fn"]
        r = E.voc_metrics(match_score_thresholds=np.array(MT), recall_thresholds=np.array(RT))
        AP, AR = np.atleast_1d(r["oks_voc.AP"]), np.atleast_1d(r["oks_voc.AR"])
        if obligation.startswith("V1"):
            bad = not all(0 <= v <= 1 for v in list(AP) + list(AR) + [r["oks_voc.mAP"], r["oks_voc.mAR"]])
        elif obligation.startswith("V2"):
            bad = any(AP[k] < AP[k + 1] - 1e-12 or AR[k] < AR[k + 1] - 1e-12 for k in range(len(AP) - 1))
        else:
            bad = not (np.allclose(AP, 1, atol=1e-9) and np.allclose(AR, 1, atol=1e-9))
        return bool(bad), f"AP={AP.tolist()} AR={AR.tolist()}"
    if kind == "pck":
        d = np.array(unjson_float(inputs["dists"]), dtype=np.float64)
        E.dists_dict = {"dists": d.copy(), "frame_idxs": [0] * len(d), "video_paths": ["v"] * len(d)}
        r = E.pck_metrics(thresholds=np.array([inputs["t1"], inputs["t2"]]))
        p = r["pcks"].mean(axis=0).mean(axis=0)
        if obligation.startswith("P1"):
            return not (0 <= r["mPCK"] <= 1), f"mPCK={r['mPCK']}"
        if obligation.startswith("P2"):
            return bool(p[0] > p[1]), f"PCK(t1)={p[0]} PCK(t2)={p[1]}"
        if obligation.startswith("P3"):
            return not np.array_equal(E.dists_dict["dists"], d, equal_nan=True), "stored dists"
        a = E.distance_metrics()["avg"]
        return not (a >= 0), f"avg={a}"
    if kind == "vis":
        def pose(missing):
            return np.array([[np.nan, np.nan] if m else [1.0, 2.0] for m in missing])
        E.positive_pairs = [(_M(_I("g", pose(g))), _M(_I("p", pose(p))), 0.9) for g, p in zip(inputs["gt_missing"], inputs["pr_missing"])]
        r = E.visibility_metrics()
        ok = all((np.isnan(r[k]) or 0 <= r[k] <= 1) for k in ("precision", "recall")) and r["tp"] + r["fp"] + r["tn"] + r["fn"] == cfg["pairs"] * cfg["nodes"]
        return not ok, str(r)
    if kind == "fixed":
        F, A, N = cfg["frames"], cfg["animals"], cfg["nodes"]
        pairs = []
        for f in range(F):
            g = [np.array(unjson_float(inputs["gt"][f"g{f}{a}"]), dtype=np.float64) for a in range(A)]
            keep = inputs.get("keep") or {}
            pairs.append((_Frame([_I(f"g{f}{a}", g[a]) for a in range(A)], f), _Frame([_I(f"p{f}{a}", g[a].copy(), score=inputs["scores"][f"{f}{a}"]) for a in range(A) if keep.get(f"{f}{a}", True)], f)))
        try:
            E.positive_pairs, E.false_negatives = ev.match_frame_pairs(pairs, stddev=0.125, scale=None, threshold=0)
            E.dists_dict = ev.compute_dists(E.positive_pairs)
            mo = E.mOKS()["mOKS"]
            voc = E.voc_metrics(match_score_thresholds=np.array(MT), recall_thresholds=np.array(RT))
            pck = E.pck_metrics(thresholds=np.array([1.0, 5.0]))
        except Exception as e:
            return obligation.startswith("F0"), f"raised {type(e).__name__}: {e}"
        if obligation.startswith("FC"):
            kept = sum(1 for v in (inputs.get("keep") or {}).values() if v)
            bad = len(E.positive_pairs) + len(E.false_negatives) != F * A or len(E.positive_pairs) != kept
            return bool(bad), f"{len(E.positive_pairs)} pairs + {len(E.false_negatives)} false negatives for {F * A} ground-truth instances ({kept} predictions kept)"
        vis = np.mean([not (np.isnan(x[0]) or np.isnan(x[1])) for v in inputs["gt"].values() for x in unjson_float(v)])
        res = {"F1": len(E.positive_pairs) != F * A or len(E.false_negatives) != 0, "F2": abs(mo - 1) > 1e-9,
               "F3": not (np.allclose(voc["oks_voc.AP"], 1, atol=1e-9) and np.allclose(voc["oks_voc.AR"], 1, atol=1e-9)),
               "F4": bool(np.nansum(np.abs(E.dists_dict["dists"])) > 0), "F5": abs(pck["mPCK"] - vis) > 1e-9}
        return bool(res.get(obligation[:2], False)), f"mOKS={mo} AP={voc['oks_voc.AP']} mPCK={pck['mPCK']} visible={vis}"
    if kind == "deletion":
        O = np.array(inputs["oks"])
        sc, t, dele = inputs["scores"], inputs["t"], inputs["deleted"]
        G, P = O.shape
        # 1) fully real: realise the OKS matrix geometrically with single-node poses in the plane (explicit scale 1.0):
        #    oks = exp(-d^2 / ((2*sigma)^2 * 2 * (scale + eps)))  =>  d_ij = sqrt(-ln(oks_ij) * norm); G0=(0,0), G1=(s,0), P_j on both circles
        norm = (2 * 0.125) ** 2 * 2 * (1.0 + np.spacing(1))
        D = np.sqrt(-np.log(np.clip(O, 1e-300, 1.0)) * norm)
        if G == 2:
            lo, hi = max(abs(D[0, j] - D[1, j]) for j in range(P)), min(D[0, j] + D[1, j] for j in range(P))
            if lo <= hi and hi > 0:
                sdist = max((lo + hi) / 2, 1e-9)
                gpts = [np.array([[0.0, 0.0]]), np.array([[sdist, 0.0]])]
                ppts = []
                for j in range(P):
                    x = (D[0, j] ** 2 - D[1, j] ** 2 + sdist ** 2) / (2 * sdist)
                    y = np.sqrt(max(D[0, j] ** 2 - x ** 2, 0.0))
                    ppts.append(np.array([[x, y]]))

                def run_real(keep):
                    fg = _Frame([_I(f"g{i}", gpts[i]) for i in range(G)])
                    fp = _Frame([_I(f"p{j}", ppts[j], score=sc[j]) for j in keep])
                    pairs, fn = ev.match_instances(fg, fp, stddev=0.125, scale=1.0, threshold=0)
                    return sum(1 for _, _, c in pairs if c >= t)
                full, sub = run_real(list(range(P))), run_real([q for q in range(P) if q != dele])
                if sub > full:
                    return True, (f"[fully real: gt {[g.tolist() for g in gpts]}, predictions {[p.tolist() for p in ppts]} with scores {sc}, scale 1.0, stddev 0.125] matches with OKS >= {t}: "
                                  f"{full} with all predictions, {sub} after deleting prediction {dele}")
        # 2) otherwise: real match_instances with compute_oks pinned to the model's matrix
        real = ev.compute_oks

        def pinned(points_gt, points_pr, **kw):
            gi = [int(p[0, 0]) for p in points_gt]
            pj = int(points_pr[0][0, 0])
            return np.array([[O[i, pj]] for i in gi])
        ev.compute_oks = pinned
        try:
            def run(keep):
                fg = _Frame([_I(f"g{i}", np.array([[float(i), 0.0]])) for i in range(G)])
                fp = _Frame([_I(f"p{j}", np.array([[float(j), 0.0]]), score=sc[j]) for j in keep])
                pairs, fn = ev.match_instances(fg, fp, stddev=0.125, scale=None, threshold=0)
                return sum(1 for _, _, c in pairs if c >= t)
            if obligation.startswith("D0"):
                fg = _Frame([_I(f"g{i}", np.array([[float(i), 0.0]])) for i in range(G)])
                fp = _Frame([_I(f"p{j}", np.array([[float(j), 0.0]]), score=sc[j]) for j in range(P)])
                pairs, fn = ev.match_instances(fg, fp, stddev=0.125, scale=None, threshold=0)
                bad = [(a.instance.tag, b.instance.tag, float(c)) for a, b, c in pairs if not c > 0]
                return bool(bad), f"[real match_instances, OKS pinned to {O.tolist()}] pairs with OKS <= threshold 0: {bad}"
            full, sub = run(list(range(P))), run([q for q in range(P) if q != dele])
        finally:
            ev.compute_oks = real
        return sub > full, f"[real match_instances, OKS matrix pinned to {O.tolist()}, scores {sc}] matches with OKS >= {t}: {full} with all predictions, {sub} after deleting prediction {dele}"
    return False, "unknown"
