"""C01 -- confidence-map training targets faithfully encode the labelled keypoints.

The real generate_confmaps / generate_multiconfmaps (and make_confmaps, make_multi_confmaps, make_grid_vectors
below them) run on symbolic keypoints (Real coordinate + independent NaN flag per coordinate); obligations are
discharged by z3 per configuration (variant x samples x animals x nodes x image size x stride x sigma)."""
from __future__ import annotations
import itertools, math
from fractions import Fraction
import z3

ID = "C01"
FUNCTIONS = [("sleap_nn.data.confidence_maps", "generate_confmaps"), ("sleap_nn.data.confidence_maps", "generate_multiconfmaps"),
             ("sleap_nn.data.confidence_maps", "make_confmaps"), ("sleap_nn.data.confidence_maps", "make_multi_confmaps"),
             ("sleap_nn.data.utils", "make_grid_vectors")]
EXPLANATION = ("Bounded symbolic execution of the real confidence-map generators over symbolic keypoints (every sub-pixel position inside, on "
               "and outside the image, every NaN pattern) through a __torch_dispatch__ term front end; per configuration z3 decides: O1 shape, "
               "O2 every cell equals the reference Gaussian (max over the first num_instances animals; 0 for a missing point), O3 no NaN/inf and "
               "range [0,1], O4 a grid cell nearest a visible keypoint dominates that keypoint's bump everywhere, O5 all-missing channel is all zero.")
ASSUMPTIONS = ["finite arithmetic is exact real arithmetic (float32 rounding outside the claim); IEEE special values (NaN, +-inf) are modelled exactly",
               "exp is an uninterpreted function with instantiated positivity / monotonicity / exp(0)=1 axioms (O2, O4) or a fresh bounded real per application (O3)",
               "keypoint coordinates are finite reals or NaN (infinite coordinates outside the claim)",
               "image sides are multiples of the output stride"]
STUBS = ["none (all torch ops are executed by the symbolic front end; no sleap-nn function is replaced)"]
OUTSIDE = ["grids larger than 8x8 cells, more than 3 animals / 2 nodes / 2 samples", "float32 rounding", "DataPipe wrappers (covered by C18)"]
REQUIRED_WITNESSES = ["visible-and-missing-point-model"]


def bounds(tier):
    return {"samples": "<=2", "animals": "<=2 (thorough 3)", "nodes": "<=2", "grid_cells": "<=4x4 (thorough 8x8)", "stride": [1, 2, 4],
            "sigma": [0.5, 1.5, 3.0] + (["symbolic > 0 (O2 only)"] if tier == "thorough" else []), "coordinates": "unbounded reals + NaN flag per coordinate"}


def configs(tier, seed):
    out = []
    base = [
        ("single", 1, 1, 2, 4, 4, 1, 1.5), ("single", 2, 1, 1, 4, 8, 2, 0.5), ("single", 1, 1, 2, 8, 4, 2, 3.0), ("single", 1, 1, 1, 8, 8, 4, 1.5),
        ("multi", 1, 2, 2, 4, 4, 1, 1.5), ("multi", 1, 2, 1, 8, 8, 2, 0.5), ("multi", 2, 2, 1, 4, 8, 2, 1.5), ("multi", 1, 2, 2, 8, 8, 4, 3.0),
        ("centroid", 1, 2, 1, 4, 4, 1, 1.5), ("centroid", 1, 2, 1, 8, 8, 2, 3.0), ("centroid", 2, 1, 1, 8, 4, 2, 0.5),
    ]
    if tier == "thorough":
        base += [("single", 1, 1, 2, 8, 8, 1, 1.5), ("single", 2, 1, 2, 6, 6, 1, 0.5), ("single", 1, 1, 2, 16, 16, 2, 3.0), ("single", 1, 1, 1, 16, 8, 4, 0.5),
                 ("multi", 1, 3, 1, 6, 6, 1, 1.5), ("multi", 1, 3, 2, 8, 8, 2, 0.5), ("multi", 2, 2, 2, 8, 8, 2, 1.5), ("multi", 1, 2, 1, 16, 16, 4, 0.5),
                 ("centroid", 1, 3, 1, 6, 6, 1, 0.5), ("centroid", 1, 3, 1, 16, 16, 4, 1.5), ("centroid", 2, 2, 1, 8, 8, 2, 1.5),
                 ("single", 1, 1, 1, 16, 16, 2, 1.5), ("multi", 1, 2, 2, 16, 16, 2, 1.5)]
    for (variant, S, A, N, H, W, stride, sigma) in base:
        nis = [A] if variant == "single" else list(range(0, A + 1))
        for ni in nis:
            for mode in ("uf", "fresh"):
                out.append(dict(variant=variant, S=S, A=A, N=N, H=H, W=W, stride=stride, sigma=sigma, num_instances=ni, mode=mode))
    if tier == "thorough":
        for variant in ("single", "multi"):
            out.append(dict(variant=variant, S=1, A=1 if variant == "single" else 2, N=1, H=4, W=4, stride=2, sigma="sym", num_instances=2, mode="uf"))
    # generate_confmaps on the documented 4-D layout (n_samples, n_instances, n_nodes, 2): one channel per (instance, node)
    for mode in ("uf", "fresh"):
        out.append(dict(variant="single", S=1, A=2, N=1, H=4, W=4, stride=1, sigma=1.5, num_instances=2, mode=mode, four_d=True))
        if tier == "thorough":
            out.append(dict(variant="single", S=2, A=2, N=2, H=4, W=4, stride=2, sigma=1.5, num_instances=2, mode=mode, four_d=True))
    out.append(dict(variant="validate", seed=seed))
    return out


def _shape(cfg):
    if cfg["variant"] == "single":
        return (cfg["S"], cfg["A"], cfg["N"], 2) if cfg.get("four_d") else (cfg["S"], cfg["N"], 2)
    if cfg["variant"] == "centroid":
        return (cfg["S"], cfg["A"], 2)
    return (cfg["S"], cfg["A"], cfg["N"], 2)


def _call(cfg, pts, sigma):
    import torch
    from sleap_nn.data.confidence_maps import generate_confmaps, generate_multiconfmaps
    hw = (cfg["H"], cfg["W"])
    # history: the result must not depend on earlier calls.  Each call is preceded by one with a DIFFERENT geometry that yields the same grid
    # shape (image and stride doubled, other sigma, fixed keypoints) -- anything remembered from it (a cache keyed too coarsely) shows below.
    decoy = torch.full(tuple(pts.shape), 1.0)
    if cfg["variant"] == "single":
        generate_confmaps(decoy, (2 * cfg["H"], 2 * cfg["W"]), 3.25, 2 * cfg["stride"])
    else:
        generate_multiconfmaps(decoy, (2 * cfg["H"], 2 * cfg["W"]), cfg["num_instances"], 3.25, 2 * cfg["stride"], is_centroids=cfg["variant"] == "centroid")
    if cfg["variant"] == "single":
        return generate_confmaps(pts, hw, sigma, cfg["stride"])
    return generate_multiconfmaps(pts, hw, cfg["num_instances"], sigma, cfg["stride"], is_centroids=cfg["variant"] == "centroid")


def _points_index(cfg):
    """(sample, channel) -> list of flat point indices (into the points tensor / 2) contributing to that channel."""
    S, A, N = cfg["S"], cfg["A"], cfg["N"]
    m = {}
    if cfg["variant"] == "single" and cfg.get("four_d"):
        for s in range(S):
            for a in range(A):
                for n in range(N):
                    m[(s, a * N + n)] = [(s * A + a) * N + n]
        return m, A * N
    if cfg["variant"] == "single":
        for s in range(S):
            for n in range(N):
                m[(s, n)] = [s * N + n]
        return m, N
    ni = cfg["num_instances"]
    if cfg["variant"] == "centroid":
        for s in range(S):
            m[(s, 0)] = [s * A + a for a in range(min(ni, A))]
        return m, 1
    for s in range(S):
        for n in range(N):
            m[(s, n)] = [(s * A + a) * N + n for a in range(min(ni, A))]
    return m, N


def run_config(cfg):
    if cfg["variant"] == "validate":
        return _validate(cfg)
    import torch
    from symx import torchfe as T, xf
    from symx.xf import XF, Or, And, Not, R, Q, rcmp
    from symx.explorer import Explorer
    from symx.harness import Report, discharge, discharge_all
    T.install_patches()
    rep = Report(cfg)
    sym_sigma = cfg["sigma"] == "sym"
    base = []
    if sym_sigma:
        sg = z3.Real("sigma")
        base.append(sg > 0)
        sigma = XF(sg)
    else:
        sigma = cfg["sigma"]
    ex = Explorer(base, timeout_ms=120000, exp_mode=cfg["mode"])
    shape = _shape(cfg)
    stride = cfg["stride"]
    gh, gw = cfg["H"] // stride, cfg["W"] // stride

    def path():
        with T.SymMode():
            pts = T.sym_float_tensor("p", shape, may_nan=True)
            out = _call(cfg, pts, sigma)
        return pts, out

    def extract(model, env):
        n = 1
        for d in shape:
            n *= d
        flat = [float("nan") if env[f"p_{i}#nan"] else float(env[f"p_{i}"]) for i in range(n)]
        inp = {"points_flat": flat, "shape": list(shape)}
        if sym_sigma:
            inp["sigma"] = float(env["sigma"])
        return inp

    for pts, out in ex.run(path):
        rep.paths += 1
        rep.nontrivial_paths += 1
        pv = pts.values()
        chmap, C = _points_index(cfg)
        # O1 shape
        ok_shape = tuple(out.shape) == (cfg["S"], C, gh, gw)
        rep.record("O1-shape", "unsat" if ok_shape else "sat")
        if not ok_shape:
            rep.violation("O1-shape", f"O1-shape:{cfg['variant']}", f"shape {tuple(out.shape)} != {(cfg['S'], C, gh, gw)}",
                          {"points_flat": [0.0] * len(pv), "shape": list(shape)})
            continue
        ov = out.values()
        den = xf.rmul(2, xf.rmul(xf.rmul(sigma.v if sym_sigma else Fraction(sigma), stride), xf.rmul(sigma.v if sym_sigma else Fraction(sigma), stride)))

        def cell(s, c, i, j):
            return ov[((s * C + c) * gh + i) * gw + j]

        def arg(p, i, j):
            x, y = pv[2 * p], pv[2 * p + 1]
            dx = xf.rsub(j * stride, x.v)
            dy = xf.rsub(i * stride, y.v)
            return xf.rneg(xf.rdiv(xf.radd(xf.rmul(dx, dx), xf.rmul(dy, dy)), den))

        def missing(p):
            return Or(pv[2 * p].nan, pv[2 * p + 1].nan)
        sig_base = f"{cfg['variant']}"
        if cfg["mode"] == "fresh":
            # O3: never NaN / inf, always in [0,1]
            goals = [Not(Or(v.nan, v.pinf, v.ninf, rcmp("<", v.v, 0), rcmp(">", v.v, 1))) for v in ov]
            discharge_all(ex, rep, "O3-range-nonan", goals,
                          on_sat=lambda m, env: (f"O3-range:{sig_base}", "an output value is NaN/inf or outside [0,1]", extract(m, env)))
            # O5: channel whose contributing points are all missing is exactly zero
            goals = []
            for (s, c), plist in chmap.items():
                allmiss = And(*[missing(p) for p in plist])
                zero = And(*[And(cell(s, c, i, j).fin(), rcmp("==", cell(s, c, i, j).v, 0)) for i in range(gh) for j in range(gw)])
                goals.append(xf.Implies(allmiss, zero))
            discharge_all(ex, rep, "O5-missing-is-zero", goals,
                      on_sat=lambda m, env: (f"O5-missing:{sig_base}", "an all-missing channel is not all zero", extract(m, env)))
            # vacuity witness: a model with one visible and one missing point exists (when there are >= 2 points)
            if len(pv) >= 4:
                w = ex.query([xf.zb(missing(0)), xf.zb(Not(missing(1)))])
                rep.witness("visible-and-missing-point-model", w.status == "sat")
            else:
                rep.witness("visible-and-missing-point-model", True)
            rep.sample({"path_condition": ex.path_summary(), "out_shape": list(out.shape), "cell_0": str(ov[0])[:300]})
            continue
        # ---- uf mode
        # O2: every cell equals the reference
        goals = []
        for (s, c), plist in chmap.items():
            for i in range(gh):
                for j in range(gw):
                    v = cell(s, c, i, j)
                    spec = Fraction(0)  # max over animals of If(missing, 0, EXP(arg)); empty => 0
                    for p in plist:
                        e = xf.RIte(missing(p), Fraction(0), xf.EXP(R(arg(p, i, j))))
                        spec = xf.RIte(rcmp(">=", spec, e), spec, e)
                    goals.append(And(v.fin(), rcmp("==", v.v, spec)))
        discharge_all(ex, rep, "O2-equals-reference-gaussian", goals,
                  on_sat=lambda m, env: (f"O2-spec:{sig_base}", "a cell differs from exp(-d^2/2(sigma*stride)^2) (max over animals; 0 if missing)", extract(m, env)))
        # O4: a nearest cell dominates the bump of a visible keypoint
        if not sym_sigma:
            goals = []
            for (s, c), plist in chmap.items():
                for p in plist:
                    x, y = pv[2 * p], pv[2 * p + 1]
                    cells = [(i, j) for i in range(gh) for j in range(gw)]

                    def d2(i, j):
                        dx = xf.rsub(j * stride, x.v)
                        dy = xf.rsub(i * stride, y.v)
                        return xf.radd(xf.rmul(dx, dx), xf.rmul(dy, dy))
                    for (ni, nj) in cells:
                        near = And(*[rcmp("<=", d2(ni, nj), d2(i, j)) for (i, j) in cells if (i, j) != (ni, nj)])
                        dom = And(*[rcmp(">=", cell(s, c, ni, nj).v, xf.EXP(R(arg(p, i, j)))) for (i, j) in cells])
                        goals.append(xf.Implies(And(Not(missing(p)), near), dom))
            discharge_all(ex, rep, "O4-largest-at-nearest-cell", goals,
                      on_sat=lambda m, env: (f"O4-nearest:{sig_base}", "a cell nearest a visible keypoint is not the largest of that keypoint's bump", extract(m, env)))
        rep.witness("visible-and-missing-point-model", True)
        rep.sample({"path_condition": ex.path_summary(), "out_shape": list(out.shape), "cell_0": str(ov[0])[:300]})
    rep.infeasible_paths = ex.infeasible
    return rep.finish(extra={"ops": sorted(T.OPS_USED)})


# ------------------------------------------------------------------ differential validation of the front end on seeded concrete inputs
def _validate(cfg):
    import torch
    from symx import torchfe as T
    from symx.harness import Report, rng
    from symx.validate import differential
    T.install_patches()
    rep = Report(cfg)
    r = rng(cfg["seed"], "c01")
    from sleap_nn.data.confidence_maps import generate_confmaps, generate_multiconfmaps
    for k in range(6):
        S, A, N = r.choice([1, 2]), r.choice([1, 2, 3]), r.choice([1, 2])
        H, W, stride, sigma = r.choice([4, 8]), r.choice([4, 8]), r.choice([1, 2, 4]), r.choice([0.5, 1.5, 3.0])
        pts = torch.tensor([[r.uniform(-3, W + 3), r.uniform(-3, H + 3)] if r.random() > 0.25 else [float("nan"), r.uniform(0, H)] for _ in range(S * A * N)],
                           dtype=torch.float32).reshape(S, A, N, 2)
        ni = r.randint(0, A)
        ok1, d1 = differential(lambda p: generate_multiconfmaps(p, (H, W), ni, sigma, stride), [pts])
        ok2, d2 = differential(lambda p: generate_confmaps(p[:, 0], (H, W), sigma, stride), [pts])
        rep.paths += 2
        rep.record("V-front-end-agrees-with-real-torch", "unsat" if ok1 else "sat")
        rep.record("V-front-end-agrees-with-real-torch", "unsat" if ok2 else "sat")
        if not (ok1 and ok2):
            rep.inconclusive_item("V-front-end-agrees-with-real-torch", f"symbolic front end disagrees with real torch: {d1} {d2}")
    rep.nontrivial_paths = rep.paths
    rep.sample({"validated": "generate_confmaps / generate_multiconfmaps symbolic terms evaluated under seeded concrete inputs equal real torch output"})
    return rep.finish()


# ------------------------------------------------------------------ concrete replay (real torch, no shims)
def replay(cfg, inputs, obligation):
    import torch, numpy as np
    from symx.harness import unjson_float
    flat = unjson_float(inputs["points_flat"])
    shape = inputs["shape"]
    pts = torch.tensor(flat, dtype=torch.float32).reshape(shape)
    sigma = inputs.get("sigma", cfg["sigma"])
    out = _call(cfg, pts.clone(), sigma).numpy()
    stride = cfg["stride"]
    gh, gw = cfg["H"] // stride, cfg["W"] // stride
    chmap, C = _points_index(cfg)
    if out.shape != (cfg["S"], C, gh, gw):
        return True, f"shape {out.shape} != {(cfg['S'], C, gh, gw)}"
    if not np.isfinite(out).all() or out.min() < 0 or out.max() > 1:
        return True, f"output has NaN/inf or leaves [0,1]: min={out.min()} max={out.max()}"
    P = np.asarray(pts.numpy(), dtype=np.float64).reshape(-1, 2)
    den = 2 * (float(sigma) * stride) ** 2
    ii, jj = np.meshgrid(np.arange(gh) * stride, np.arange(gw) * stride, indexing="ij")
    for (s, c), plist in chmap.items():
        ref = np.zeros((gh, gw))
        for p in plist:
            x, y = P[p]
            if np.isnan(x) or np.isnan(y):
                continue
            bump = np.exp(-((jj - x) ** 2 + (ii - y) ** 2) / den)
            ref = np.maximum(ref, bump)
            d2 = (jj - x) ** 2 + (ii - y) ** 2
            near = np.unravel_index(np.argmin(d2), d2.shape)
            if out[s, c][near] + 1e-5 < bump.max():
                return True, f"channel {(s, c)}: cell nearest keypoint {(x, y)} has {out[s, c][near]} < bump max {bump.max()}"
        if not np.allclose(out[s, c], ref, rtol=1e-4, atol=1e-5):
            k = np.unravel_index(np.argmax(np.abs(out[s, c] - ref)), ref.shape)
            return True, f"channel {(s, c)} cell {k}: got {out[s, c][k]} expected {ref[k]} (points {P[plist].tolist()})"
    return False, "real output matches the reference Gaussian, range, shape and nearest-cell maximum"
