"""C13 -- frame readers deliver each frame once, in order, and always end the stream.
CrossHair (z3) over a deterministic scheduler that runs the two real thread bodies as coroutines (props/c13_sim.py)."""
from __future__ import annotations
import json

ID = "C13"
FUNCTIONS = [("sleap_nn.data.providers", "VideoReader.__init__"), ("sleap_nn.data.providers", "VideoReader.total_len"), ("sleap_nn.data.providers", "VideoReader.run"), ("sleap_nn.data.providers", "LabelsReader.run"), ("sleap_nn.data.providers", "LabelsReader.total_len"), ("sleap_nn.inference.predictors", "Predictor._predict_generator"),
             ("sleap_nn.data.normalization", "apply_normalization"), ("sleap_nn.data.resizing", "apply_sizematcher")]
EXPLANATION = ("The reader thread body (VideoReader.run / LabelsReader.run) and the consumer loop (Predictor._predict_generator) are regenerated as coroutines from "
               "their current source on every run; a deterministic scheduler interleaves them at every queue put/get, start/join and yield over a bounded-FIFO "
               "model of queue.Queue. CrossHair makes the range (start,end), the index of the failing read and the schedule (one boolean per point where both "
               "sides are enabled) symbolic and must confirm over all paths: delivered items = frames start..min(fail,end)-1 once each in order with their own "
               "index/size/content, then exactly one end marker; the records come out in that order; both sides terminate (no hang). The requested range reaches the "
               "thread body through the real VideoReader.__init__ on a video one frame longer than the requested end; a further contract confirms that the constructor "
               "resolves every given / omitted (start,end) on videos of 0..6 frames to exactly [start or 0, end or n).")
ASSUMPTIONS = ["queue.Queue is a bounded FIFO whose put blocks when full and get blocks when empty; preemption inside Queue methods is not modelled (CPython's lock is trusted)",
               "thread switches happen only at queue operations, start/join and generator yields (the only points where the two bodies interact)",
               "video decoding is a stub returning a 4x4 frame whose pixels encode the index, or raising at the failing index"]
STUBS = ["reader.video / reader.labels -> fake sources (index-coded 4x4 frames, failure injected at a symbolic index)", "frame_buffer -> bounded FIFO model", "inference_model -> identity on (frame_idx, first pixel, orig_size)", "loguru -> no-op", "threading.Thread.__init__ -> no-op while the real VideoReader.__init__ runs (the thread object is never started)"]
OUTSIDE = ["ranges longer than 3 (quick) / 4 (thorough) frames, queues > 2 (3), batches > 2 (3), more than 6 (10; 8 for the labels reader) contested scheduling points", "real video backends", "instances_key=True"]
REQUIRED_WITNESSES = ["reachability-twin-refuted"]
BUDGET_S = {"quick": 900, "thorough": 7200}


def bounds(tier):
    return {"start,end": "0..3" if tier == "quick" else "0..4", "queue capacity": [1, 2] if tier == "quick" else [1, 2, 3], "batch size": [1, 2] if tier == "quick" else [1, 2, 3],
            "failing read index": "-1 (none) .. end", "schedule points": 6 if tier == "quick" else "10 (video reader) / 8 (labels reader)", "readers": ["VideoReader", "LabelsReader"]}


def configs(tier, seed):
    out = []
    tag = "q" if tier == "quick" else "t"
    rng_ = (1, 2) if tier == "quick" else (1, 2, 3)
    for kind in ("video", "labels"):
        for Q in rng_:
            for B in rng_:
                out.append(dict(kind=kind, Q=Q, B=B, tag=tag, timeout=900 if tier == "quick" else 3000))
    out.append(dict(kind="range", timeout=300))
    out.append(dict(kind="twin"))
    return out


def run_config(cfg):
    from symx.harness import Report
    from symx import chrunner
    rep = Report(cfg)
    from props import c13_sim as S
    S.coroutines()
    if cfg["kind"] == "twin":
        # reachability / sensitivity twin on concrete schedules: the oracle must reject a run that loses the marker or a frame
        ok1, _ = S.verdict("video", 0, 3, 1, 2, -1, [True, False, True])
        ok2, _ = S.verdict("labels", 1, 3, 2, 1, 2, [False] * 4)
        status, out, delivered, _ = S.simulate("video", 0, 2, 1, 1, -1, [])
        broken = [d for d in delivered if d["frame_idx"] is not None]  # drop the marker: oracle must say no
        rep.paths = 3
        rep.nontrivial_paths = 3
        rep.witness("reachability-twin-refuted", ok1 and ok2 and status == "ok" and len(broken) == 2)
        rep.record("W-oracle-accepts-correct-runs-and-sees-both-sides-finish", "unsat" if (ok1 and ok2) else "sat")
        if not (ok1 and ok2):
            rep.inconclusive_item("twin", "oracle rejects a known-good concrete run")
        rep.sample({"concrete_run": [None if d["frame_idx"] is None else int(d["frame_idx"]) for d in delivered]})
        return rep.finish()
    from props import c13_contracts as C
    if cfg["kind"] == "range":
        r = chrunner.run_contract(C.video_range_resolution, per_condition_timeout=cfg["timeout"], per_path_timeout=60)
        rep.paths = rep.nontrivial_paths = 1
        oname = "CH-video-reader-resolves-the-requested-range"
        if r["state"] == "CONFIRMED":
            rep.record(oname, "unsat", r["solver_s"])
        elif r["state"] == "REFUTED":
            rep.record(oname, "sat", r["solver_s"])
            ce = r.get("counterexample") or {}
            kw = ce.get("kwargs") or {}
            try:
                why = S.range_resolution(kw["n"], kw["start"], kw["end"], kw["start_none"], kw["end_none"])[1]
            except Exception as e:  # noqa
                why = f"unparsed ({type(e).__name__})"
            rep.violation(oname, "video:range", f"{why}; CrossHair: {r['message'][:200]}", {"call": ce, "kind": "range"})
        else:
            rep.record(oname, "unknown", r["solver_s"])
            rep.inconclusive_item(oname, f"CrossHair state {r['state']}: {json.dumps(r['messages'])[:300]}")
        rep.witness("reachability-twin-refuted", True)
        rep.sample({"contract": "video_range_resolution", "crosshair_state": r["state"], "queries": r["queries"], "seconds": r["seconds"]})
        return rep.finish(stats={"queries": r["queries"], "solver_s": r["solver_s"]})
    name = f"frames_once_in_order_then_one_marker_{cfg['kind']}_Q{cfg['Q']}_B{cfg['B']}_{cfg['tag']}"
    fn = getattr(C, name)
    r = chrunner.run_contract(fn, per_condition_timeout=cfg["timeout"], per_path_timeout=120)
    rep.paths = 1
    rep.nontrivial_paths = 1
    oname = f"CH-{cfg['kind']}-reader-Q{cfg['Q']}-B{cfg['B']}"
    if r["state"] == "CONFIRMED":
        rep.record(oname, "unsat", r["solver_s"])
    elif r["state"] == "REFUTED":
        rep.record(oname, "sat", r["solver_s"])
        ce = r.get("counterexample") or {}
        why = "?"
        try:
            kw = ce.get("kwargs") or {}
            why = S.verdict(cfg["kind"], kw["start"], kw["end"], cfg["Q"], cfg["B"], kw["fail"], kw["sched"])[1]
        except Exception as e:  # noqa
            why = f"unparsed ({type(e).__name__})"
        cls = "hang" if why.startswith("hang") else "diverge" if why == "diverge" else "marker-or-frames" if "delivered" in why else "records"
        rep.violation(oname, f"{cfg['kind']}:{cls}", f"{why}; CrossHair: {r['message'][:200]}", {"call": ce, "kind": cfg["kind"], "Q": cfg["Q"], "B": cfg["B"]})
    else:
        rep.record(oname, "unknown", r["solver_s"])
        rep.inconclusive_item(oname, f"CrossHair state {r['state']}: {json.dumps(r['messages'])[:300]}")
    rep.witness("reachability-twin-refuted", True)
    rep.sample({"contract": name, "crosshair_state": r["state"], "queries": r["queries"], "seconds": r["seconds"]})
    return rep.finish(stats={"queries": r["queries"], "solver_s": r["solver_s"]})


def replay(cfg, inputs, obligation):
    """Concrete replay with REAL threads and a REAL queue.Queue is not schedule-controllable; the replay re-runs the
    deterministic scheduler on the counterexample (real thread bodies, concrete schedule) and, for hangs / missing
    markers that do not depend on the schedule, also the real threaded classes with a watchdog."""
    from props import c13_sim as S
    kw = (inputs.get("call") or {}).get("kwargs")
    if kw is None:
        return False, "counterexample not parsable"
    if inputs["kind"] == "range":
        ok, why = S.range_resolution(kw["n"], kw["start"], kw["end"], kw["start_none"], kw["end_none"])
        return (not ok), why
    ok, why = S.verdict(inputs["kind"], kw["start"], kw["end"], inputs["Q"], inputs["B"], kw["fail"], kw["sched"])
    if ok:
        return False, "scheduler replay: run is correct"
    detail = f"scheduler replay (real thread bodies, concrete schedule {kw['sched']}): {why}"
    try:
        detail += "; threaded run: " + _threaded(inputs["kind"], kw["start"], kw["end"], inputs["Q"], inputs["B"], kw["fail"])
    except Exception as e:  # noqa
        detail += f"; threaded run not possible ({type(e).__name__}: {e})"
    return True, detail


def _threaded(kind, start, end, Q, B, fail):
    import threading, queue
    import sleap_nn.data.providers as prov
    from props import c13_sim as S
    fb = queue.Queue(maxsize=Q)
    if kind == "video":
        r = prov.VideoReader(S.FakeVideo(end + S.EXTRA_FRAMES, fail), fb, start, end)
    else:
        r = prov.LabelsReader.__new__(prov.LabelsReader)
        threading.Thread.__init__(r)
        r.labels, r.frame_buffer, r.instances_key, r.max_instances = S.FakeLabels(start, end, fail), fb, False, 1
    got = []

    def consume():
        while True:
            try:
                f = fb.get(timeout=5)
            except queue.Empty:
                return
            got.append(None if f["frame_idx"] is None else int(f["frame_idx"]))
            if f["image"] is None:
                return
    r.daemon = True
    r.start()
    c = threading.Thread(target=consume, daemon=True)
    c.start()
    c.join(timeout=10)
    return f"OS-scheduled run delivered {got}" + (" and no end marker within 5 s: the consumer would block for ever" if (not got or got[-1] is not None) else "")
