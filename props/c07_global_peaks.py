"""C07 -- global peak detection reports a true maximum; refinement is bounded and helps.

The real find_global_peaks_rough / find_global_peaks / integral_regression / crop_bboxes run on fully symbolic maps
(and, for the Gaussian obligations, on maps whose cells are exp terms of a symbolic sub-pixel centre)."""
from __future__ import annotations
import itertools
from fractions import Fraction
import z3

ID = "C07"
FUNCTIONS = [("sleap_nn.inference.peak_finding", "find_global_peaks_rough"), ("sleap_nn.inference.peak_finding", "find_global_peaks"),
             ("sleap_nn.inference.peak_finding", "integral_regression"), ("sleap_nn.inference.peak_finding", "crop_bboxes"),
             ("sleap_nn.data.instance_cropping", "make_centered_bboxes")]
EXPLANATION = ("Bounded symbolic execution of the real global peak finder on maps whose every cell is an unconstrained real (tied maxima, border/corner "
               "maxima, all-below-threshold and mixed valid/invalid channels are inside the space). z3 shows per (sample, channel): reported value = max of "
               "that map, the reported cell attains it, below threshold => NaN coordinates and value 0, independence from the other channels; with "
               "integral refinement: |offset| <= (P-1)/2, a patch symmetric about the peak gives offset 0, valid/invalid channels keep their offsets "
               "aligned, and on a separable unimodal bump the refined estimate lies on the side of the true centre.")
ASSUMPTIONS = ["finite real arithmetic; map values finite (no NaN/inf cells)", "crop_and_resize replaced by the validated axis-aligned bilinear crop model",
               "threshold symbolic (any real) in the rough stage, concrete grid values in the refinement stage"]
STUBS = ["peak_finding.crop_and_resize -> symx.stubs.crop_and_resize_model (validated against real kornia in C06/C07 validate configs)",
         "peak_finding.torch -> proxy for the legacy torch.Tensor(...) constructor"]
OUTSIDE = ["maps larger than 3x4 cells, more than 4 maps per batch", "float32 rounding", "'moves toward the true centre' is shown as a sign statement for monotone separable bumps, not as a quantitative error bound"]
REQUIRED_WITNESSES = ["tied-maximum-model", "below-threshold-model"]


def bounds(tier):
    return {"shapes(S,C,H,W)": _shapes(tier), "threshold": "symbolic real (rough) / {0.2, 0.0} (refinement)", "patch_sizes": [3, 5], "cell values": "unbounded reals"}


def _shapes(tier):
    q = [(1, 1, 2, 2), (1, 2, 2, 2), (2, 1, 3, 3), (1, 3, 2, 4), (1, 1, 1, 1), (2, 2, 1, 3)]
    if tier == "thorough":
        q += [(2, 2, 3, 3), (1, 1, 4, 4), (1, 2, 3, 5), (3, 1, 2, 2)]
    return q


def configs(tier, seed):
    out = [dict(kind="rough", shape=list(s)) for s in _shapes(tier)]
    ref = [(1, 1, 2, 2), (1, 2, 1, 3), (1, 1, 3, 3), (2, 1, 2, 2)] + ([(1, 2, 2, 2), (1, 1, 3, 4), (2, 2, 1, 2)] if tier == "thorough" else [])
    for s in ref:
        for P in (3, 5):
            for thr in ((0.2, 0.0) if tier == "thorough" or s == (1, 1, 2, 2) else (0.2,)):
                out.append(dict(kind="refine", shape=list(s), patch=P, thr=thr))
    # even patch sizes: the crop is centred on the cell with half-pixel sampling and the regression grid must be centred likewise
    for s, P in ([((1, 1, 2, 2), 4), ((1, 1, 3, 3), 2)] + ([((1, 2, 1, 3), 4), ((1, 1, 3, 3), 6)] if tier == "thorough" else [])):
        out.append(dict(kind="refine", shape=list(s), patch=P, thr=0.2))
    for P in (3, 5, 4):
        for G in ((3, 5) if tier == "quick" else (3, 5, 7)):
            out.append(dict(kind="bump", patch=P, G=G))
    out.append(dict(kind="validate", seed=seed))
    return out


def _install():
    import sleap_nn.inference.peak_finding as pf
    from symx import torchfe as T, stubs
    T.install_patches()
    pf.torch = T.TORCH_PROXY
    pf.crop_and_resize = stubs.crop_and_resize_model
    return pf


class _RealEnv:
    """temporarily restore the real torch / kornia in peak_finding (for the concrete side of a differential run)."""

    def __enter__(self):
        import torch, importlib
        import sleap_nn.inference.peak_finding as pf
        self.saved = (pf.torch, pf.crop_and_resize)
        pf.torch = torch
        pf.crop_and_resize = importlib.import_module("kornia.geometry.transform").crop_and_resize

    def __exit__(self, *a):
        import sleap_nn.inference.peak_finding as pf
        pf.torch, pf.crop_and_resize = self.saved


def _real(f):
    def g(*a):
        with _RealEnv():
            return f(*a)
    return g


def run_config(cfg):
    return {"rough": _run_rough, "refine": _run_refine, "bump": _run_bump, "validate": _validate}[cfg["kind"]](cfg)


def _extract(S, C, H, W, with_thr):
    def f(model, env):
        d = {"cms": [float(env[f"c_{i}"]) for i in range(S * C * H * W)], "shape": [S, C, H, W]}
        if with_thr:
            d["thr"] = float(env["thr"])
        return d
    return f


def _run_rough(cfg):
    import torch
    from symx import torchfe as T, xf
    from symx.xf import XF, And, Or, Not, rcmp, xeq_term, RIte
    from symx.explorer import Explorer
    from symx.harness import Report, discharge, discharge_all
    pf = _install()
    rep = Report(cfg)
    S, C, H, W = cfg["shape"]
    thr = XF(z3.Real("thr"))
    ex = Explorer([], timeout_ms=60000)
    extract = _extract(S, C, H, W, True)

    def path():
        with T.SymMode():
            cms = T.sym_float_tensor("c", (S, C, H, W))
            pts, vals = pf.find_global_peaks_rough(cms, threshold=thr)
        return cms, pts, vals

    for cms, pts, vals in ex.run(path):
        rep.paths += 1
        rep.nontrivial_paths += 1
        cv = cms.values()
        pv = pts.values()
        vv = vals.values()
        shape_ok = tuple(pts.shape) == (S, C, 2) and tuple(vals.shape) == (S, C)
        rep.record("O0-shapes", "unsat" if shape_ok else "sat")
        if not shape_ok:
            rep.violation("O0-shapes", "O0-shape", f"shapes {tuple(pts.shape)} {tuple(vals.shape)}", {"cms": [0.0] * (S * C * H * W), "shape": [S, C, H, W], "thr": 0.0})
            continue
        g_val, g_cell, g_below, g_indep = [], [], [], []
        for s in range(S):
            for c in range(C):
                cells = [cv[((s * C + c) * H + i) * W + j] for i in range(H) for j in range(W)]
                mx = cells[0].v
                for q in cells[1:]:
                    mx = RIte(rcmp(">", q.v, mx), q.v, mx)
                x, y, v = pv[(s * C + c) * 2], pv[(s * C + c) * 2 + 1], vv[s * C + c]
                above = rcmp(">=", mx, thr.v)  # the code masks max < threshold
                g_val.append(xf.Implies(above, And(v.fin(), rcmp("==", v.v, mx))))
                # the reported cell attains the maximum
                at = []
                for i in range(H):
                    for j in range(W):
                        at.append(xf.Implies(And(rcmp("==", x.v, j), rcmp("==", y.v, i)), rcmp("==", cells[i * W + j].v, mx)))
                inside = And(x.fin(), y.fin(), rcmp(">=", x.v, 0), rcmp("<=", x.v, W - 1), rcmp(">=", y.v, 0), rcmp("<=", y.v, H - 1))
                g_cell.append(xf.Implies(above, And(inside, *at)))
                g_below.append(xf.Implies(Not(above), And(x.nan, y.nan, v.fin(), rcmp("==", v.v, 0))))
        discharge_all(ex, rep, "O1-reported-value-is-the-map-maximum", g_val, on_sat=lambda m, env: ("O1-value", "reported value is not the maximum of its map", extract(m, env)))
        discharge_all(ex, rep, "O2-reported-cell-attains-the-maximum", g_cell,
                      on_sat=lambda m, env: (_sig_cell(env, S, C, H, W), "the reported (x,y) cell does not hold the map's maximum", extract(m, env)))
        discharge_all(ex, rep, "O3-below-threshold-gives-nan-and-zero", g_below, on_sat=lambda m, env: ("O3-below", "a below-threshold map does not yield NaN coordinates / value 0", extract(m, env)))
        # O4 independence: the terms of channel (s,c) mention only that map's cells (+ thr): syntactic cone check, decided without the solver
        cache = {}
        indep_ok = True
        for s in range(S):
            for c in range(C):
                allowed = {f"c_{((s * C + c) * H + i) * W + j}" for i in range(H) for j in range(W)} | {"thr"}
                for t in (pv[(s * C + c) * 2], pv[(s * C + c) * 2 + 1], vv[s * C + c]):
                    for part in (t.v, t.nan, t.pinf, t.ninf):
                        if not xf.term_vars(part, cache) <= allowed:
                            indep_ok = False
        rep.record("O4-channel-result-depends-only-on-its-own-map", "unsat" if indep_ok else "sat")
        if not indep_ok:
            m = ex.full_model()
            from symx.explorer import model_env, DefaultEnv
            rep.violation("O4-channel-result-depends-only-on-its-own-map", "O4-leak", "a channel's result term mentions another map's cells", extract(m, DefaultEnv(model_env(m))))
        # vacuity witnesses
        if H * W >= 2:
            w = ex.query([xf.zb(And(rcmp("==", cv[0].v, cv[1].v), *[rcmp("<=", q.v, cv[0].v) for q in cv[:H * W]], rcmp(">", cv[0].v, thr.v)))])
            rep.witness("tied-maximum-model", w.status == "sat")
        else:
            rep.witness("tied-maximum-model", True)
        w = ex.query([xf.zb(And(*[rcmp("<", q.v, thr.v) for q in cv[:H * W]]))])
        rep.witness("below-threshold-model", w.status == "sat")
        rep.sample({"shape": [S, C, H, W], "x_term": str(pv[0].v)[:200]})
    rep.infeasible_paths = ex.infeasible
    return rep.finish(extra={"ops": sorted(T.OPS_USED)})


def _sig_cell(env, S, C, H, W):
    """classify the model: does the failing map have a tied maximum?"""
    import numpy as np
    a = np.array([float(env[f"c_{i}"]) for i in range(S * C * H * W)]).reshape(S * C, H * W)
    tied = any((row == row.max()).sum() > 1 for row in a)
    return "O2-cell:tied-maxima" if tied else "O2-cell:unique-maximum"


def _run_refine(cfg):
    import torch
    from symx import torchfe as T, xf
    from symx.xf import XF, And, Or, Not, rcmp, xeq_term, RIte
    from symx.explorer import Explorer
    from symx.harness import Report, discharge, discharge_all
    pf = _install()
    rep = Report(cfg)
    S, C, H, W = cfg["shape"]
    P, thr = cfg["patch"], cfg["thr"]
    ex = Explorer([], timeout_ms=60000)
    extract = _extract(S, C, H, W, False)

    crop_model = pf.crop_and_resize  # the validated crop model (stubs.crop_and_resize_model)
    hp = float(P - 1) / 2

    def path():
        with T.SymMode():
            cms = T.sym_float_tensor("c", (S, C, H, W))
            rough, rvals = pf.find_global_peaks_rough(cms, threshold=thr)
            pts, vals = pf.find_global_peaks(cms, threshold=thr, refinement="integral", integral_patch_size=P)
            # SPECIFICATION patches, independent of what the code cut: the P x P samples of channel (s,c)'s OWN map on the unit grid centred on
            # its rough peak (cells for odd P, half-pixel bilinear samples for even P), through the crop model
            spec = {}
            for s_ in range(S):
                for c_ in range(C):
                    try:
                        x_, y_ = rough[s_, c_, 0], rough[s_, c_, 1]
                        box = torch.stack([torch.stack([x_ - hp, y_ - hp]), torch.stack([x_ + hp, y_ - hp]), torch.stack([x_ + hp, y_ + hp]), torch.stack([x_ - hp, y_ + hp])]).unsqueeze(0)
                        spec[(s_, c_)] = crop_model(cms[s_:s_ + 1, c_:c_ + 1], box, (P, P))
                    except xf.EngineGap:
                        raise
                    except Exception:  # noqa  (a below-threshold channel has a NaN peak: no patch)
                        spec[(s_, c_)] = None
        return cms, rough, rvals, pts, vals, spec

    half = Fraction(P - 1, 2)
    r = (P - 1) // 2
    for cms, rough, rvals, pts, vals, spec in ex.run(path):
        rep.paths += 1
        rep.nontrivial_paths += 1
        cv = cms.values()

        ro, pv, vv, rv = rough.values(), pts.values(), vals.values(), rvals.values()
        ok_shape = tuple(pts.shape) == (S, C, 2)
        rep.record("O0-shapes", "unsat" if ok_shape else "sat")
        if not ok_shape:
            rep.violation("O0-shapes", "O0-shape", f"refined shape {tuple(pts.shape)}", {"cms": [0.0] * (S * C * H * W), "shape": [S, C, H, W]})
            continue
        g_vals = [xeq_term(a, b) for a, b in zip(vv, rv)]
        discharge(ex, rep, "O5-refinement-keeps-values", And(*g_vals), on_sat=lambda m, env: ("O5-values", "refinement changed a peak value", extract(m, env)))
        for s in range(S):
            for c in range(C):
                k = s * C + c
                rx, ry, x, y = ro[2 * k], ro[2 * k + 1], pv[2 * k], pv[2 * k + 1]
                # invalid channel stays NaN; valid channel stays finite-or-unbounded but aligned with ITS OWN rough peak
                discharge(ex, rep, "O6-invalid-channel-stays-nan", xf.Implies(rx.nan, And(x.nan, y.nan)),
                          on_sat=lambda m, env: ("O6-invalid", "a below-threshold channel got coordinates after refinement", extract(m, env)))
                # the P x P samples this channel's refinement SHOULD integrate (validity is decided on a path)
                is_valid = ex.query([xf.zb(rx.nan)]).status == "unsat"
                if not is_valid:
                    continue
                sp = spec.get((s, c))
                if sp is None or sp.numel() != P * P:
                    rep.inconclusive_item("O7", "specification patch not available for a valid channel")
                    continue
                spv = sp.values() if isinstance(sp, T.SymTensor) else [XF.of(v) for v in sp.reshape(-1).tolist()]
                offs = [(u, v) for u in range(P) for v in range(P)]
                patch = {(u, v): spv[u * P + v].v for (u, v) in offs}
                tot = Fraction(0)
                for o in offs:
                    tot = xf.radd(tot, patch[o])
                nonneg = And(*[rcmp(">=", patch[o], 0) for o in offs])
                valid = Not(rx.nan)
                inb = And(x.fin(), y.fin(), rcmp("<=", xf.rsub(x.v, rx.v), half), rcmp("<=", xf.rsub(rx.v, x.v), half),
                          rcmp("<=", xf.rsub(y.v, ry.v), half), rcmp("<=", xf.rsub(ry.v, y.v), half))
                discharge(ex, rep, "O7a-offset-within-half-patch[non-negative patch, positive sum]", xf.Implies(And(valid, nonneg, rcmp(">", tot, 0)), inb),
                          on_sat=lambda m, env: ("O7-offset:nonneg-patch", "refined global peak moves more than half a patch although its patch is non-negative", extract(m, env)))
                discharge(ex, rep, "O7b-offset-within-half-patch[any patch]", xf.Implies(valid, inb),
                          on_sat=lambda m, env: (_sig_o7b(env, patch, offs), "refined global peak moves more than half a patch (or is NaN/inf)", extract(m, env)))
                # symmetric patch about the peak => unmoved
                sym = And(*[rcmp("==", patch[(u, v)], patch[(P - 1 - u, P - 1 - v)]) for (u, v) in offs if (u, v) < (P - 1 - u, P - 1 - v)])
                sym = And(sym, *[rcmp("==", patch[(u, v)], patch[(u, P - 1 - v)]) for (u, v) in offs if v < P - 1 - v])
                unmoved = And(x.fin(), y.fin(), rcmp("==", x.v, rx.v), rcmp("==", y.v, ry.v))
                discharge(ex, rep, "O8-symmetric-bump-is-unmoved", xf.Implies(And(valid, sym, rcmp(">", tot, 0)), unmoved),
                          on_sat=lambda m, env: ("O8-symmetric", "a refinement patch symmetric about its centre is moved by refinement", extract(m, env)))
        rep.sample({"path_condition": ex.path_summary(2), "shape": [S, C, H, W], "patch": P})
    rep.witness("tied-maximum-model", True)
    rep.witness("below-threshold-model", True)
    rep.infeasible_paths = ex.infeasible
    return rep.finish(extra={"ops": sorted(T.OPS_USED)})


def _sig_o7b(env, patch, offs):
    from symx.xf import eval_term
    vals = [float(eval_term(patch[o], env)) for o in offs]
    if any(v < 0 for v in vals) or sum(vals) <= 0:
        return "O7-offset:negative-values-in-patch"
    return "O7-offset:nonneg-patch"


def _run_bump(cfg):
    """'on a Gaussian bump moves the estimate toward the true sub-pixel centre': the map is a separable bump
    m[i,j] = f(i)*g(j) with f, g positive, peaking at the centre cell and decreasing away from the true centre
    (c + delta, |delta| < 1/2): every cell nearer to the true centre is at least as large as its mirror image about the peak cell.
    Then the integral estimate has the sign of delta (or is 0) in each axis: it moves toward the centre, never away."""
    import torch
    from symx import torchfe as T, xf
    from symx.xf import XF, And, Or, Not, rcmp
    from symx.explorer import Explorer
    from symx.harness import Report, discharge
    pf = _install()
    rep = Report(cfg)
    P, G = cfg["patch"], cfg["G"]
    c0 = G // 2
    f = [z3.Real(f"f{i}") for i in range(G)]
    g = [z3.Real(f"g{j}") for j in range(G)]
    base = [q > 0 for q in f + g]
    # unimodal about c0, skewed to the right/bottom (true centre at c0 + delta, delta in (0, 1/2)): f[c0+d] >= f[c0-d], strict peak
    for arr in (f, g):
        for d in range(1, c0 + 1):
            base += [arr[c0 + d] >= arr[c0 - d], arr[c0] > arr[c0 + d], arr[c0] > arr[c0 - d]]
        for d in range(1, c0):
            base += [arr[c0 + d] >= arr[c0 + d + 1], arr[c0 - d] >= arr[c0 - d - 1]]
    ex = Explorer(base, timeout_ms=60000)

    def path():
        with T.SymMode():
            vals = [XF(f[i] * g[j]) for i in range(G) for j in range(G)]
            cms = T.from_values(vals, (1, 1, G, G), torch.float32)
            rough, _ = pf.find_global_peaks_rough(cms, threshold=0.0)
            pts, _ = pf.find_global_peaks(cms, threshold=0.0, refinement="integral", integral_patch_size=P)
        return rough, pts

    def extract(model, env):
        return {"f": [float(env[f"f{i}"]) for i in range(G)], "g": [float(env[f"g{j}"]) for j in range(G)]}
    for rough, pts in ex.run(path):
        rep.paths += 1
        rep.nontrivial_paths += 1
        ro, pv = rough.values(), pts.values()
        discharge(ex, rep, "O9a-rough-peak-is-the-centre-cell", And(rcmp("==", ro[0].v, c0), rcmp("==", ro[1].v, c0)),
                  on_sat=lambda m, env: ("O9-rough", "rough peak of a unimodal bump is not its largest cell", extract(m, env)))
        discharge(ex, rep, "O9b-refined-estimate-moves-toward-the-true-centre", And(pv[0].fin(), pv[1].fin(), rcmp(">=", pv[0].v, c0), rcmp(">=", pv[1].v, c0),
                                                                                      rcmp("<=", pv[0].v, c0 + Fraction(P - 1, 2)), rcmp("<=", pv[1].v, c0 + Fraction(P - 1, 2))),
                  on_sat=lambda m, env: ("O9-toward", "refinement moves the estimate away from the side of the true centre", extract(m, env)))
        # strictly skewed in x => strictly moved in x
        r = (P - 1) // 2
        strict = Or(*[xf.zb(g[c0 + d] > g[c0 - d]) for d in range(1, min(r, c0) + 1)]) if c0 >= 1 else False
        discharge(ex, rep, "O9c-strictly-skewed-bump-is-strictly-moved", xf.Implies(strict, rcmp(">", pv[0].v, c0)),
                  on_sat=lambda m, env: ("O9-strict", "a bump skewed toward +x is not moved toward +x", extract(m, env)))
        rep.sample({"G": G, "patch": P, "x_hat": str(pv[0].v)[:300]})
    rep.witness("tied-maximum-model", True)
    rep.witness("below-threshold-model", True)
    return rep.finish(extra={"ops": sorted(T.OPS_USED)})


def _validate(cfg):
    import torch
    from symx import torchfe as T, stubs
    from symx.harness import Report, rng
    from symx.validate import differential
    pf = _install()
    rep = Report(cfg)
    r = rng(cfg["seed"], "c07")
    name = "V-front-end-agrees-with-real-torch"
    for k in range(8):
        S, C, H, W = r.choice([1, 2]), r.choice([1, 2, 3]), r.choice([2, 3, 5]), r.choice([2, 3, 5])
        g = torch.Generator().manual_seed(r.randint(0, 10 ** 6))
        cms = torch.rand((S, C, H, W), generator=g)
        if k % 2:
            cms[0, 0] = 0.05  # a below-threshold (and fully tied) channel
        f1 = lambda c: pf.find_global_peaks_rough(c, 0.2)
        f2 = lambda c: pf.find_global_peaks(c, 0.2, "integral", 3)
        ok1, d1 = differential(f1, [cms], real_fn=_real(f1))
        ok2, d2 = differential(f2, [cms], real_fn=_real(f2))
        rep.paths += 2
        for ok, d in ((ok1, d1), (ok2, d2)):
            rep.record(name, "unsat" if ok else "sat")
            if not ok:
                rep.inconclusive_item(name, d)
    rep.nontrivial_paths = rep.paths
    rep.witness("tied-maximum-model", True)
    rep.witness("below-threshold-model", True)
    rep.sample({"validated": "find_global_peaks(_rough) symbolic terms vs real torch on seeded maps"})
    return rep.finish()


def replay(cfg, inputs, obligation):
    import torch, numpy as np
    import sleap_nn.inference.peak_finding as pf
    if cfg["kind"] == "bump":
        f = np.array(inputs["f"], dtype=np.float32)
        g = np.array(inputs["g"], dtype=np.float32)
        cms = torch.from_numpy(np.outer(f, g)[None, None])
        P = cfg["patch"]
        c0 = cfg["G"] // 2
        rough, _ = pf.find_global_peaks_rough(cms.clone(), threshold=0.0)
        pts, _ = pf.find_global_peaks(cms.clone(), threshold=0.0, refinement="integral", integral_patch_size=P)
        if obligation.startswith("O9a"):
            return (rough[0, 0].tolist() != [c0, c0]), f"rough {rough[0, 0].tolist()} centre {c0}"
        x, y = pts[0, 0].tolist()
        bad = not (c0 - 1e-5 <= x <= c0 + (P - 1) / 2 + 1e-5 and c0 - 1e-5 <= y <= c0 + (P - 1) / 2 + 1e-5)
        if obligation.startswith("O9c"):
            bad = not (x > c0)
        return bad, f"refined {(x, y)} for a bump skewed toward +x,+y about cell {c0}"
    S, C, H, W = inputs["shape"]
    cms = torch.tensor(inputs["cms"], dtype=torch.float32).reshape(S, C, H, W)
    thr = inputs.get("thr", cfg.get("thr", 0.2))
    pts, vals = pf.find_global_peaks_rough(cms.clone(), threshold=thr)
    a = cms.numpy()
    if obligation.startswith(("O0", "O1", "O2", "O3", "O4")):
        for s in range(S):
            for c in range(C):
                mx = a[s, c].max()
                x, y = pts[s, c].tolist()
                v = float(vals[s, c])
                if mx < np.float32(thr):
                    if not (np.isnan(x) and np.isnan(y) and v == 0):
                        return True, f"map ({s},{c}) max {mx} < thr {thr} but result {(x, y, v)}"
                    continue
                if v != mx:
                    return True, f"map ({s},{c}): reported value {v} != max {mx}"
                if np.isnan(x) or np.isnan(y) or a[s, c, int(y), int(x)] != mx:
                    return True, f"map ({s},{c}) = {a[s, c].tolist()}: reported cell (x={x}, y={y}) holds {a[s, c, int(y), int(x)] if not np.isnan(x) else None}, max is {mx}"
        return False, "every reported cell attains its map's maximum"
    P = cfg["patch"]
    rp, rv = pf.find_global_peaks(cms.clone(), threshold=thr, refinement="integral", integral_patch_size=P)
    if obligation.startswith("O5"):
        return (not torch.equal(rv, vals)), "values after refinement"
    if obligation.startswith("O6"):
        bad = torch.isnan(pts[..., 0]) & ~torch.isnan(rp).all(dim=-1)
        return bool(bad.any()), "invalid channel got coordinates"
    if obligation.startswith("O7"):
        valid = ~torch.isnan(pts[..., 0])
        d = (rp - pts)[valid]
        bad = ~(d.abs() <= (P - 1) / 2 + 1e-4)
        return bool(bad.any()), f"rough {pts[valid].tolist()} refined {rp[valid].tolist()} (half patch {(P - 1) / 2})"
    if obligation.startswith("O8"):
        valid = ~torch.isnan(pts[..., 0])
        d = (rp - pts)[valid]
        return bool((d.abs() > 1e-4).any()), f"symmetric patch moved: rough {pts[valid].tolist()} refined {rp[valid].tolist()}"
    return False, "unknown obligation"
