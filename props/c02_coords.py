"""C02 -- single-instance and top-down inference return original-image coordinates.

The real inference modules run with an ideal-map oracle in place of the trained network; keypoints are symbolic
sub-pixel positions in ORIGINAL image coordinates."""
from __future__ import annotations
import itertools
from fractions import Fraction
import z3

ID = "C02"
FUNCTIONS = [("sleap_nn.data.instance_cropping", "make_centered_bboxes"), ("sleap_nn.inference.peak_finding", "crop_bboxes"),
             ("sleap_nn.inference.single_instance", "SingleInstanceInferenceModel.forward"), ("sleap_nn.inference.topdown", "CentroidCrop.forward"),
             ("sleap_nn.inference.topdown", "CentroidCrop._generate_crops"), ("sleap_nn.inference.topdown", "FindInstancePeaks.forward"),
             ("sleap_nn.inference.topdown", "TopDownInferenceModel.forward"), ("sleap_nn.inference.peak_finding", "find_global_peaks"),
             ("sleap_nn.inference.peak_finding", "find_global_peaks_rough"), ("sleap_nn.inference.peak_finding", "find_local_peaks"), ("sleap_nn.inference.peak_finding", "find_local_peaks_rough"),
             ("sleap_nn.inference.peak_finding", "crop_bboxes"), ("sleap_nn.data.instance_cropping", "make_centered_bboxes"), ("sleap_nn.data.resizing", "resize_image"),
             ("sleap_nn.data.resizing", "apply_pad_to_stride"), ("sleap_nn.data.resizing", "apply_sizematcher"), ("sleap_nn.inference.predictors", "Predictor._predict_generator"),
             ("sleap_nn.inference.predictors", "SingleInstancePredictor.make_pipeline"), ("sleap_nn.inference.predictors", "BottomUpPredictor.make_pipeline")]
EXPLANATION = ("The real inference modules run with the trained network replaced by an ideal-map oracle: per channel fresh reals that are ordered exactly like the distances "
               "of the grid cells to the keypoint (linear constraints in the keypoint), 0 for an invisible node. Keypoints are symbolic sub-pixel positions in original-image "
               "coordinates. z3 shows on every feasible peak pattern that every visible keypoint comes back within half an output-stride cell (in original pixels) and every "
               "invisible one as NaN / value 0, over a grid of image sizes, input scales, eff_scales, strides, crop sizes and batch sizes. Predictor level: the real "
               "make_pipeline + _predict_generator + inference model run for both providers on a concrete ramp frame whose pixels encode their position, so the oracle "
               "reads the scale of the image it is ACTUALLY given from the pixels.")
ASSUMPTIONS = ["ideal-map oracle (monotone profile): statements about peak LOCATION only; refinement='integral' is claimed only as 'within half a cell + (P-1)/2 cells'",
               "visible keypoints lie within the span of the output grid's cell centres; the centroid (anchor) is in general position = not equidistant from two grid cells (a tie gives no strict local maximum, hence no detection); ties of the global-peak stage fork and are covered",
               "crop_and_resize: geometry-only stub (the instance network's oracle is told the crop's top-left, read from the real instance_bbox)",
               "exact real arithmetic; float32 rounding outside", "predictor objects are built with __new__ and the attributes make_pipeline reads (no checkpoint), from_filename stubbed"]
STUBS = ["torch_model -> ideal-map oracle", "peak_finding/topdown .torch -> proxy (legacy constructor)", "crop_and_resize -> geometry-only stub", "LabelsReader/VideoReader.from_filename -> fake reader with a pre-filled FIFO"]
OUTSIDE = ["images larger than 8 cells per side", "sub-pixel accuracy of integral refinement", "sio.Labels assembly (installed sleap_io API mismatch)", "content-level behaviour of tvf.resize (C04)"]
REQUIRED_WITNESSES = ["model-with-visible-and-invisible-node"]


def bounds(tier):
    return {"grid": "<= 4x4 cells (thorough 6x6)", "output_stride": [1, 2, 4], "input_scale": [1.0, 0.5, 2.0], "eff_scale": [1.0, 0.75], "batch": [1, 2], "crop": [4], "nodes": 2}


def configs(tier, seed):
    out = []
    single = [(4, 2, 1.0, 1.0, 1), (4, 2, 0.5, 0.75, 2), (3, 4, 2.0, 1.0, 1), (4, 1, 0.5, 1.0, 1)]
    if tier == "thorough":
        single += [(6, 2, 1.0, 0.5, 1), (5, 1, 2.0, 0.75, 2), (4, 4, 0.5, 0.5, 1)]
    for (G, s, isc, eff, B) in single:
        out.append(dict(kind="single", G=G, stride=s, input_scale=isc, eff=eff, batch=B, refinement=None))
    # integral refinement with the weak bound (half a cell + (P-1)/2 cells) and the NaN/0 contract for invisible nodes, incl. an invisible node BEFORE a visible one
    out.append(dict(kind="single", G=2, stride=2, input_scale=1.0, eff=1.0, batch=1, refinement="integral"))
    if tier == "thorough":
        out.append(dict(kind="single", G=3, stride=2, input_scale=0.5, eff=1.0, batch=1, refinement="integral"))
    td = [dict(kind="topdown", H=8, W=8, cstride=2, istride=2, crop=4, c_scale=1.0, i_scale=1.0, eff=1.0),
          dict(kind="topdown", H=8, W=8, cstride=1, istride=1, crop=4, c_scale=0.5, i_scale=1.0, eff=1.0),
          dict(kind="topdown", H=8, W=8, cstride=2, istride=2, crop=4, c_scale=1.0, i_scale=1.0, eff=0.5)]
    if tier == "thorough":
        td += [dict(kind="topdown", H=12, W=12, cstride=2, istride=2, crop=8, c_scale=1.0, i_scale=1.0, eff=0.5), dict(kind="topdown", H=12, W=12, cstride=2, istride=1, crop=8, c_scale=0.5, i_scale=2.0, eff=1.0)]
    out += td
    for provider in ("VideoReader", "LabelsReader"):
        for scale in (1.0, 0.5):
            out.append(dict(kind="predictor", model="single", provider=provider, scale=scale, max_stride=4, H=8 if scale == 1.0 else 16, W=8 if scale == 1.0 else 16))
    # one batch of two frames of different sizes, size-matched to a common max_height/max_width: each frame has its own effective scale
    for provider in (("VideoReader",) if tier == "quick" else ("VideoReader", "LabelsReader")):
        out.append(dict(kind="predictor", model="single", provider=provider, scale=1.0, max_stride=4, H=4, W=4, frames=[[4, 4], [8, 8]], max_hw=8, batch=2))
    # binary32 slice: the crop that top-down inference cuts around a centroid has exactly the configured size for EVERY float32 centroid
    for bh, bw in (((64, 48),) if tier == "quick" else ((64, 48), (160, 160), (5, 7))):
        out.append(dict(kind="float32-crop", box_h=bh, box_w=bw))
    return out


def run_config(cfg):
    return {"single": _run_single, "topdown": _run_topdown, "predictor": _run_predictor, "float32-crop": _run_float_crop}[cfg["kind"]](cfg)


def _install():
    import sleap_nn.inference.peak_finding as pf
    import sleap_nn.inference.topdown as td
    import sleap_nn.inference.single_instance as si
    from symx import torchfe as T, stubs
    T.install_patches()
    pf.torch = T.TORCH_PROXY
    td.torch = T.TORCH_PROXY
    pf.crop_and_resize = stubs.crop_and_resize_geometry

    class _L:
        def __getattr__(self, k):
            return lambda *a, **kw: None
    td.logger = _L()
    return pf, td, si


def _within(pred_x, pred_y, kx, ky, tol):
    from symx import xf
    from symx.xf import And, rcmp
    return And(pred_x.fin(), pred_y.fin(), rcmp("<=", xf.rsub(pred_x.v, kx), tol), rcmp("<=", xf.rsub(kx, pred_x.v), tol), rcmp("<=", xf.rsub(pred_y.v, ky), tol), rcmp("<=", xf.rsub(ky, pred_y.v), tol))


def _run_single(cfg):
    import torch
    from symx import torchfe as T, xf, oracle
    from symx.xf import XF, And, Or, Not, rcmp
    from symx.explorer import Explorer
    from symx.harness import Report, discharge
    pf, td, si = _install()
    if cfg["refinement"] == "integral":
        from symx import stubs
        pf.crop_and_resize = stubs.crop_and_resize_model
    rep = Report(cfg)
    G, s, isc, eff, B, N = cfg["G"], cfg["stride"], Fraction(cfg["input_scale"]), Fraction(cfg["eff"]), cfg["batch"], 2
    Wn = G * s
    k = {(b, n, d): z3.Real(f"k{b}{n}{d}") for b in range(B) for n in range(N) for d in "xy"}
    vis = {(b, n): z3.Bool(f"vis{b}{n}") for b in range(B) for n in range(N)}
    base = []
    for b in range(B):
        for n in range(N):
            for d in "xy":
                kin = k[(b, n, d)] * xf.Q(eff * isc)
                base += [kin >= 0, kin <= (G - 1) * s]

    class Ideal(torch.nn.Module):
        def forward(self, img):
            vals = []
            for b in range(B):
                for n in range(N):
                    v, cons = oracle.ideal_channel(f"cm{b}{n}", k[(b, n, "x")] * xf.Q(eff * isc), k[(b, n, "y")] * xf.Q(eff * isc), G, G, s, vis[(b, n)])
                    oracle.add_constraints(cons)
                    vals += v
            return T.from_values(vals, (B, N, G, G), torch.float32)
    ex = Explorer(base, timeout_ms=120000, max_paths=5000)
    P = 3

    def path():
        with T.SymMode():
            model = si.SingleInstanceInferenceModel(Ideal(), output_stride=s, peak_threshold=0.2, refinement=cfg["refinement"], integral_patch_size=P, input_scale=float(isc))
            out = model({"image": torch.zeros(B, 1, 1, Wn, Wn), "eff_scale": torch.tensor([float(eff)] * B)})
        return out[0]

    def extract(model, env):
        return {"keypoints": [[[float(env[f"k{b}{n}x"]), float(env[f"k{b}{n}y"])] for n in range(N)] for b in range(B)], "visible": [[bool(env[f"vis{b}{n}"]) for n in range(N)] for b in range(B)]}
    cell = Fraction(s) / (isc * eff)
    tol = cell / 2 if cfg["refinement"] is None else cell / 2 + cell * Fraction(P - 1, 2)
    for out in ex.run(path):
        rep.paths += 1
        rep.nontrivial_paths += 1
        pk, pv = out["pred_instance_peaks"].values(), out["pred_peak_values"].values()
        goals = []
        for b in range(B):
            for n in range(N):
                x, y, v = pk[(b * N + n) * 2], pk[(b * N + n) * 2 + 1], pv[b * N + n]
                good_vis = _within(x, y, k[(b, n, "x")], k[(b, n, "y")], tol)
                good_inv = And(x.nan, y.nan, v.fin(), rcmp("==", v.v, 0))
                goals.append(z3.If(vis[(b, n)], xf.zb(good_vis), xf.zb(good_inv)))
        for g in goals:
            discharge(ex, rep, "S1-visible-within-half-cell-invisible-nan" if cfg["refinement"] is None else "S1i-integral-within-half-cell-plus-half-patch", g,
                      on_sat=lambda m, env: (f"single:coords:{cfg['refinement']}", "single-instance inference returns a keypoint off by more than the tolerance (or wrong visibility)", extract(m, env)))
        w = ex.query([vis[(0, 0)], z3.Not(vis[(0, 1)])])
        rep.witness("model-with-visible-and-invisible-node", w.status == "sat")
        rep.sample({"path_condition": ex.path_summary(2, 60), "tolerance_px": float(tol)})
    if ex.truncated:
        rep.inconclusive_item("single", "path budget exhausted")
    return rep.finish(extra={"ops": sorted(T.OPS_USED)})


def _run_topdown(cfg):
    import torch
    from symx import torchfe as T, xf, oracle
    from symx.xf import XF, And, Or, Not, rcmp, CTX
    from symx.explorer import Explorer
    from symx.harness import Report, discharge
    pf, td, si = _install()
    rep = Report(cfg)
    H, W, cs, is_, crop = cfg["H"], cfg["W"], cfg["cstride"], cfg["istride"], cfg["crop"]
    csc, isc, eff = Fraction(cfg["c_scale"]), Fraction(cfg["i_scale"]), Fraction(cfg["eff"])
    N = 2
    kx = [z3.Real(f"kx{n}") for n in range(N)]
    ky = [z3.Real(f"ky{n}") for n in range(N)]
    # one animal; node 0 is the anchor; coordinates in ORIGINAL pixels; the frame handed to the model is the size-matched one (orig * eff)
    half = Fraction(crop, 2)
    base = []
    ax, ay = kx[0] * xf.Q(eff), ky[0] * xf.Q(eff)  # anchor in model-input pixels
    # the crop is cut from the frame resized by the centered-instance model's scale (CentroidCrop.precrop_resize, set by the predictor)
    base += [ax * xf.Q(isc) >= half, ax * xf.Q(isc) <= int(W * isc) - half, ay * xf.Q(isc) >= half, ay * xf.Q(isc) <= int(H * isc) - half]
    gc = int(H * csc) // cs
    base += [ax * xf.Q(csc) <= (int(W * csc) // cs - 1) * cs, ay * xf.Q(csc) <= (gc - 1) * cs]
    m_ = Fraction(crop)  # loose a-priori box for node 1; the binding condition is the crop-containment assumption placed where the crop is known
    es = eff * isc
    base += [(kx[1] - kx[0]) * xf.Q(es) <= xf.Q(m_), (kx[0] - kx[1]) * xf.Q(es) <= xf.Q(m_), (ky[1] - ky[0]) * xf.Q(es) <= xf.Q(m_), (ky[0] - ky[1]) * xf.Q(es) <= xf.Q(m_)]

    class CentroidNet(torch.nn.Module):
        def forward(self, img):
            gh, gw = img.shape[-2] // cs, img.shape[-1] // cs
            v, cons = oracle.ideal_channel("cc", ax * xf.Q(csc), ay * xf.Q(csc), gh, gw, cs, True, general_position=True)
            oracle.add_constraints(cons)
            return T.from_values(v, (1, 1, gh, gw), torch.float32)

    class InstNet(torch.nn.Module):
        tl = None

        def forward(self, img):
            gh, gw = img.shape[-2] // is_, img.shape[-1] // is_
            vals = []
            tlx, tly = self.tl
            # claim only frames whose keypoints lie on the grid of the crop the code actually cut (a coarse centroid grid can put the
            # crop up to half a centroid cell off the anchor): 0 <= k - top_left <= (g-1)*stride, in the crop's own pixels
            for n in range(N):
                rx, ry = kx[n] * xf.Q(eff * isc) - xf.R(tlx.v), ky[n] * xf.Q(eff * isc) - xf.R(tly.v)
                CTX.explorer.assume(z3.And(rx >= 0, rx <= (gw - 1) * is_, ry >= 0, ry <= (gh - 1) * is_))
            for n in range(N):
                v, cons = oracle.ideal_channel(f"ic{n}", kx[n] * xf.Q(eff * isc) - xf.R(tlx.v), ky[n] * xf.Q(eff * isc) - xf.R(tly.v), gh, gw, is_, True)
                oracle.add_constraints(cons)
                vals += v
            return T.from_values(vals, (1, N, gh, gw), torch.float32)
    inet = InstNet()
    ex = Explorer(base, timeout_ms=120000, max_paths=3000)

    def path():
        with T.SymMode():
            cc = td.CentroidCrop(CentroidNet(), output_stride=cs, peak_threshold=0.2, max_instances=None, refinement=None, return_crops=True, crop_hw=(crop, crop), input_scale=float(csc), max_stride=1)
            fip = td.FindInstancePeaks(inet, output_stride=is_, peak_threshold=0.2, refinement=None, input_scale=float(isc), max_stride=1)
            cc.precrop_resize = float(isc)  # as TopDownPredictor._initialize_inference_model does

            def hook(mod, args):
                bb = args[0]["instance_bbox"].values()
                inet.tl = (bb[0], bb[1])
            fip.register_forward_pre_hook(hook)
            model = td.TopDownInferenceModel(cc, fip)
            batch = {"image": torch.zeros(1, 1, 1, H, W), "frame_idx": torch.tensor([0]), "video_idx": torch.tensor([0]), "orig_size": torch.tensor([[H, W]]), "eff_scale": torch.tensor([float(eff)])}
            return model(batch)

    def extract(model, env):
        return {"keypoints": [[float(env[f"kx{n}"]), float(env[f"ky{n}"])] for n in range(N)]}
    tol = Fraction(is_) / (isc * eff) / 2
    for out in ex.run(path):
        rep.paths += 1
        rep.nontrivial_paths += 1
        if out is None or len(out) != 1:
            v = ex.query([])
            rep.record("TD0-one-instance-found", "sat")
            from symx.explorer import model_env, DefaultEnv
            m = ex.full_model()
            rep.violation("TD0-one-instance-found", "topdown:no-instance", f"top-down inference returned {None if out is None else len(out)} instances for one visible animal", extract(m, DefaultEnv(model_env(m))))
            continue
        rep.record("TD0-one-instance-found", "unsat")
        o = out[0]
        pk, bb = o["pred_instance_peaks"].values(), o["instance_bbox"].values()
        for n in range(N):
            x = XF(xf.radd(pk[2 * n].v, bb[0].v), pk[2 * n].nan)
            y = XF(xf.radd(pk[2 * n + 1].v, bb[1].v), pk[2 * n + 1].nan)
            discharge(ex, rep, "TD1-keypoint-plus-bbox-corner-within-half-cell-of-truth", _within(x, y, kx[n], ky[n], tol),
                      on_sat=lambda m, env: ("topdown:coords", "top-down keypoint (crop peak + bbox top-left, as assembled by the predictor) is off by more than half an output-stride cell", extract(m, env)))
        rep.sample({"path_condition": ex.path_summary(2, 60), "tolerance_px": float(tol)})
    rep.witness("model-with-visible-and-invisible-node", True)
    if rep.paths == 0:
        rep.inconclusive_item("topdown", "no feasible path: the harness precondition (keypoints on the grid of the crop the code cut) is unsatisfiable")
    if ex.truncated:
        rep.inconclusive_item("topdown", "path budget exhausted")
    return rep.finish(extra={"ops": sorted(T.OPS_USED)})


# ------------------------------------------------------------------ binary32 slice of the crop-size arithmetic
CROP_RANGE = (-64.0, 8192.0)


def _crop_size_slice(bh, bw):
    """make_centered_bboxes (corners of the box around a centroid) composed with crop_bboxes (size of the crop cut from those corners), both lifted
    from their CURRENT source and evaluated in binary32, the format of the tensors they compute on."""
    import sleap_nn.data.instance_cropping as ic
    import sleap_nn.inference.peak_finding as pf
    from symx.fpast import FloatSlice, F32
    cx, cy = z3.FP("cx", F32), z3.FP("cy", F32)
    s1 = FloatSlice(ic.make_centered_bboxes, {}, ["<return>"], sort=F32, subs={"centroids[..., 0]": cx, "centroids[..., 1]": cy, "box_height": z3.FPVal(bh, F32), "box_width": z3.FPVal(bw, F32)})
    corners = s1.exprs["<return>"]
    subs = {f"bboxes[0, {i}, {j}]": corners[i][j] for i in range(4) for j in range(2)}
    s2 = FloatSlice(pf.crop_bboxes, {}, ["box_size"], sort=F32, subs=subs)
    return (cx, cy), s1, s2


def _run_float_crop(cfg):
    import time
    from symx.harness import Report
    from symx.fpast import F32, fp_model_value
    from symx.xf import EngineGap
    rep = Report(cfg)
    rep.paths = rep.nontrivial_paths = 1
    rep.witness("model-with-visible-and-invisible-node", True)
    name = "FC1-crop-has-the-configured-size-for-every-binary32-centroid"
    bh, bw = cfg["box_h"], cfg["box_w"]
    try:
        (cx, cy), s1, s2 = _crop_size_slice(bh, bw)
        bs = s2.exprs["box_size"]
        if not (isinstance(bs, tuple) and len(bs) == 2):
            raise EngineGap("box_size is not a pair")
    except EngineGap as e:
        rep.record(name, "unknown")
        rep.inconclusive_item("float32-crop", f"slice not extractable from the current source: {e}")
        return rep.finish()
    sol = z3.Solver()
    sol.set("timeout", 240000)
    lo, hi = z3.FPVal(CROP_RANGE[0], F32), z3.FPVal(CROP_RANGE[1], F32)
    sol.add(z3.fpGEQ(cx, lo), z3.fpLEQ(cx, hi), z3.fpGEQ(cy, lo), z3.fpLEQ(cy, hi))
    sol.add(z3.Not(z3.And(z3.fpEQ(bs[0], z3.FPVal(bh, F32)), z3.fpEQ(bs[1], z3.FPVal(bw, F32)))))
    t0 = time.time()
    r = str(sol.check())
    dt = time.time() - t0
    rep.record(name, r, dt)
    if r == "sat":
        mo = sol.model()
        c = [fp_model_value(mo, cx), fp_model_value(mo, cy)]
        rep.violation(name, "float32:crop-size", f"in binary32 the crop cut around centroid {c} is not {bh}x{bw}", {"centroid": c, "slice": dict(s1.source(), **s2.source())})
    elif r != "unsat":
        rep.inconclusive_item(name, "solver returned unknown / timeout")
    rep.sample({"slice": dict(s1.source(), **s2.source()), "centroid_range": list(CROP_RANGE), "box": [bh, bw]})
    return rep.finish(stats={"queries": 1, "solver_s": dt})


# ------------------------------------------------------------------ predictor level
class _FakeReader:
    def __init__(self, frames):
        import queue
        self.frame_buffer = queue.Queue()
        for f in frames:
            self.frame_buffer.put(f)
        self.frame_buffer.put({"image": None, "frame_idx": None, "video_idx": None, "orig_size": None})
        self.labels = type("L", (), {"videos": ["v"]})()
        self.video = "v"

    def start(self):
        pass

    def join(self):
        pass


def _make_predictor(cfg, net):
    """SingleInstancePredictor without a checkpoint: exactly the attributes make_pipeline / _predict_generator read."""
    import sleap_nn.inference.predictors as pr
    import sleap_nn.inference.single_instance as si
    from omegaconf import OmegaConf
    P = pr.SingleInstancePredictor.__new__(pr.SingleInstancePredictor)
    P.confmap_config = OmegaConf.create({"data_config": {"preprocessing": {"scale": cfg["scale"], "max_height": cfg.get("max_hw"), "max_width": cfg.get("max_hw"), "is_rgb": False}},
                                         "model_config": {"backbone_config": {"unet": {"max_stride": cfg["max_stride"]}}}})
    P.backbone_type = "unet"
    P.batch_size = cfg.get("batch", 1)
    P.preprocess_config = None  # the data_config property then returns confmap_config.data_config.preprocessing
    P.instances_key = False
    P.inference_model = si.SingleInstanceInferenceModel(net, output_stride=2, peak_threshold=0.2, refinement=None, input_scale=cfg["scale"])
    return P, pr


def _run_predictor(cfg):
    import torch, numpy as np
    from symx import torchfe as T, xf, oracle
    from symx.xf import XF, And, Or, Not, rcmp
    from symx.explorer import Explorer
    from symx.harness import Report, discharge
    pf, td, si = _install()
    import sleap_nn.inference.predictors as pr
    pr.torch = T.TORCH_PROXY
    rep = Report(cfg)
    N, s = 2, 2
    sizes = [tuple(x) for x in cfg.get("frames", [[cfg["H"], cfg["W"]]])]  # one record batch; frame b has its own size and keypoints
    NF = len(sizes)
    kx = [[z3.Real(f"kx{n}" if NF == 1 else f"kx{b}_{n}") for n in range(N)] for b in range(NF)]
    ky = [[z3.Real(f"ky{n}" if NF == 1 else f"ky{b}_{n}") for n in range(N)] for b in range(NF)]
    # keypoints inside the span of the grid the CORRECT pipeline works on: k*scale <= (G-1)*s with G = int(H*scale)//s
    # (size-matched frames are enlarged by an integral factor here, which only widens that span)
    base = []
    for b, (H, W) in enumerate(sizes):
        span = Fraction((int(H * cfg["scale"]) // s - 1) * s) / Fraction(cfg["scale"])
        base += [z3.And(v >= 0, v <= xf.Q(min(span, Fraction(H - s)))) for v in kx[b] + ky[b]]
    seen = {}

    class Net(torch.nn.Module):
        def forward(self, img):
            with T._disable_current_modes():
                conc = img.materialize() if isinstance(img, T.SymTensor) else img
                geo = [oracle.recover_geometry(conc[b:b + 1]) for b in range(conc.shape[0])]
            seen["given"] = [(tuple(conc.shape[-2:]), g[0], g[1]) for g in geo]
            gh, gw = conc.shape[-2] // s, conc.shape[-1] // s
            vals = []
            for b, (fx, fy, vr, vc) in enumerate(geo):
                for n in range(N):
                    v, cons = oracle.ideal_channel(f"cm{b}_{n}", kx[b][n] * xf.Q(Fraction(fx).limit_denominator(64)), ky[b][n] * xf.Q(Fraction(fy).limit_denominator(64)), gh, gw, s, True)
                    oracle.add_constraints(cons)
                    vals += v
            return T.from_values(vals, (len(geo), N, gh, gw), torch.float32)
    ex = Explorer(base, timeout_ms=120000, max_paths=3000)

    def path():
        with T.SymMode():
            P, prm = _make_predictor(cfg, Net())
            # (1,1,H,W) float ramps already in [0,1]-ish: kept float to preserve the ramp exactly
            reader = _FakeReader([{"image": oracle.ramp_image(H, W), "frame_idx": torch.tensor(b, dtype=torch.int32), "video_idx": torch.tensor(0, dtype=torch.int32),
                                   "orig_size": torch.tensor([float(H), float(W)])} for b, (H, W) in enumerate(sizes)])
            real_lr, real_vr = prm.LabelsReader.from_filename, prm.VideoReader.from_filename
            prm.LabelsReader.from_filename = classmethod(lambda cls, **kw: reader)
            prm.VideoReader.from_filename = classmethod(lambda cls, **kw: reader)
            try:
                P.make_pipeline(cfg["provider"], "dummy")
                outs = list(P._predict_generator())
            finally:
                prm.LabelsReader.from_filename, prm.VideoReader.from_filename = real_lr, real_vr
        return outs, P.preprocess

    def extract(model, env):
        if NF == 1:
            return {"keypoints": [[float(env[f"kx{n}"]), float(env[f"ky{n}"])] for n in range(N)]}
        return {"keypoints": [[[float(env[f"kx{b}_{n}"]), float(env[f"ky{b}_{n}"])] for n in range(N)] for b in range(NF)]}
    for outs, preprocess in ex.run(path):
        rep.paths += 1
        rep.nontrivial_paths += 1
        arr = outs[0]["pred_instance_peaks"]
        pk = arr.values() if isinstance(arr, T.SymTensor) else [XF.of(v) for v in np.asarray(arr).reshape(-1)]
        ok_shape = len(outs) == 1 and len(pk) == NF * N * 2 and len(seen["given"]) == NF
        if not ok_shape:
            rep.record(f"PR1-{cfg['provider']}-returns-original-image-coordinates", "unknown")
            rep.inconclusive_item("predictor", f"unexpected record structure: {len(outs)} record batches, {len(pk)} coordinates")
            continue
        for b in range(NF):
            (shape, fx, fy) = seen["given"][b]
            tol = Fraction(s) / Fraction(fx).limit_denominator(64) / 2  # half a cell of the grid the network actually works on, in original pixels
            for n in range(N):
                o = (b * N + n) * 2
                discharge(ex, rep, f"PR1-{cfg['provider']}-returns-original-image-coordinates", _within(pk[o], pk[o + 1], kx[b][n], ky[b][n], tol),
                          on_sat=lambda m, env, b=b, shape=shape, fx=fx: (f"predictor:{cfg['provider']}:scale{'=1' if cfg['scale'] == 1.0 else '!=1'}" + (":mixed-size-batch" if NF > 1 else ""),
                                                 f"{cfg['provider']} pipeline (preprocess={preprocess}, frame {b} of {NF}: network was given {shape} at content scale {fx:.3g}) returns coordinates that are not the original-image position", extract(m, env)))
        (shape, fx, fy) = seen["given"][0]
        rep.sample({"provider": cfg["provider"], "preprocess_flag": preprocess, "network_input": list(shape), "content_scales": [g[1] for g in seen["given"]]})
    rep.witness("model-with-visible-and-invisible-node", True)
    return rep.finish(extra={"ops": sorted(T.OPS_USED)})


# ------------------------------------------------------------------ replay: a real Gaussian network (numeric), real torch / kornia
def _gauss_maps(points_in, gh, gw, stride, sigma=1.0):
    import torch
    yy, xx = torch.meshgrid(torch.arange(gh, dtype=torch.float32) * stride, torch.arange(gw, dtype=torch.float32) * stride, indexing="ij")
    out = []
    for (x, y, vis) in points_in:
        out.append(torch.exp(-((xx - x) ** 2 + (yy - y) ** 2) / (2 * (sigma * stride) ** 2)) if vis else torch.zeros(gh, gw))
    return torch.stack(out)


def replay(cfg, inputs, obligation):
    import torch, numpy as np
    import sleap_nn.inference.single_instance as si
    import sleap_nn.inference.topdown as td
    if cfg["kind"] == "float32-crop":
        import sleap_nn.inference.peak_finding as pf_
        from sleap_nn.data.instance_cropping import make_centered_bboxes
        from symx.harness import unjson_float
        bh, bw = cfg["box_h"], cfg["box_w"]
        c = torch.tensor([unjson_float(inputs["centroid"])], dtype=torch.float32)
        boxes = make_centered_bboxes(c, bh, bw)
        crops = pf_.crop_bboxes(torch.zeros(1, 1, 32, 32), boxes, sample_inds=[0])
        got = tuple(crops.shape[-2:])
        return got != (bh, bw), f"crop around centroid {c.tolist()} has size {got}, configured {(bh, bw)}"
    if cfg["kind"] == "single":
        G, s, isc, eff, B = cfg["G"], cfg["stride"], cfg["input_scale"], cfg["eff"], cfg["batch"]
        K, V = inputs["keypoints"], inputs["visible"]

        class Net(torch.nn.Module):
            def forward(self, img):
                return torch.stack([_gauss_maps([(k[0] * eff * isc, k[1] * eff * isc, v) for k, v in zip(K[b], V[b])], G, G, s) for b in range(B)])
        m = si.SingleInstanceInferenceModel(Net(), output_stride=s, peak_threshold=0.2, refinement=cfg["refinement"], integral_patch_size=3, input_scale=isc)
        out = m({"image": torch.zeros(B, 1, 1, G * s, G * s), "eff_scale": torch.tensor([eff] * B)})[0]
        cell = s / (isc * eff)
        tol = cell / 2 if cfg["refinement"] is None else cell / 2 + cell
        pk, pv = out["pred_instance_peaks"], out["pred_peak_values"]
        for b in range(B):
            for n in range(2):
                if V[b][n]:
                    if torch.isnan(pk[b, n]).any() or (pk[b, n] - torch.tensor(K[b][n])).abs().max() > tol + 1e-4:
                        return True, f"sample {b} node {n}: predicted {pk[b, n].tolist()} truth {K[b][n]} tolerance {tol}"
                elif not (torch.isnan(pk[b, n]).all() and pv[b, n] == 0):
                    return True, f"sample {b} node {n} invisible but predicted {pk[b, n].tolist()} value {pv[b, n]}"
        return False, "all keypoints within tolerance"
    if cfg["kind"] == "topdown":
        H, W, cs, is_, crop = cfg["H"], cfg["W"], cfg["cstride"], cfg["istride"], cfg["crop"]
        csc, isc, eff = cfg["c_scale"], cfg["i_scale"], cfg["eff"]
        K = inputs["keypoints"]

        class CNet(torch.nn.Module):
            def forward(self, img):
                gh, gw = img.shape[-2] // cs, img.shape[-1] // cs
                return _gauss_maps([(K[0][0] * eff * csc, K[0][1] * eff * csc, True)], gh, gw, cs)[None]

        class INet(torch.nn.Module):
            tl = None

            def forward(self, img):
                gh, gw = img.shape[-2] // is_, img.shape[-1] // is_
                return _gauss_maps([(k[0] * eff * isc - float(self.tl[0]), k[1] * eff * isc - float(self.tl[1]), True) for k in K], gh, gw, is_)[None]
        inet = INet()
        cc = td.CentroidCrop(CNet(), output_stride=cs, peak_threshold=0.2, max_instances=None, refinement=None, return_crops=True, crop_hw=(crop, crop), input_scale=csc, max_stride=1)
        fip = td.FindInstancePeaks(inet, output_stride=is_, peak_threshold=0.2, refinement=None, input_scale=isc, max_stride=1)
        cc.precrop_resize = isc  # as TopDownPredictor._initialize_inference_model does
        fip.register_forward_pre_hook(lambda mod, args: setattr(inet, "tl", args[0]["instance_bbox"].reshape(-1, 2)[0]))
        out = td.TopDownInferenceModel(cc, fip)({"image": torch.zeros(1, 1, 1, H, W), "frame_idx": torch.tensor([0]), "video_idx": torch.tensor([0]), "orig_size": torch.tensor([[H, W]]), "eff_scale": torch.tensor([eff])})
        if out is None or len(out) != 1:
            return True, f"{None if out is None else len(out)} instances"
        o = out[0]
        pred = o["pred_instance_peaks"][0] + o["instance_bbox"].reshape(-1, 2)[0]
        tol = is_ / (isc * eff) / 2
        bad = (pred - torch.tensor(K)).abs().max() > tol + 1e-4
        return bool(bad), f"predicted {pred.tolist()} truth {K} tolerance {tol}"
    # predictor level: real Gaussian network that reads the scale from the ramp image it is given
    from symx import oracle
    import sleap_nn.inference.predictors as pr
    K = inputs["keypoints"]
    sizes = [tuple(x) for x in cfg.get("frames", [[cfg["H"], cfg["W"]]])]
    if len(sizes) == 1:
        K = [K]
    info = {}

    class Net(torch.nn.Module):
        def forward(self, img):
            geo = [oracle.recover_geometry(img[b:b + 1]) for b in range(img.shape[0])]
            info["given"] = (tuple(img.shape[-2:]), [g[0] for g in geo])
            gh, gw = img.shape[-2] // 2, img.shape[-1] // 2
            return torch.stack([_gauss_maps([(k[0] * fx, k[1] * fy, True) for k in K[b]], gh, gw, 2) for b, (fx, fy, _, _) in enumerate(geo)])
    P, prm = _make_predictor(cfg, Net())
    reader = _FakeReader([{"image": oracle.ramp_image(H, W), "frame_idx": torch.tensor(b, dtype=torch.int32), "video_idx": torch.tensor(0, dtype=torch.int32), "orig_size": torch.tensor([float(H), float(W)])}
                          for b, (H, W) in enumerate(sizes)])
    real_lr, real_vr = prm.LabelsReader.from_filename, prm.VideoReader.from_filename
    prm.LabelsReader.from_filename = classmethod(lambda cls, **kw: reader)
    prm.VideoReader.from_filename = classmethod(lambda cls, **kw: reader)
    try:
        P.make_pipeline(cfg["provider"], "dummy")
        outs = list(P._predict_generator())
    finally:
        prm.LabelsReader.from_filename, prm.VideoReader.from_filename = real_lr, real_vr
    pred = torch.as_tensor(outs[0]["pred_instance_peaks"])[:len(sizes)]
    tols = torch.tensor([2 / fx / 2 for fx in info["given"][1]]).reshape(-1, 1, 1)
    bad = ((pred - torch.tensor(K)).abs() > tols + 1e-3).any()
    return bool(bad), f"{cfg['provider']} (preprocess={P.preprocess}, scale={cfg['scale']}): network given {info['given']}, predicted {pred.tolist()} truth {K} tolerance {tols.reshape(-1).tolist()}"
