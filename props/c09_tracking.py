"""C09 -- tracking never drops, duplicates or double-assigns detections, never crashes."""
from __future__ import annotations
import itertools, re
from fractions import Fraction
import z3
from . import tracking_common as TC

ID = "C09"
FUNCTIONS = TC.FUNCTIONS
EXPLANATION = ("Bounded symbolic execution of the real Tracker over a symbolic history: the presence of each of K animals in each of F frames, the listing "
               "order, the instance scores (vs the new-track threshold) and one symbolic association score per (detection, stored feature) pair are solver "
               "variables; matching (symbolic Hungarian / greedy argsort) forks on score order. After every track() call on every feasible path: no "
               "exception; every input detection above the threshold is returned exactly once with a track; nothing foreign or duplicated is returned; no "
               "two detections of a frame share a track.")
ASSUMPTIONS = ["association scores are finite reals in [0,1] (oks/iou range) or <= 0 (negative distance): NaN scores only arise from stale tracks (real nanmean([]) semantics kept)",
               "features are tagged stand-ins and the scoring function returns one fresh symbolic value per pair, so the result holds for every feature/score combination whose values lie in the range",
               "detections are duck-typed objects exposing .numpy()/.score/.track/.tracking_score; sio.Track is the real class",
               "class-level shared Tracker._track_objects is reset per history (a fresh process per video)"]
STUBS = TC.STUBS
OUTSIDE = ["more than 3 animals / 4 frames", "FlowShiftTracker (optical flow through OpenCV)", "max_tracks limit of local queues", "image features"]
REQUIRED_WITNESSES = ["history-with-empty-frame", "history-with-reappearing-animal", "history-with-single-detection-frame"]


def bounds(tier):
    return {"animals K": "2" if tier == "quick" else "3 (Hungarian) / 2 (greedy)", "frames F": "3" if tier == "quick" else "3, 4 (Hungarian, K=2)", "candidates": ["fixed_window", "local_queues"], "matching": ["hungarian", "greedy"],
            "reduction": ["mean", "max"], "window": "{1, 2, F+1}", "threshold": "0.0 with fixed instance score 0.9; 0.5 with symbolic instance scores",
            "listing order": "as numbered or reversed, per frame"}


def configs(tier, seed):
    out = []
    F = 3
    for cand in ("fixed_window", "local_queues"):
        for matching in ("hungarian", "greedy"):
            # three animals / four frames only with the Hungarian matcher: greedy sorts all symbolic scores of a frame and exceeded the path budget (60000) after ~22 min per configuration
            K = 3 if (tier == "thorough" and matching == "hungarian") else 2
            for reduction, window in (("mean", F + 1), ("max", 2), ("mean", 1)):
                out.append(dict(K=K, F=F, cand=cand, matching=matching, reduction=reduction, window=window, thr=0.0))
            if matching == "hungarian" or tier == "thorough":
                out.append(dict(K=2, F=3, cand=cand, matching=matching, reduction="mean", window=4, thr=0.5, sym_inst_scores=True, max_paths=400000))
            # detections whose pose is entirely missing (every association score NaN), two frames
            out.append(dict(K=2, F=2, cand=cand, matching=matching, reduction="mean", window=3, thr=0.0, nan_pose=True))
            if tier == "thorough" and matching == "hungarian":
                out.append(dict(K=2, F=4, cand=cand, matching=matching, reduction="mean", window=2, thr=0.0))
                out.append(dict(K=3, F=3, cand=cand, matching=matching, reduction="max", window=2, thr=0.0, score_range="neg"))
    return out


def check_history(cfg, hist):
    """concrete oracle on the last frame of a history [(dets, out)]: returns None or a description."""
    dets, out = hist[-1]
    thr = cfg.get("thr", 0.0)
    ids = [id(o) for o in out]
    if len(set(ids)) != len(ids):
        return "a detection is returned twice"
    if not set(ids) <= {id(d) for d in dets}:
        return "a detection that was not given is returned"
    for d in dets:
        above = getattr(d, "above", None)
        if above is None:
            above = d.score > thr
        if above:
            if id(d) not in ids:
                return f"detection of animal {d.animal} (score above threshold) is not returned"
            if d.track is None:
                return f"detection of animal {d.animal} (score above threshold) is returned without a track"
    names = [o.track.name for o in out if o.track is not None]
    if len(set(names)) != len(names):
        return f"two detections of the frame share track {names}"
    return None


def _signature(cfg, kind, detail, hist, dets):
    n_prev = len({o.track.name for d_, out in hist for o in out if o.track is not None}) if hist else 0
    return f"{kind}:{detail}:{cfg['cand']}:{cfg['matching']}"


def run_config(cfg):
    from symx import xf
    from symx.xf import XF
    from symx.explorer import model_env, DefaultEnv
    from symx.harness import Report
    rep = Report(cfg)
    K, F = cfg["K"], cfg["F"]
    sym = cfg.get("sym_inst_scores", False)
    thr = cfg.get("thr", 0.0)

    def on_frame(ex, hist, dets, out, phase):
        if phase != "post":
            return None
        if sym:
            for d in dets:
                if not hasattr(d, "above"):
                    d.above = ex.decide((d.score > thr).b)
        return check_history(cfg, hist)

    ex, path, SC = TC.explore(cfg, rep, False, on_frame)

    def extract(env):
        d = {"frames": TC.history_of(ex, env, K, F, sym)}
        d["scores"] = {",".join(map(str, k)): float(env[v.decl().name()]) for k, v in SC.items()}
        return d
    for r in ex.run(path):
        rep.paths += 1
        rep.nontrivial_paths += 1
        hist = r[-1] if r[0] in ("OK", "STOP") else r[3]
        pres = [[d.animal for d in ds] for ds, _ in hist]
        rep.witness("history-with-empty-frame", any(len(p) == 0 for p in pres))
        rep.witness("history-with-single-detection-frame", any(len(p) == 1 for p in pres))
        rep.witness("history-with-reappearing-animal", any(a in pres[i] and a not in pres[i + 1] and a in pres[i + 2] for i in range(len(pres) - 2) for a in range(K)))
        if r[0] == "OK":
            rep.record("O1-every-frame-conserves-detections-and-tracks-are-distinct", "unsat")
            rep.record("T-no-exception", "unsat")
            rep.sample({"history": pres, "tracks": [[(o.animal, o.track.name if o.track else None) for o in out] for _, out in hist]})
            continue
        m = ex.full_model()
        env = DefaultEnv(model_env(m))
        if r[0] == "EXC":
            e = r[2]
            msg = re.sub(r"[^A-Za-z ]", "", str(e))[:40].strip()
            rep.record("T-no-exception", "sat")
            rep.violation("T-no-exception", f"exception:{type(e).__name__}:{msg}:{cfg['cand']}:{cfg['matching']}",
                          f"track() raised {type(e).__name__}: {str(e)[:100]} at frame {r[1]} after history {pres} with detections {[d.animal for d in r[4]]}", extract(env))
        else:
            what = r[2]
            kind = "dropped" if "not returned" in what else "untracked" if "without a track" in what else "shared-track" if "share" in what else "other"
            rep.record("O1-every-frame-conserves-detections-and-tracks-are-distinct", "sat")
            rep.violation("O1-every-frame-conserves-detections-and-tracks-are-distinct", f"{kind}:{cfg['cand']}:{cfg['matching']}", f"{what}; history {pres}", extract(env))
    rep.infeasible_paths = ex.infeasible
    if ex.truncated:
        rep.inconclusive_item("history", "path budget exhausted")
    return rep.finish()


def replay(cfg, inputs, obligation):
    def check(cfg_, hist):
        return check_history(cfg_, hist)
    ok, detail = TC.replay_history(cfg, inputs, check)
    return ok, detail
