"""C20 -- config builders reflect every argument; normalisation is lossless and idempotent; validators reject
invalid values.  Pure-Python code over ints/floats/bools/lists of names: CrossHair (z3) executes the REAL builders,
attrs validators and the OmegaConf structured merge symbolically under the contracts in props/c20_contracts.py."""
from __future__ import annotations
import json

ID = "C20"
FUNCTIONS = [("sleap_nn.train", "get_aug_config"), ("sleap_nn.train", "get_backbone_config"), ("sleap_nn.train", "get_head_configs"), ("sleap_nn.train", "get_data_config"),
             ("sleap_nn.train", "get_model_config"), ("sleap_nn.train", "get_trainer_config"), ("sleap_nn.config.training_job_config", "TrainingJobConfig.to_sleap_nn_cfg"),
             ("sleap_nn.config.training_job_config", "verify_training_cfg"), ("sleap_nn.config.data_config", "validate_proportion"),
             ("sleap_nn.config.data_config", "PreprocessingConfig.validate_scale"), ("sleap_nn.config.utils", "oneof")]
EXPLANATION = ("CrossHair symbolic execution (z3) of the real config builders under PEP-316 contracts: augmentation-name lists are symbolic List[str] (<=3 names, any "
               "order, repeats allowed), scalar builder arguments are symbolic ints/floats/bools in their documented ranges, and the post-condition compares "
               "every documented place of verify_training_cfg(...)'s result with the argument. 'Confirmed over all paths' is required. Unknown-backbone / "
               "two-backbones / two-heads rejection and schema defaults have no symbolic input and are decided by direct evaluation.")
ASSUMPTIONS = ["CrossHair models Python floats as reals and ints as mathematical integers", "string/path arguments are concrete (YAML/OmegaConf string handling realises symbolic str)",
               "OmegaConf/attrs are executed for real under CrossHair's interception; values crossing into C (e.g. yaml) are realised"]
STUBS = ["loguru logger in sleap_nn.train / config modules -> no-op (CrossHair's datetime patches break loguru's record formatting)"]
OUTSIDE = ["the YAML text save/load round trip (symbolic values are realised at the serialiser: only a concrete spot check is made)", "augmentation lists longer than 3", "dict-valued augmentation arguments"]
REQUIRED_WITNESSES = []
BUDGET_S = {"quick": 1800, "thorough": 3600}

CONTRACTS = ["geometric_names_all_enabled", "intensity_names_all_enabled", "data_args_reach_their_place_a", "data_args_reach_their_place_b", "trainer_args_reach_their_place_a",
             "trainer_args_reach_their_place_b", "trainer_args_reach_their_place_c", "trainer_args_reach_their_place_d", "backbone_dict_reaches_its_place_a", "normalisation_is_idempotent",
             "backbone_presets_do_not_share_state", "head_presets_do_not_share_state", "scheduler_dict_reaches_its_place"]


def bounds(tier):
    return {"augmentation name lists": "<= 3 names over the legal names", "ints/floats": "documented ranges (see the pre: lines of props/c20_contracts.py)",
            "per_condition_timeout_s": 150 if tier == "quick" else 900}


def configs(tier, seed):
    out = [dict(kind="contract", name=n, timeout=1200 if tier == "quick" else 1500) for n in CONTRACTS]
    out.append(dict(kind="concrete"))
    out.append(dict(kind="validators"))
    return out


def _quiet():
    import sleap_nn.train as T
    import sleap_nn.config.data_config as dc
    import sleap_nn.config.utils as cu
    import sleap_nn.config.model_config as mc
    import sleap_nn.config.trainer_config as tc

    class _L:
        def __getattr__(self, k):
            return lambda *a, **kw: None
    for m in (T, dc, cu, mc, tc):
        if hasattr(m, "logger"):
            m.logger = _L()


def run_config(cfg):
    from symx.harness import Report
    rep = Report(cfg)
    _quiet()
    if cfg["kind"] == "concrete":
        return _concrete(cfg, rep)
    if cfg["kind"] == "validators":
        return _validators(cfg, rep)
    from symx import chrunner
    from props import c20_contracts as C
    fn = getattr(C, cfg["name"])
    C.warm()
    r = chrunner.run_contract(fn, per_condition_timeout=cfg["timeout"], per_path_timeout=240)  # generous: one slow path under load turned a 70 s contract into CANNOT_CONFIRM once
    rep.paths = 1
    rep.nontrivial_paths = 1
    name = f"CH-{cfg['name']}"
    if r["state"] == "CONFIRMED":
        rep.record(name, "unsat", r["solver_s"])
    elif r["state"] == "REFUTED":
        rep.record(name, "sat", r["solver_s"])
        ce = r.get("counterexample") or {}
        sig = f"{cfg['name']}"
        if cfg["name"] == "geometric_names_all_enabled" and (ce.get("kwargs") is not None or ce.get("args")):
            names = (ce.get("kwargs") or {}).get("names") or (ce.get("args") or [[]])[0]
            aff = [n for n in names if n in ("rotation", "scale", "translate")]
            sig += ":affine-names-reset-each-other" if len(set(aff)) > 1 else ":other"
        rep.violation(name, sig, f"CrossHair: {r['message'][:300]}", {"contract": cfg["name"], "call": ce})
    else:
        rep.record(name, "unknown", r["solver_s"])
        rep.inconclusive_item(name, f"CrossHair state {r['state']}: {json.dumps(r['messages'])[:400]}")
    rep.sample({"contract": cfg["name"], "crosshair_state": r["state"], "queries": r["queries"], "seconds": r["seconds"], "messages": r["messages"][:2]})
    return rep.finish(stats={"queries": r["queries"], "solver_s": r["solver_s"]})


def _concrete(cfg, rep):
    """no symbolic input exists for these: decided by direct evaluation of the real code."""
    import sleap_nn.train as T
    from omegaconf import OmegaConf
    from sleap_nn.config.training_job_config import TrainingJobConfig, verify_training_cfg
    from sleap_nn.config.model_config import BackboneConfig, HeadConfig, UNetConfig, ConvNextConfig, SingleInstanceConfig, CentroidConfig, ModelConfig
    checks = []

    def raises(f, exc=(ValueError, KeyError, TypeError)):
        try:
            f()
            return False
        except exc:
            return True
    checks.append(("unknown-backbone-name-rejected", raises(lambda: T.get_backbone_config("resnet50")) and raises(lambda: T.get_backbone_config("unet_huge"))))
    checks.append(("unknown-head-name-rejected", raises(lambda: T.get_head_configs("topdown"))))
    checks.append(("two-backbones-rejected", raises(lambda: BackboneConfig(unet=UNetConfig(), convnext=ConvNextConfig()))))
    checks.append(("two-heads-rejected", raises(lambda: HeadConfig(single_instance=SingleInstanceConfig(), centroid=CentroidConfig()))))
    # ... also when some or all of them are passed positionally
    checks.append(("two-backbones-rejected-positional", raises(lambda: BackboneConfig(UNetConfig(), ConvNextConfig())) and raises(lambda: BackboneConfig(UNetConfig(), convnext=ConvNextConfig()))))
    checks.append(("two-heads-rejected-positional", raises(lambda: HeadConfig(SingleInstanceConfig(), CentroidConfig())) and raises(lambda: HeadConfig(SingleInstanceConfig(), centroid=CentroidConfig()))))
    checks.append(("one-backbone-or-head-accepted", (not raises(lambda: BackboneConfig(UNetConfig()))) and (not raises(lambda: HeadConfig(centroid=CentroidConfig()))) and (not raises(lambda: BackboneConfig(convnext=ConvNextConfig())))))
    checks.append(("invalid-pretrained-weights-rejected", raises(lambda: ModelConfig(pre_trained_weights="not_a_weight", backbone_config=T.get_backbone_config("convnext")))))
    # defaults: a builder call without optional arguments equals the schema defaults everywhere except the required paths and chosen backbone/head
    c = verify_training_cfg(TrainingJobConfig(data_config=T.get_data_config(train_labels_path="a.slp", val_labels_path="b.slp"),
                                              model_config=T.get_model_config(backbone_config="unet", head_configs="single_instance"), trainer_config=T.get_trainer_config()).to_sleap_nn_cfg())
    from sleap_nn.config.data_config import DataConfig
    from sleap_nn.config.trainer_config import TrainerConfig
    d0 = OmegaConf.to_container(OmegaConf.structured(DataConfig(train_labels_path="a.slp", val_labels_path="b.slp")))
    t0 = OmegaConf.to_container(OmegaConf.structured(TrainerConfig()))
    checks.append(("data-defaults-equal-schema-defaults", OmegaConf.to_container(c.data_config) == d0))
    from props import c20_contracts as CC_
    checks.append(("builder-defaults-are-fresh-objects-on-every-call", CC_.defaults_do_not_share_state(1) and CC_.defaults_do_not_share_state(7)))
    # trainer options that are builder arguments carry the builder's own documented defaults (batch_size=4, max_epochs=100, ...);
    # every option that is NOT a builder argument must equal the schema default
    owned = ("seed", "max_epochs", "early_stopping", "model_ckpt", "lr_scheduler", "enable_progress_bar", "train_data_loader", "val_data_loader", "optimizer", "optimizer_name",
             "use_wandb", "wandb", "save_ckpt", "save_ckpt_path", "resume_ckpt_path", "trainer_devices", "trainer_accelerator", "steps_per_epoch")
    tcur = OmegaConf.to_container(c.trainer_config)
    unowned_ok = all(tcur.get(k) == v for k, v in t0.items() if k not in owned) and set(tcur) == set(t0)
    wb0 = t0.get("wandb") or {}
    wb = tcur.get("wandb") or {}
    unowned_ok = unowned_ok and all(wb.get(k) == v for k, v in wb0.items() if k not in ("entity", "project", "name", "api_key", "wandb_mode", "prv_runid", "group"))
    checks.append(("options-that-are-not-builder-arguments-equal-schema-defaults", unowned_ok))
    # YAML round trip (concrete spot check only: outside the symbolic claim)
    import tempfile, os
    with tempfile.TemporaryDirectory() as td:
        p = os.path.join(td, "c.yaml")
        OmegaConf.save(c, p)
        c2 = verify_training_cfg(OmegaConf.load(p))
    checks.append(("yaml-round-trip-spot-check", OmegaConf.to_container(c2) == OmegaConf.to_container(c)))
    from props import c20_contracts as CC
    checks.append(("backbone-and-head-strides-reach-their-place[finite grid 3x3]", all(CC.backbone_dict_reaches_its_place_b(ms, os_) for ms in (8, 16, 32) for os_ in (1, 2, 4))))
    checks.append(("normalisation-idempotent-on-the-whole-default-config", OmegaConf.to_container(verify_training_cfg(c)) == OmegaConf.to_container(c)))
    for name, ok in checks:
        rep.paths += 1
        rep.record(f"D-{name}", "unsat" if ok else "sat")
        if not ok:
            rep.violation(f"D-{name}", f"direct:{name}", f"direct evaluation failed: {name}", {"contract": "concrete", "check": name})
    rep.nontrivial_paths = rep.paths
    rep.sample({"direct_checks": [n for n, _ in checks]})
    return rep.finish()


def _validators(cfg, rep):
    """attrs validators on a symbolic float (plain Python comparisons): our own explorer forks on them, so the error-message
    f-string does not force a realisation (as it does under CrossHair)."""
    import z3
    from symx import xf
    from symx.xf import XF, And, Or, Not, rcmp
    from symx.explorer import Explorer, model_env, DefaultEnv
    from sleap_nn.config.data_config import IntensityConfig, GeometricConfig, PreprocessingConfig
    makers = {"uniform_noise_p": lambda p: IntensityConfig(uniform_noise_p=p), "gaussian_noise_p": lambda p: IntensityConfig(gaussian_noise_p=p),
              "contrast_p": lambda p: IntensityConfig(contrast_p=p), "brightness_p": lambda p: IntensityConfig(brightness_p=p),
              "affine_p": lambda p: GeometricConfig(affine_p=p), "erase_p": lambda p: GeometricConfig(erase_p=p), "mixup_p": lambda p: GeometricConfig(mixup_p=p)}
    for name, mk in makers.items():
        ex = Explorer([], timeout_ms=20000)
        pv = z3.Real("p")
        pn = z3.Bool("p#nan")  # the probability may also be NaN (a float that is neither < 0 nor > 1)

        def path(mk=mk):
            try:
                mk(XF(pv, pn))
                return "accepted"
            except ValueError:
                return "rejected"
        for res in ex.run(path):
            rep.paths += 1
            rep.nontrivial_paths += 1
            inrange = And(Not(pn), rcmp(">=", pv, 0), rcmp("<=", pv, 1))
            goal = inrange if res == "accepted" else Not(inrange)
            v = ex.prove(goal)
            rep.record("V1-probability-accepted-iff-in-0-1", v.status, v.seconds)
            if v.status == "sat":
                env = DefaultEnv(model_env(v.model))
                val = float("nan") if env["p#nan"] else float(env["p"])
                rep.violation("V1-probability-accepted-iff-in-0-1", f"validator:{name}", f"{name}={val} was {res}", {"contract": "validator", "field": name, "value": "nan" if val != val else val})
            elif v.status == "unknown":
                rep.inconclusive_item("V1", "unknown")
    # scale: a float >= 0 or a list of floats >= 0 is accepted, anything else rejected.  The validator tests isinstance(x, float), so the symbolic
    # value is carried by a float SUBCLASS whose comparisons are symbolic (the explorer forks on them)
    class SymFloat(float):
        def __new__(cls, x):
            o = float.__new__(cls, 0.0)
            o.x = x
            return o

        def __ge__(self, o):
            return self.x >= o

        def __gt__(self, o):
            return self.x > o

        def __le__(self, o):
            return self.x <= o

        def __lt__(self, o):
            return self.x < o

    for shape in ("scalar", "list2"):
        ex = Explorer([], timeout_ms=20000)
        names = ["s0"] if shape == "scalar" else ["s0", "s1"]
        vs = [(z3.Real(n), z3.Bool(n + "#nan")) for n in names]

        def path(shape=shape, vs=vs):
            vals = [SymFloat(XF(v, fl)) for v, fl in vs]
            try:
                PreprocessingConfig(scale=vals[0] if shape == "scalar" else vals)
                return "accepted"
            except ValueError:
                return "rejected"
        for res in ex.run(path):
            rep.paths += 1
            rep.nontrivial_paths += 1
            valid = And(*[And(Not(fl), rcmp(">=", v, 0)) for v, fl in vs])
            goal = valid if res == "accepted" else Not(valid)
            v_ = ex.prove(goal)
            rep.record("V2-scale-accepted-iff-every-entry-is-a-float-ge-0", v_.status, v_.seconds)
            if v_.status == "sat":
                env = DefaultEnv(model_env(v_.model))
                val = [("nan" if env[n + "#nan"] else float(env[n])) for n in names]
                rep.violation("V2-scale-accepted-iff-every-entry-is-a-float-ge-0", f"validator:scale:{shape}", f"scale={val if shape != 'scalar' else val[0]} was {res}",
                              {"contract": "validator", "field": "scale", "value": val if shape != "scalar" else val[0]})
            elif v_.status == "unknown":
                rep.inconclusive_item("V2", "unknown")
    rep.sample({"validators": list(makers) + ["scale"]})
    return rep.finish()


def replay(cfg, inputs, obligation):
    _quiet()
    if inputs.get("contract") == "validator":
        from sleap_nn.config.data_config import IntensityConfig, GeometricConfig, PreprocessingConfig
        f, v = inputs["field"], inputs["value"]
        v = [float("nan") if x == "nan" else float(x) for x in v] if isinstance(v, list) else (float("nan") if v == "nan" else v)
        try:
            if f == "scale":
                PreprocessingConfig(scale=v)
            elif f in ("affine_p", "erase_p", "mixup_p"):
                GeometricConfig(**{f: v})
            else:
                IntensityConfig(**{f: v})
            acc = True
        except ValueError:
            acc = False
        want = (all(x >= 0 for x in v) if isinstance(v, list) else (v >= 0)) if f == "scale" else (0.0 <= v <= 1.0)
        return acc != want, f"{f}={v}: accepted={acc}, should be accepted={want}"
    if inputs.get("contract") == "concrete":
        from symx.harness import Report
        r = _concrete({}, Report({}))
        bad = [v for v in r["violations"] if v["inputs"]["check"] == inputs["check"]]
        return bool(bad), f"direct check {inputs['check']}: {'fails' if bad else 'passes'}"
    from props import c20_contracts as C
    fn = getattr(C, inputs["contract"])
    call = inputs.get("call") or {}
    if "kwargs" not in call:
        return False, f"counterexample could not be parsed: {call}"
    try:
        res = fn(*call.get("args", []), **call["kwargs"])
    except Exception as e:
        return True, f"{inputs['contract']}{call.get('src', '')} raised {type(e).__name__}: {e}"
    return (res is False), f"{call.get('src')} -> {res}"
