"""C06 -- multi-peak detection returns exactly the strict local maxima above threshold; integral refinement keeps
count/order/indices and moves each point by at most half a patch.

The real find_local_peaks_rough (through the real kornia dilation), find_local_peaks, crop_bboxes,
make_centered_bboxes and integral_regression run on fully symbolic maps (one unconstrained Real per cell)."""
from __future__ import annotations
import itertools
from fractions import Fraction
import z3

ID = "C06"
FUNCTIONS = [("sleap_nn.inference.peak_finding", "find_local_peaks_rough"), ("sleap_nn.inference.peak_finding", "find_local_peaks"),
             ("sleap_nn.inference.peak_finding", "crop_bboxes"), ("sleap_nn.inference.peak_finding", "integral_regression"),
             ("sleap_nn.data.instance_cropping", "make_centered_bboxes")]
EXPLANATION = ("Bounded symbolic execution of the real multi-peak detector on maps whose every cell is an unconstrained real (ties, plateaus, negatives, "
               "border maxima are all inside the quantified space). The NMS mask is forked pattern-at-a-time (model guided); on every feasible pattern z3 "
               "shows the returned set equals {cells > threshold and > all <=8 neighbours}, each once with its sample/channel/value; with integral "
               "refinement: same count/order/indices and |offset| <= (P-1)/2.")
ASSUMPTIONS = ["finite real arithmetic (comparisons and max do not round, so the rough stage is exact); map values are finite (no NaN/inf cells)",
               "kornia.geometry.transform.crop_and_resize is replaced by the validated axis-aligned bilinear crop model (symx.stubs.crop_and_resize_model)",
               "thresholds are concrete members of the configuration grid"]
STUBS = ["peak_finding.crop_and_resize -> symx.stubs.crop_and_resize_model (validated against real kornia on seeded inputs in this run)",
         "peak_finding.torch -> proxy whose legacy torch.Tensor(...) constructor accepts symbolic content"]
OUTSIDE = ["maps larger than 4x4 cells or batches with more than 8 maps", "NaN/inf map values", "float32 rounding inside integral regression"]
REQUIRED_WITNESSES = ["path-with-a-peak", "path-without-peaks"]


def bounds(tier):
    return {"shapes(S,C,H,W)": _shapes(tier), "thresholds": [-0.5, 0.0, 0.2], "patch_sizes": [3, 5], "cell values": "unbounded reals"}


def _shapes(tier):
    q = [(1, 1, 3, 3), (2, 2, 1, 2), (1, 2, 1, 4), (2, 1, 3, 2), (1, 1, 1, 1), (1, 1, 2, 3)]
    if tier == "thorough":
        q += [(1, 1, 4, 4), (2, 2, 2, 2), (1, 2, 2, 3), (1, 1, 3, 5), (1, 3, 2, 2), (3, 1, 1, 3), (1, 1, 4, 3)]
    return q


def configs(tier, seed):
    out = []
    for shp in _shapes(tier):
        for thr in ([0.2, 0.0, -0.5] if tier == "thorough" or shp in ((1, 1, 3, 3), (1, 2, 1, 4)) else [0.2]):
            out.append(dict(shape=list(shp), thr=thr, refinement=None, patch=0))
    ref_shapes = [(1, 1, 3, 3), (1, 2, 1, 4), (2, 1, 2, 2), (1, 1, 1, 1)] + ([(2, 2, 2, 2), (1, 1, 3, 4), (2, 1, 3, 2)] if tier == "thorough" else [])
    for shp in ref_shapes:
        for P in (3, 5):
            for thr in ([0.2, -0.5, 0.0] if shp == (1, 1, 3, 3) or tier == "thorough" else [0.2]):
                out.append(dict(shape=list(shp), thr=thr, refinement="integral", patch=P))
    for shp, P in ([((1, 1, 3, 3), 4), ((1, 2, 1, 4), 2)] + ([((2, 1, 2, 2), 4), ((1, 1, 3, 3), 6)] if tier == "thorough" else [])):  # even patch sizes
        out.append(dict(shape=list(shp), thr=0.2, refinement="integral", patch=P))
    out.append(dict(shape=None, validate=True, seed=seed))
    return out


def _install():
    import sleap_nn.inference.peak_finding as pf
    from symx import torchfe as T, stubs
    T.install_patches()
    pf.torch = T.TORCH_PROXY
    pf.crop_and_resize = stubs.crop_and_resize_model
    return pf


class _RealEnv:
    """temporarily restore the real torch / kornia in peak_finding (for the concrete side of a differential run)."""

    def __enter__(self):
        import torch, importlib
        import sleap_nn.inference.peak_finding as pf
        self.saved = (pf.torch, pf.crop_and_resize)
        pf.torch = torch
        pf.crop_and_resize = importlib.import_module("kornia.geometry.transform").crop_and_resize

    def __exit__(self, *a):
        import sleap_nn.inference.peak_finding as pf
        pf.torch, pf.crop_and_resize = self.saved


def _real(f):
    def g(*a):
        with _RealEnv():
            return f(*a)
    return g


def _brute_cond(cv, S, C, H, W, thr, s, c, i, j):
    from symx.xf import And, rcmp
    v = cv[((s * C + c) * H + i) * W + j].v
    nb = [cv[((s * C + c) * H + a) * W + b].v for a in range(max(0, i - 1), min(H, i + 2)) for b in range(max(0, j - 1), min(W, j + 2)) if (a, b) != (i, j)]
    return And(rcmp(">", v, Fraction(thr)), *[rcmp(">", v, n) for n in nb])


def run_config(cfg):
    if cfg.get("validate"):
        return _validate(cfg)
    import torch
    from symx import torchfe as T, xf
    from symx.xf import XF, And, Or, Not, rcmp, xeq_term
    from symx.explorer import Explorer
    from symx.harness import Report, discharge
    pf = _install()
    rep = Report(cfg)
    S, C, H, W = cfg["shape"]
    thr = cfg["thr"]
    P = cfg["patch"]
    ex = Explorer([], timeout_ms=60000)

    def path():
        with T.SymMode():
            cms = T.sym_float_tensor("c", (S, C, H, W))
            rough = pf.find_local_peaks_rough(cms, threshold=thr)
            res = pf.find_local_peaks(cms, threshold=thr, refinement=cfg["refinement"], integral_patch_size=P) if cfg["refinement"] else None
            plain = pf.find_local_peaks(cms, threshold=thr, refinement=None) if not cfg["refinement"] else None  # the public entry point without refinement
        return cms, rough, res, plain

    def extract(model, env):
        return {"cms": [float(env[f"c_{i}"]) for i in range(S * C * H * W)], "shape": [S, C, H, W]}

    tag = f"thr{thr}"
    for cms, rough, res, plain in ex.run(path):
        rep.paths += 1
        rep.nontrivial_paths += 1
        cv = cms.values()
        pts, vals, si, ci = rough
        P_l = pts.materialize().tolist() if isinstance(pts, T.SymTensor) else pts.tolist()
        s_l = si.materialize().tolist()
        c_l = ci.materialize().tolist()
        got = [(int(s_), int(c_), int(y), int(x)) for (x, y), s_, c_ in zip(P_l, s_l, c_l)]
        rep.witness("path-with-a-peak", len(got) > 0)
        rep.witness("path-without-peaks", len(got) == 0)
        # O1: each once
        dup = len(set(got)) != len(got)
        rep.record("O1-each-peak-once", "sat" if dup else "unsat")
        if dup:
            m = ex.full_model()
            from symx.explorer import model_env, DefaultEnv
            rep.violation("O1-each-peak-once", "O1-duplicate", f"a peak is returned twice: {got}", extract(m, DefaultEnv(model_env(m))))
        # O2: returned set == brute-force strict local maxima above threshold (completeness and soundness)
        conds = []
        gs = set(got)
        for s_ in range(S):
            for c_ in range(C):
                for i in range(H):
                    for j in range(W):
                        b = _brute_cond(cv, S, C, H, W, thr, s_, c_, i, j)
                        conds.append(b if (s_, c_, i, j) in gs else Not(b))
        discharge(ex, rep, "O2-set-equals-strict-local-maxima", And(*conds),
                  on_sat=lambda m, env: ("O2-set", f"returned peak set {sorted(gs)} differs from the brute-force neighbour scan", extract(m, env)))
        # O3: values and indices belong to the right map
        vv = vals.values()
        goals = [xeq_term(v, cv[((s_ * C + c_) * H + y) * W + x]) for v, (s_, c_, y, x) in zip(vv, got)]
        if goals:
            discharge(ex, rep, "O3-value-is-the-map-value-at-the-peak", And(*goals),
                      on_sat=lambda m, env: ("O3-value", "a returned peak value is not the map value at (sample, channel, y, x)", extract(m, env)))
        # O4: ordering (sample, y, x, channel) -- the order later stages rely on for the split by sample
        order_ok = got == sorted(got, key=lambda t: (t[0], t[2], t[3], t[1]))
        rep.record("O4-row-major-order", "unsat" if order_ok else "sat")
        if not order_ok:
            m = ex.full_model()
            from symx.explorer import model_env, DefaultEnv
            rep.violation("O4-row-major-order", "O4-order", f"peaks not in (sample,y,x,channel) order: {got}", extract(m, DefaultEnv(model_env(m))))
        if plain is not None:
            # O5': find_local_peaks without refinement is the rough detector with the SAME threshold: same peaks, order, indices (structure compared on the path)
            ppts, pvals_, psi, pci = plain
            same_p = (tuple(ppts.shape) == tuple(pts.shape) and psi.materialize().tolist() == s_l and pci.materialize().tolist() == c_l
                      and (ppts.materialize().tolist() if isinstance(ppts, T.SymTensor) else ppts.tolist()) == P_l)
            rep.record("O5p-entry-point-without-refinement-equals-the-rough-detector", "unsat" if same_p else "sat")
            if not same_p:
                m = ex.full_model()
                from symx.explorer import model_env, DefaultEnv
                rep.violation("O5p-entry-point-without-refinement-equals-the-rough-detector", "O5-count-order", "find_local_peaks(refinement=None) returns other peaks than find_local_peaks_rough with the same threshold",
                              extract(m, DefaultEnv(model_env(m))))
        if res is not None:
            rpts, rvals, rsi, rci = res
            same = (tuple(rpts.shape) == tuple(pts.shape) and rsi.materialize().tolist() == s_l and rci.materialize().tolist() == c_l)
            rep.record("O5-refinement-keeps-count-order-indices", "unsat" if same else "sat")
            if not same:
                m = ex.full_model()
                from symx.explorer import model_env, DefaultEnv
                rep.violation("O5-refinement-keeps-count-order-indices", "O5-count-order", "integral refinement changed the number/order/indices of peaks",
                              extract(m, DefaultEnv(model_env(m))))
                continue
            if got:
                goals = [xeq_term(a, b) for a, b in zip(rvals.values(), vv)]
                discharge(ex, rep, "O5b-refinement-keeps-values", And(*goals),
                          on_sat=lambda m, env: ("O5-values", "integral refinement changed a peak value", extract(m, env)))
                rv = rpts.values()
                half = Fraction(P - 1, 2)
                r = P // 2  # cells that influence the P x P samples: (P-1)/2 for odd P, P/2 for even P (half-pixel bilinear samples)
                for k, (s_, c_, y, x) in enumerate(got):
                    patch = [cv[((s_ * C + c_) * H + a) * W + b] for a in range(y - r, y + r + 1) for b in range(x - r, x + r + 1) if 0 <= a < H and 0 <= b < W]
                    nonneg = And(*[rcmp(">=", p.v, 0) for p in patch])
                    dx, dy = rv[2 * k], rv[2 * k + 1]
                    inb = And(dx.fin(), dy.fin(), rcmp("<=", xf.rsub(dx.v, x), half), rcmp("<=", xf.rsub(x, dx.v), half),
                              rcmp("<=", xf.rsub(dy.v, y), half), rcmp("<=", xf.rsub(y, dy.v), half))
                    # (a) the guarded statement: non-negative patch (hence positive sum: centre > threshold >= 0 or assumed)
                    pos = xf.radd(0, 0)
                    tot = Fraction(0)
                    for p in patch:
                        tot = xf.radd(tot, p.v)
                    discharge(ex, rep, "O6a-offset-within-half-patch[non-negative patch, positive sum]", xf.Implies(And(nonneg, rcmp(">", tot, 0)), inb),
                              on_sat=lambda m, env: ("O6-offset:nonneg-patch", "refined point moves more than half a patch although the patch is non-negative", extract(m, env)))
                    # (b) the statement as written (all float maps): expected to fail for patches with negative values
                    discharge(ex, rep, "O6b-offset-within-half-patch[any patch]", inb,
                              on_sat=lambda m, env: (_sig_o6b(env, patch), "refined point moves more than half a patch (or is NaN/inf)", extract(m, env)))
        rep.sample({"path_condition": ex.path_summary(3), "peaks(sample,channel,y,x)": got})
    rep.infeasible_paths = ex.infeasible
    return rep.finish(extra={"ops": sorted(T.OPS_USED)})


def _sig_o6b(env, patch):
    from symx.xf import eval_xf
    vals = [eval_xf(p, env) for p in patch]
    if any(v < 0 for v in vals) or sum(vals) <= 0:
        return "O6-offset:negative-values-in-patch"
    return "O6-offset:nonneg-patch"


def _validate(cfg):
    import torch
    from symx import torchfe as T, stubs
    from symx.harness import Report, rng
    from symx.validate import differential
    import sleap_nn.inference.peak_finding as pf
    import importlib
    _install()
    rep = Report(cfg)
    r = rng(cfg["seed"], "c06")
    real_crop = importlib.import_module("kornia.geometry.transform").crop_and_resize
    name = "V-front-end-and-crop-stub-agree-with-real-torch-and-kornia"
    for k in range(8):
        S, C, H, W = r.choice([1, 2]), r.choice([1, 2]), r.choice([3, 4, 5]), r.choice([3, 4, 5])
        P = r.choice([3, 5, 4])
        g = torch.Generator().manual_seed(r.randint(0, 10 ** 6))
        cms = torch.rand((S, C, H, W), generator=g)
        # crop stub vs real kornia on integer and half-integer boxes, also reaching outside the image
        n = 3
        cen = torch.tensor([[r.randint(-1, W), r.randint(-1, H)] for _ in range(n)], dtype=torch.float32)
        from sleap_nn.data.instance_cropping import make_centered_bboxes
        bb = make_centered_bboxes(cen, P, P)
        imgs = torch.rand((n, 1, H, W), generator=g)
        real = real_crop(imgs, bb, (P, P))
        with T.SymMode():
            mod = stubs.crop_and_resize_model(imgs.clone(), bb.clone(), (P, P))
        ok = torch.allclose(real, mod.materialize(), atol=1e-4)
        rep.record(name, "unsat" if ok else "sat")
        if not ok:
            rep.inconclusive_item(name, f"crop stub differs from kornia: centres {cen.tolist()} P={P}")
        # whole functions: symbolic front end + crop model vs real torch + real kornia
        f = lambda c: pf.find_local_peaks(c, 0.3, "integral", 3)
        ok2, d2 = differential(f, [cms], real_fn=_real(f))
        ok3 = True
        rep.paths += 1
        rep.record(name, "unsat" if (ok2 and ok3) else "sat")
        if not (ok2 and ok3):
            rep.inconclusive_item(name, f"front end / stub disagree with the real functions: {d2} ok3={ok3}")
    rep.nontrivial_paths = rep.paths
    rep.witness("path-with-a-peak", True)
    rep.witness("path-without-peaks", True)
    rep.sample({"validated": "crop_and_resize model vs real kornia; find_local_peaks symbolic terms vs real torch"})
    return rep.finish()


# ------------------------------------------------------------------ concrete replay
def replay(cfg, inputs, obligation):
    import torch, numpy as np
    import sleap_nn.inference.peak_finding as pf
    S, C, H, W = inputs["shape"]
    cms = torch.tensor(inputs["cms"], dtype=torch.float32).reshape(S, C, H, W)
    thr = cfg["thr"]
    pts, vals, si, ci = pf.find_local_peaks_rough(cms.clone(), threshold=thr)
    a = cms.numpy().astype(np.float64)
    brute = []
    for s in range(S):
        for i in range(H):
            for j in range(W):
                for c in range(C):
                    v = a[s, c, i, j]
                    nb = [a[s, c, p, q] for p in range(max(0, i - 1), min(H, i + 2)) for q in range(max(0, j - 1), min(W, j + 2)) if (p, q) != (i, j)]
                    if v > np.float32(thr) and all(v > n for n in nb):
                        brute.append((s, c, i, j))
    got = [(int(s), int(c), int(y), int(x)) for (x, y), s, c in zip(pts.tolist(), si.tolist(), ci.tolist())]
    if obligation.startswith(("O1", "O2", "O4")):
        if got != brute:
            return True, f"find_local_peaks_rough returned {got}, brute-force scan gives {brute}"
        return False, "rough peaks equal the brute-force scan"
    if obligation.startswith("O3"):
        for v, (s, c, y, x) in zip(vals.tolist(), got):
            if v != a[s, c, y, x].astype(np.float32):
                return True, f"value {v} != map[{s},{c},{y},{x}]={a[s, c, y, x]}"
        return False, "values match"
    P = cfg["patch"]
    if obligation.startswith("O5p"):
        qp, qv, qs, qc = pf.find_local_peaks(cms.clone(), threshold=thr, refinement=None)
        if tuple(qp.shape) != tuple(pts.shape) or qs.tolist() != si.tolist() or qc.tolist() != ci.tolist() or not torch.equal(qp, pts):
            return True, f"find_local_peaks(refinement=None, threshold={thr}) gives {qp.tolist()}, find_local_peaks_rough gives {pts.tolist()}"
        return False, "entry point without refinement equals the rough detector"
    rp, rv, rs, rc = pf.find_local_peaks(cms.clone(), threshold=thr, refinement="integral", integral_patch_size=P)
    if obligation.startswith("O5"):
        if tuple(rp.shape) != tuple(pts.shape) or rs.tolist() != si.tolist() or rc.tolist() != ci.tolist() or not torch.equal(rv, vals):
            return True, "refinement changed count/order/indices/values"
        return False, "refinement kept count/order/indices/values"
    if obligation.startswith("O6"):
        d = (rp - pts)
        bad = ~(d.abs() <= (P - 1) / 2 + 1e-4)
        if bad.any():
            k = int(bad.any(dim=1).nonzero()[0])
            return True, f"peak {got[k]} rough {pts[k].tolist()} refined {rp[k].tolist()} moves more than {(P - 1) / 2}"
        return False, "all offsets within half a patch"
    return False, "unknown obligation"
