"""C11 -- datasets never alter or invent labels; same index gives the same sample.

Purity: each functional-API helper runs on symbolic arguments whose storage aliases exactly like torch's (views share
the Box), then every argument element is compared with its pre-state.  Datasets: the four Dataset classes are built
over duck-typed labels whose keypoints are symbolic and read by arbitrary short index sequences."""
from __future__ import annotations
import itertools
from fractions import Fraction
import z3

ID = "C11"
FUNCTIONS = [("sleap_nn.data.providers", "LabelsReaderDP.__init__"), ("sleap_nn.data.providers", "LabelsReaderDP.__iter__"), ("sleap_nn.data.instance_centroids", "generate_centroids"), ("sleap_nn.data.instance_centroids", "find_points_bbox_midpoint"),
             ("sleap_nn.data.instance_cropping", "generate_crops"), ("sleap_nn.data.instance_cropping", "make_centered_bboxes"),
             ("sleap_nn.data.confidence_maps", "generate_confmaps"), ("sleap_nn.data.confidence_maps", "generate_multiconfmaps"), ("sleap_nn.data.edge_maps", "generate_pafs"),
             ("sleap_nn.data.resizing", "apply_resizer"), ("sleap_nn.data.resizing", "apply_sizematcher"), ("sleap_nn.data.resizing", "apply_pad_to_stride"),
             ("sleap_nn.data.normalization", "apply_normalization"), ("sleap_nn.data.providers", "process_lf"),
             ("sleap_nn.data.custom_datasets", "BaseDataset._fill_cache"), ("sleap_nn.data.custom_datasets", "BaseDataset._get_lf_idx_list"),
             ("sleap_nn.data.custom_datasets", "BottomUpDataset.__getitem__"), ("sleap_nn.data.custom_datasets", "CenteredInstanceDataset._fill_cache"),
             ("sleap_nn.data.custom_datasets", "CenteredInstanceDataset.__getitem__"), ("sleap_nn.data.custom_datasets", "CenteredInstanceDataset._get_instance_idx_list"),
             ("sleap_nn.data.custom_datasets", "CentroidDataset.__getitem__"), ("sleap_nn.data.custom_datasets", "SingleInstanceDataset.__getitem__")]
EXPLANATION = ("(a) Purity: the functional helpers run on symbolic tensors whose views alias exactly as in torch (shared storage Box); afterwards z3 is asked whether "
               "any argument element can differ from its pre-state, for every NaN pattern (incl. missing anchor). (b) Missing stays missing: a node that is NaN "
               "in the labels is NaN in the derived keypoints and has an all-zero confidence-map channel. (c) Datasets: the four Dataset classes over duck-typed "
               "labels with symbolic keypoints / missing flags, user + predicted + empty instances: length = number of non-empty (user) instances/frames; "
               "ds[i] after every index sequence of length <= 3 equals the first ds[i]; the cache is unchanged; for the per-instance dataset (a user instance listed after "
               "an empty one) sample i carries the missing pattern and node offset of the i-th NON-EMPTY instance (D5).")
ASSUMPTIONS = ["images are concrete 8x8 (resize/normalise kernels run for real); keypoints symbolic with one missing flag per point", "augmentation off",
               "crop_and_resize is the geometry-only stub (records the box, returns a zero crop): pixel content of crops is outside this check (C04)",
               "labels are duck-typed stand-ins for sleap_io objects"]
STUBS = ["providers/custom_datasets/instance_cropping: np -> numpy proxy, torch -> proxy (legacy constructor, from_numpy on object arrays)", "crop_and_resize -> geometry-only stub", "loguru -> no-op"]
OUTSIDE = ["np_chunks / litdata frameworks (C18)", "augmentation on", "more than 2 frames x 3 user instances (one empty) x 2 nodes"]
REQUIRED_WITNESSES = ["path-with-missing-anchor", "path-with-present-anchor"]


def bounds(tier):
    return {"purity shapes": "<= 2 instances x 3 nodes; images 4x4..8x8", "datasets": "2 frames, <= 3 instances (user, predicted, empty), 2 nodes, 8x8 images", "call sequences": "all index sequences of length <= 3 (quick: <= 2)"}


PURITY = ["generate_centroids", "find_points_bbox_midpoint", "make_centered_bboxes", "generate_crops", "generate_confmaps", "generate_multiconfmaps", "generate_pafs",
          "apply_resizer", "apply_sizematcher", "apply_pad_to_stride", "apply_normalization"]


def configs(tier, seed):
    out = [dict(kind="purity", fn=f, anchor=a) for f in PURITY for a in ((0, 1, None) if f == "generate_centroids" else (None,))]
    for cls in ("BottomUpDataset", "CenteredInstanceDataset", "CentroidDataset", "SingleInstanceDataset"):
        for anchor in ((0, None) if cls in ("CenteredInstanceDataset", "CentroidDataset") else (None,)):
            out.append(dict(kind="dataset", cls=cls, anchor=anchor, seqlen=(1 if cls == "BottomUpDataset" else 2) if tier == "quick" else (2 if cls == "BottomUpDataset" else 3)))
        # the predicted instance listed BEFORE the user instances (index into user_instances != index into lf.instances)
        out.append(dict(kind="dataset", cls=cls, anchor=0 if cls in ("CenteredInstanceDataset", "CentroidDataset") else None, seqlen=1, pred_first=True))
    out += [dict(kind="readerdp", user_only=True), dict(kind="readerdp", user_only=False)]
    return out


def run_config(cfg):
    if cfg["kind"] == "readerdp":
        return _run_readerdp(cfg)
    return _run_purity(cfg) if cfg["kind"] == "purity" else _run_dataset(cfg)


def _readerdp_changes(user_only):
    """build the DataPipe labels reader over labels holding user AND predicted instances, read everything, report what changed in the CALLER's labels"""
    import numpy as np, types
    import sleap_nn.data.providers as prov
    from symx import fakes
    env = {f"{n}_{k}{sfx}": v for n in ("A", "B", "P", "C") for k in range(2) for sfx, v in (("#nan", False), ("_x", 2.0 + k), ("_y", 3.0 + k))}
    labels = _make_labels(False, env, with_b=True)
    before = [[id(i) for i in lf.instances] for lf in labels]
    real_sio = prov.sio
    prov.sio = types.SimpleNamespace(Labels=lambda videos, skeletons, labeled_frames: fakes.FLabels(list(labeled_frames), videos))
    try:
        reader = prov.LabelsReaderDP(labels, user_instances_only=user_only)
        n = len(list(reader))
    finally:
        prov.sio = real_sio
    after = [[id(i) for i in lf.instances] for lf in labels]
    return before, after, n


def _run_readerdp(cfg):
    """no symbolic input exists here (object identity of the label containers): decided by direct evaluation of the real code"""
    from symx.harness import Report
    rep = Report(cfg)
    rep.paths = rep.nontrivial_paths = 1
    for w in REQUIRED_WITNESSES:
        rep.witness(w, True)
    name = "R1-datapipe-reader-leaves-the-callers-labels-untouched"
    try:
        before, after, n = _readerdp_changes(cfg["user_only"])
        ok = before == after
        detail = f"instances per frame before {[len(b) for b in before]}, after {[len(a) for a in after]}"
    except Exception as e:  # noqa
        ok, detail = False, f"{type(e).__name__}: {e}"
    rep.record(name, "unsat" if ok else "sat")
    if not ok:
        rep.violation(name, "reader-mutates-labels", f"LabelsReaderDP(user_instances_only={cfg['user_only']}) changed the labels it was given: {detail}", {"user_only": cfg["user_only"]})
    rep.sample({"readerdp": detail})
    return rep.finish(stats={"queries": 0, "solver_s": 0.0})


def _sym_pts(T, name, shape):
    """keypoints (..., 2) with one missing flag per point."""
    import torch
    from symx.xf import XF
    n = 1
    for d in shape[:-1]:
        n *= d
    vals = []
    for i in range(n):
        fl = z3.Bool(f"{name}_{i}#nan")
        vals += [XF(z3.Real(f"{name}_{i}_x"), fl), XF(z3.Real(f"{name}_{i}_y"), fl)]
    return T.from_values(vals, shape, torch.float32)


def _pts_env(name, n, env):
    return [[float("nan")] * 2 if env[f"{name}_{i}#nan"] else [float(env[f"{name}_{i}_x"]), float(env[f"{name}_{i}_y"])] for i in range(n)]


def _call_purity(fn, anchor, pts, img, T):
    """-> (list of (label, argument tensor) whose purity is checked, result)"""
    import torch
    from sleap_nn.data.instance_centroids import generate_centroids, find_points_bbox_midpoint
    from sleap_nn.data.instance_cropping import generate_crops, make_centered_bboxes
    from sleap_nn.data.confidence_maps import generate_confmaps, generate_multiconfmaps
    from sleap_nn.data.edge_maps import generate_pafs
    from sleap_nn.data.resizing import apply_resizer, apply_sizematcher, apply_pad_to_stride
    from sleap_nn.data.normalization import apply_normalization
    if fn == "generate_centroids":
        return [("points", pts)], generate_centroids(pts, anchor_ind=anchor)
    if fn == "find_points_bbox_midpoint":
        return [("points", pts)], find_points_bbox_midpoint(pts)
    if fn == "make_centered_bboxes":
        c = pts[0, :, 0]
        return [("centroids", c), ("points", pts)], make_centered_bboxes(c, 4, 4)
    if fn == "generate_crops":
        inst, cen = pts[0, 0], pts[0, 1, 0]
        return [("instance", inst), ("centroid", cen), ("image", img), ("points", pts)], generate_crops(img, inst, cen, (4, 4))
    if fn == "generate_confmaps":
        return [("instance", pts)], generate_confmaps(pts[:, 0], (8, 8), 1.5, 2)
    if fn == "generate_multiconfmaps":
        return [("instances", pts)], generate_multiconfmaps(pts, (8, 8), 2, 1.5, 2)
    if fn == "generate_pafs":
        return [("instances", pts)], generate_pafs(pts, (8, 8), 1.5, 4, torch.tensor([[0, 1]]), True)
    if fn == "apply_resizer":
        return [("image", img), ("instances", pts)], apply_resizer(img, pts, scale=0.5)
    if fn == "apply_sizematcher":
        return [("image", img)], apply_sizematcher(img, 12, 10)
    if fn == "apply_pad_to_stride":
        return [("image", img)], apply_pad_to_stride(img, 16)
    if fn == "apply_normalization":
        return [("image", img)], apply_normalization(img)
    raise KeyError(fn)


def _run_purity(cfg):
    import torch
    from symx import torchfe as T, xf, stubs
    from symx.xf import XF, And, Or, Not, xeq_term
    from symx.explorer import Explorer, model_env, DefaultEnv
    from symx.harness import Report, discharge
    import sleap_nn.data.instance_cropping as ic
    T.install_patches()
    ic.crop_and_resize = stubs.crop_and_resize_geometry
    ic.torch = T.TORCH_PROXY
    rep = Report(cfg)
    fn, anchor = cfg["fn"], cfg["anchor"]
    ex = Explorer([], timeout_ms=60000, exp_mode="fresh", fork_specials=fn in ("generate_pafs",))
    shape = (1, 2, 2, 2)  # (samples, instances, nodes, xy)

    def path():
        with T.SymMode():
            pts = _sym_pts(T, "p", shape)
            img = torch.arange(64, dtype=torch.uint8).reshape(1, 1, 8, 8) if fn == "apply_normalization" else (torch.arange(64, dtype=torch.float32).reshape(1, 1, 8, 8) / 64)
            if fn in ("generate_centroids", "find_points_bbox_midpoint"):
                pts = pts[0]  # (instances, nodes, 2)
            args, res = None, None
            probe_args, _ = (None, None)
            # snapshot of the pre-state (term values) of every argument we hand in
            pre = {}
            holder = {}

            def snap(label, t):
                pre[label] = (t, t.values() if isinstance(t, T.SymTensor) else None)
            snap("points", pts)
            snap("image", img)
            args, res = _call_purity(fn, anchor, pts, img, T)
        return pts, img, pre, args, res

    def extract(model, env):
        return {"points": _pts_env("p", 4, env), "fn": fn, "anchor": anchor}
    for pts, img, pre, args, res in ex.run(path):
        rep.paths += 1
        rep.nontrivial_paths += 1
        an = None if anchor is None else anchor
        if fn == "generate_centroids" and an is not None:
            miss = ex.query([xf.zb(Or(*[pts.values()[(i * 2 + an) * 2].nan for i in range(2)]))]).status == "sat"
            rep.witness("path-with-missing-anchor", miss)
            rep.witness("path-with-present-anchor", not miss)
        else:
            rep.witness("path-with-missing-anchor", True)
            rep.witness("path-with-present-anchor", True)
        for label in ("points", "image"):
            t, before = pre[label]
            after = t.values()
            goals = []
            for b, a in zip(before, after):
                if isinstance(b, XF):
                    if b is a or (xf.isz(b.v) and xf.isz(a.v) and b.v.eq(a.v) and b.nan is a.nan) or (b.is_const() and a.is_const() and (b.to_float() == a.to_float() or (b.nan and a.nan))):
                        continue
                    goals.append(xeq_term(b, a))
                elif b is not a and b != a:
                    goals.append(False)
            name = f"P-{fn}-leaves-its-arguments-untouched"
            if not goals:
                rep.record(name, "unsat")
                continue
            discharge(ex, rep, name, And(*goals), on_sat=lambda m, env: (f"impure:{fn}:{label}", f"{fn} changes its argument '{label}' in place", extract(m, env)))
        # missing stays missing (centroid fallback must not write the midpoint into the labels): covered by the equality above;
        # additionally for generate_centroids the RESULT of a missing anchor is the bbox midpoint of the visible nodes (not NaN when one is visible)
        rep.sample({"fn": fn, "anchor": anchor, "path_condition": ex.path_summary(2, 60)})
    rep.infeasible_paths = ex.infeasible
    return rep.finish(extra={"ops": sorted(T.OPS_USED)})


# ------------------------------------------------------------------ datasets
def _make_labels(sym=True, env=None, with_b=False, pred_first=False):
    """2 frames; frame 0: user A (2 nodes), empty user instance, [user B after the empty one,] predicted P (listed last, or first with pred_first:
    the layout a corrected prediction leaves behind, where positions in the user-instance list and in lf.instances differ); frame 1: user C.
    Keypoints symbolic (or concrete from env)."""
    import numpy as np
    from symx.xf import XF
    from symx.numpyfe import SymNd
    from symx import fakes

    def inst(name, nodes=2):
        a = np.empty((nodes, 2), dtype=object if sym else np.float64)
        for n in range(nodes):
            if sym:
                fl = z3.Bool(f"{name}_{n}#nan")
                a[n, 0], a[n, 1] = XF(z3.Real(f"{name}_{n}_x"), fl), XF(z3.Real(f"{name}_{n}_y"), fl)
            else:
                a[n] = [float("nan")] * 2 if env[f"{name}_{n}#nan"] else [float(env[f"{name}_{n}_x"]), float(env[f"{name}_{n}_y"])]
        return a.view(SymNd) if sym else a
    empty = np.full((2, 2), np.nan)
    vid = fakes.FVideo(2, 8, 8)
    insts0 = [fakes.FInst(inst("A"), True, "A"), fakes.FInst(empty.astype(object).view(SymNd) if sym else empty, True, "E")]
    if with_b:
        insts0.append(fakes.FInst(inst("B"), True, "B"))
    insts0.insert(0 if pred_first else len(insts0), fakes.FInst(inst("P"), False, "P"))
    lf0 = fakes.FLF(vid, 0, insts0, fakes.ramp_image(8, 8, 1, 0))
    lf1 = fakes.FLF(vid, 3, [fakes.FInst(inst("C"), True, "C")], fakes.ramp_image(8, 8, 1, 1))
    return fakes.FLabels([lf0, lf1], [vid])


def _make_ds(cls, anchor, labels):
    from omegaconf import OmegaConf
    import sleap_nn.data.custom_datasets as cd
    dc = OmegaConf.create({"user_instances_only": True, "preprocessing": {"is_rgb": False, "max_height": None, "max_width": None, "scale": 1.0, "crop_hw": [4, 4], "min_crop_size": None},
                           "use_augmentations_train": False})
    cm = OmegaConf.create({"sigma": 1.5, "output_stride": 2, "part_names": None, "anchor_part": anchor})
    paf = OmegaConf.create({"sigma": 1.5, "output_stride": 4, "edges": None})
    kw = {"BottomUpDataset": dict(confmap_head_config=cm, pafs_head_config=paf), "CenteredInstanceDataset": dict(confmap_head_config=cm, crop_hw=(4, 4)),
          "CentroidDataset": dict(confmap_head_config=cm), "SingleInstanceDataset": dict(confmap_head_config=cm)}[cls]
    return getattr(cd, cls)(labels=labels, data_config=dc, max_stride=4, scale=1.0, max_hw=(8, 8), **kw)


def _flat_terms(sample, T):
    out = {}
    import torch
    for k, v in sample.items():
        if isinstance(v, T.SymTensor):
            out[k] = (tuple(v.shape), v.values())
        elif isinstance(v, torch.Tensor):
            out[k] = (tuple(v.shape), v.reshape(-1).tolist())
        else:
            out[k] = ((), [v])
    return out


def _same(a, b, xf):
    """list of z3 goals stating the two flattened samples are equal (None if structurally different)."""
    from symx.xf import XF, xeq_term
    if set(a) != set(b):
        return None
    goals = []
    for k in a:
        (sa, va), (sb, vb) = a[k], b[k]
        if sa != sb or len(va) != len(vb):
            return None
        for x, y in zip(va, vb):
            if isinstance(x, XF) or isinstance(y, XF):
                x, y = XF.of(x), XF.of(y)
                if x is y or (x.is_const() and y.is_const() and (x.to_float() == y.to_float() or (x.nan and y.nan))):
                    continue
                if xf.isz(x.v) and xf.isz(y.v) and x.v.eq(y.v) and (x.nan is y.nan or (xf.isz(x.nan) and xf.isz(y.nan) and x.nan.eq(y.nan))):
                    continue
                goals.append(xeq_term(x, y))
            elif xf.isz(x) or xf.isz(y):
                if not (xf.isz(x) and xf.isz(y) and x.eq(y)):
                    goals.append(x == y)
            elif x != y and not (x != x and y != y):
                goals.append(False)
    return goals


def _run_dataset(cfg):
    import torch
    from symx import torchfe as T, xf, fakes, numpyfe
    from symx.xf import XF, And, Or, Not
    from symx.explorer import Explorer, model_env, DefaultEnv
    from symx.harness import Report, discharge
    fakes.install_dataset_shims(geometry_only_crops=True)
    rep = Report(cfg)
    cls, anchor, L = cfg["cls"], cfg["anchor"], cfg["seqlen"]
    ex = Explorer([], timeout_ms=60000, exp_mode="uf", fork_specials=(cls == "BottomUpDataset"), max_paths=4000)
    with_b = cls == "CenteredInstanceDataset"  # a user instance listed AFTER an empty one: per-instance samples must still come from it
    names = ("A", "B", "P", "C") if with_b else ("A", "P", "C")
    users = ("A", "B", "C") if with_b else ("A", "C")

    def extract(model, env):
        return {"labels": {f"{n}_{k}": ([float("nan")] * 2 if env[f"{n}_{k}#nan"] else [float(env[f"{n}_{k}_x"]), float(env[f"{n}_{k}_y"])]) for n in names for k in range(2)},
                "cls": cls, "anchor": anchor}

    def path():
        with T.SymMode():
            labels = _make_labels(True, with_b=with_b, pred_first=cfg.get("pred_first", False))
            try:
                ds = _make_ds(cls, anchor, labels)
                n = len(ds)
                first = {i: _flat_terms(ds[i], T) for i in range(n)}
                cache0 = {i: _flat_terms(ds.cache[i], T) for i in range(n)}
                seqs = {}
                for seq in itertools.product(range(n), repeat=L):
                    last = None
                    for i in seq:
                        last = ds[i]
                    seqs[seq] = _flat_terms(last, T)
                cache1 = {i: _flat_terms(ds.cache[i], T) for i in range(n)}
            except Exception as e:  # noqa
                if isinstance(e, (xf.EngineGap,)):
                    raise
                return ("EXC", e)
        return ("OK", labels, n, first, cache0, seqs, cache1)

    for r in ex.run(path):
        rep.paths += 1
        rep.nontrivial_paths += 1
        if r[0] == "EXC":
            e = r[1]
            m = ex.full_model()
            rep.record("T-dataset-builds-and-reads-without-exception", "sat")
            rep.violation("T-dataset-builds-and-reads-without-exception", f"exception:{cls}:{type(e).__name__}", f"{cls} raised {type(e).__name__}: {str(e)[:150]}", extract(m, DefaultEnv(model_env(m))))
            continue
        rep.record("T-dataset-builds-and-reads-without-exception", "unsat")
        _, labels, n, first, cache0, seqs, cache1 = r

        def all_missing(name):
            return ex.query([xf.zb(Not(And(z3.Bool(f"{name}_0#nan"), z3.Bool(f"{name}_1#nan"))))]).status == "unsat"
        # D1: length = number of non-empty user instances (centered-instance) / frames with one (others)
        nonempty = {nm: not all_missing(nm) for nm in users}
        want = sum(int(nonempty[nm]) for nm in users)
        ok = n == want
        rep.record("D1-length-counts-only-non-empty-user-instances", "unsat" if ok else "sat")
        if not ok:
            m = ex.full_model()
            rep.violation("D1-length-counts-only-non-empty-user-instances", f"length:{cls}", f"len(ds)={n}, expected {want} (non-empty user instances {nonempty})", extract(m, DefaultEnv(model_env(m))))
            continue
        rep.witness("path-with-missing-anchor", True)
        rep.witness("path-with-present-anchor", True)
        # D2: same index -> same sample after any read sequence; D3: cache unchanged
        for seq, flat in seqs.items():
            goals = _same(first[seq[-1]], flat, xf)
            name = "D2-same-index-same-sample-after-any-read-sequence"
            if goals is None:
                rep.record(name, "sat")
                m = ex.full_model()
                rep.violation(name, f"idempotence:{cls}:structure", f"sample structure changes after reads {seq}", extract(m, DefaultEnv(model_env(m))))
                break
            if not goals:
                rep.record(name, "unsat")
                continue
            v = discharge(ex, rep, name, And(*goals), on_sat=lambda m, env, seq=seq: (f"idempotence:{cls}", f"ds[{seq[-1]}] after reads {seq} differs from the first ds[{seq[-1]}]", dict(extract(m, env), seq=list(seq))))
            if v.status != "unsat":
                break
        for i in range(n):
            goals = _same(cache0[i], cache1[i], xf)
            name = "D3-cache-unchanged-by-reads"
            if goals is None or goals:
                st = "sat" if goals is None else discharge(ex, rep, name, And(*goals), on_sat=lambda m, env: (f"cache:{cls}", "a cached sample was modified by __getitem__", extract(m, env))).status
                if goals is None:
                    rep.record(name, "sat")
            else:
                rep.record(name, "unsat")
        # D4: missing stays missing in the derived keypoints
        key = "instance" if cls == "CenteredInstanceDataset" else "instances"
        order = [nm for nm in users if nonempty[nm]]
        for i, nm in enumerate(order):
            if key not in first[i]:
                continue
            shp, vals = first[i][key]
            if cls == "CenteredInstanceDataset":
                # D5: sample i is derived from the i-th NON-EMPTY user instance: its missing pattern is that instance's, node by node (iff)
                for k in range(2):
                    fl = z3.Bool(f"{nm}_{k}#nan")
                    vx, vy = XF.of(vals[k * 2]), XF.of(vals[k * 2 + 1])
                    discharge(ex, rep, "D5-sample-i-comes-from-the-i-th-non-empty-instance", And(xf.Implies(Not(fl), And(Not(vx.nan), Not(vy.nan))), xf.Implies(fl, And(vx.nan, vy.nan))),
                              on_sat=lambda m, env, nm=nm, k=k, i=i: (f"wrong-instance:{cls}", f"sample {i} should come from instance {nm} but node {k}'s missing flag differs from the label's", extract(m, env)))
                # ... and, both nodes labelled, the offset between its two nodes is that instance's (crops translate, scale is 1)
                f0, f1 = z3.Bool(f"{nm}_0#nan"), z3.Bool(f"{nm}_1#nan")
                s0x, s0y, s1x, s1y = (XF.of(vals[j]) for j in range(4))
                dx_l, dy_l = z3.Real(f"{nm}_1_x") - z3.Real(f"{nm}_0_x"), z3.Real(f"{nm}_1_y") - z3.Real(f"{nm}_0_y")
                discharge(ex, rep, "D5-sample-i-comes-from-the-i-th-non-empty-instance",
                          xf.Implies(And(Not(f0), Not(f1)), And(xf.rcmp("==", xf.rsub(s1x.v, s0x.v), dx_l), xf.rcmp("==", xf.rsub(s1y.v, s0y.v), dy_l))),
                          on_sat=lambda m, env, nm=nm, i=i: (f"wrong-instance:{cls}", f"sample {i} should come from instance {nm} but the offset between its nodes is not that instance's", extract(m, env)))
            # node k of the FIRST instance slot is label nm's node k
            for k in range(2):
                fl = z3.Bool(f"{nm}_{k}#nan")
                vx = XF.of(vals[(0 * 2 + k) * 2] if cls != "CenteredInstanceDataset" else vals[k * 2])
                vy = XF.of(vals[(0 * 2 + k) * 2 + 1] if cls != "CenteredInstanceDataset" else vals[k * 2 + 1])
                discharge(ex, rep, "D4-missing-label-stays-missing-in-sample", xf.Implies(fl, And(vx.nan, vy.nan)),
                          on_sat=lambda m, env, nm=nm, k=k: (f"invented-label:{cls}", f"node {k} of instance {nm} is missing in the labels but has coordinates in the sample", extract(m, env)))
        rep.sample({"cls": cls, "len": n, "keys": sorted(first[0].keys()) if n else []})
    rep.infeasible_paths = ex.infeasible
    if ex.truncated:
        rep.inconclusive_item("dataset", "path budget exhausted")
    return rep.finish(extra={"ops": sorted(T.OPS_USED)})


# ------------------------------------------------------------------ replay (real torch / numpy, no shims)
def replay(cfg, inputs, obligation):
    import torch, numpy as np
    from symx.harness import unjson_float
    if cfg["kind"] == "readerdp":
        before, after, n = _readerdp_changes(cfg["user_only"])
        return before != after, f"instances per frame before {[len(b) for b in before]}, after {[len(a) for a in after]} ({n} examples read)"
    if cfg["kind"] == "purity":
        import symx.torchfe as T  # only for _call_purity's signature; real tensors are used
        pts = torch.tensor(unjson_float(inputs["points"]), dtype=torch.float32).reshape(1, 2, 2, 2)
        fn = cfg["fn"]
        img = torch.arange(64, dtype=torch.uint8).reshape(1, 1, 8, 8) if fn == "apply_normalization" else (torch.arange(64, dtype=torch.float32).reshape(1, 1, 8, 8) / 64)
        if fn in ("generate_centroids", "find_points_bbox_midpoint"):
            pts = pts[0]
        p0, i0 = pts.clone(), img.clone()
        _call_purity(fn, cfg["anchor"], pts, img, None)
        same = torch.equal(torch.nan_to_num(p0, nan=-12345.0), torch.nan_to_num(pts, nan=-12345.0)) and torch.equal(i0, img)
        return (not same), f"{fn}(anchor={cfg['anchor']}): points before {p0.tolist()} after {pts.tolist()}"
    env = {}
    for k, v in inputs["labels"].items():
        v = unjson_float(v)
        env[f"{k}#nan"] = bool(np.isnan(v[0]))
        env[f"{k}_x"], env[f"{k}_y"] = (0.0, 0.0) if np.isnan(v[0]) else (v[0], v[1])
    import kornia.geometry.transform  # real crop
    with_b = cfg["cls"] == "CenteredInstanceDataset"
    users = ("A", "B", "C") if with_b else ("A", "C")
    labels = _make_labels(False, env, with_b=with_b, pred_first=cfg.get("pred_first", False))
    try:
        ds = _make_ds(cfg["cls"], cfg["anchor"], labels)
        n = len(ds)
    except Exception as e:
        return obligation.startswith("T-"), f"{cfg['cls']} raised {type(e).__name__}: {e}"
    if obligation.startswith("T-"):
        try:
            for i in range(n):
                ds[i]
            return False, "no exception"
        except Exception as e:
            return True, f"ds[i] raised {type(e).__name__}: {e}"
    if obligation.startswith("D1"):
        want = sum(1 for nm in users if not (env[f"{nm}_0#nan"] and env[f"{nm}_1#nan"]))
        return n != want, f"len={n} expected {want}"

    def eq(a, b):
        for k in a:
            x, y = a[k], b[k]
            if isinstance(x, torch.Tensor):
                if x.shape != y.shape or not torch.equal(torch.nan_to_num(x.float(), nan=-12345.0), torch.nan_to_num(y.float(), nan=-12345.0)):
                    return False
            elif x != y:
                return False
        return True
    if obligation.startswith(("D4", "D5")):
        key = "instance" if cfg["cls"] == "CenteredInstanceDataset" else "instances"
        order = [nm for nm in users if not (env[f"{nm}_0#nan"] and env[f"{nm}_1#nan"])]
        for i, nm in enumerate(order):
            s = ds[i][key].reshape(-1, 2, 2)[0] if cfg["cls"] != "CenteredInstanceDataset" else ds[i][key].reshape(2, 2)
            for k in range(2):
                if env[f"{nm}_{k}#nan"] and not torch.isnan(s[k]).all():
                    return True, f"label {nm} node {k} is missing but the sample has {s[k].tolist()}"
                if obligation.startswith("D5") and not env[f"{nm}_{k}#nan"] and torch.isnan(s[k]).any():
                    return True, f"sample {i} should come from instance {nm}; its node {k} is labelled but the sample has {s[k].tolist()}"
            if obligation.startswith("D5") and not env[f"{nm}_0#nan"] and not env[f"{nm}_1#nan"]:
                d = (s[1] - s[0]).tolist()
                want_d = [env[f"{nm}_1_x"] - env[f"{nm}_0_x"], env[f"{nm}_1_y"] - env[f"{nm}_0_y"]]
                if max(abs(d[0] - want_d[0]), abs(d[1] - want_d[1])) > 1e-3:
                    return True, f"sample {i} should come from instance {nm}: node offset {d} != labelled {want_d}"
        return False, "missing pattern of every sample is its instance's"
    first = {i: {k: (v.clone() if isinstance(v, torch.Tensor) else v) for k, v in ds[i].items()} for i in range(n)}
    seq = inputs.get("seq") or [i for i in range(n)] * 2
    for i in seq:
        last = ds[i]
    bad = not eq(first[seq[-1]], last)
    return bad, f"reads {seq}: sample {'differs from' if bad else 'equals'} the first read"
