"""C12 -- a frame's predictions are independent of batch-mates and carry its indices.

The real CentroidCrop.forward/_generate_crops, SingleInstanceInferenceModel.forward, BottomUpInferenceModel._generate_cms_peaks
and Predictor._predict_generator run on ARBITRARY symbolic confidence maps for two frames A and B with symbolic frame/video
indices and eff_scales; the batches [A,B], [B,A], [A], [B] are all run inside the same path and compared."""
from __future__ import annotations
import itertools
from fractions import Fraction
import z3

ID = "C12"
FUNCTIONS = [("sleap_nn.inference.topdown", "CentroidCrop.forward"), ("sleap_nn.inference.topdown", "CentroidCrop._generate_crops"), ("sleap_nn.inference.single_instance", "SingleInstanceInferenceModel.forward"),
             ("sleap_nn.inference.bottomup", "BottomUpInferenceModel._generate_cms_peaks"), ("sleap_nn.inference.peak_finding", "find_local_peaks"), ("sleap_nn.inference.peak_finding", "find_local_peaks_rough"),
             ("sleap_nn.inference.peak_finding", "find_global_peaks"), ("sleap_nn.inference.predictors", "Predictor._predict_generator"), ("sleap_nn.inference.topdown", "FindInstancePeaksGroundTruth.forward")]
EXPLANATION = ("Two frames A and B with arbitrary symbolic confidence maps (not ideal maps), distinct symbolic frame/video indices and symbolic eff_scales go through the real "
               "inference modules as [A,B], [B,A], [A] and [B] within one symbolic path (the later runs add no forks: their peak patterns are implied). z3 shows that each "
               "frame's centroids / peaks / values are the same in all four runs, that every crop record carries the indices of the frame its centroid came from, that an "
               "all-below-threshold frame yields nothing and leaves its batch-mate unchanged, and that with max_instances = m the kept centroids are a top-m set by value. "
               "FindInstancePeaksGroundTruth (labelled poses standing in for the centered-instance model) with symbolic centroids and poses: per-frame result independent of batch-mates and order. "
               "_predict_generator is run over a fake reader with symbolic indices: records carry their own frame's indices/size/content/size-matching scale for every batch size (frames of different sizes).")
ASSUMPTIONS = ["maps are 1x3 / 1x4 cells per frame (so that a frame can hold 0, 1 or 2 peaks); values unconstrained reals", "refinement None", "crop_and_resize geometry-only stub",
               "the PAF scorer is not part of this check (grouping: C08)", "exact real arithmetic"]
STUBS = ["torch_model -> returns the symbolic maps", "topdown/peak_finding .torch -> proxy", "bottomup.torch.nested -> list stand-in", "crop_and_resize -> geometry-only stub", "fake reader FIFO for _predict_generator"]
OUTSIDE = ["batches of more than 2 (thorough 3) frames", "more than 2 peaks per frame", "integral refinement (per-peak crop index is covered by C06 O3)"]
REQUIRED_WITNESSES = ["path-with-empty-frame-and-nonempty-mate", "path-with-two-peaks-in-a-frame"]


def bounds(tier):
    return {"frames per batch": 2, "map": "1x3 (quick) / 1x4 (thorough) cells, 1 channel (centroid, bottom-up) or 2 channels (single-instance)", "max_instances": [None, 1, 2], "batch sizes (generator)": [1, 2, 3]}


def configs(tier, seed):
    out = []
    Wc = 3 if tier == "quick" else 4
    for m in (None, 1, 2):
        out.append(dict(kind="centroid", W=Wc, max_instances=m, crops=False))
    out.append(dict(kind="centroid", W=Wc, max_instances=None, crops=True))
    out.append(dict(kind="centroid", W=Wc, max_instances=1, crops=True))
    out.append(dict(kind="bottomup", W=Wc, C=1))
    out.append(dict(kind="bottomup", W=2 if tier == "quick" else 3, C=2))
    out.append(dict(kind="single", G=2, N=2, refinement=None))
    out.append(dict(kind="single", G=2, N=1, refinement="integral"))
    for B in (1, 2, 3):
        out.append(dict(kind="generator", batch=B, frames=3))
    # top-down with ground-truth instance peaks (centroid-only models): more detected centroids than labelled-instance slots are possible
    out.append(dict(kind="gtpeaks", max_inst=1, n_cent=2, nodes=1))
    if tier == "thorough":
        out.append(dict(kind="gtpeaks", max_inst=2, n_cent=2, nodes=1))
    return out


def run_config(cfg):
    return {"centroid": _run_centroid, "bottomup": _run_bottomup, "single": _run_single, "generator": _run_generator, "gtpeaks": _run_gtpeaks}[cfg["kind"]](cfg)


def _install():
    import sleap_nn.inference.peak_finding as pf
    import sleap_nn.inference.topdown as td
    import sleap_nn.inference.bottomup as bu
    import sleap_nn.inference.single_instance as si
    from symx import torchfe as T, stubs
    T.install_patches()
    for m in (pf, td, bu):
        m.torch = T.TORCH_PROXY
    pf.crop_and_resize = stubs.crop_and_resize_geometry

    class _L:
        def __getattr__(self, k):
            return lambda *a, **kw: None
    td.logger = _L()
    return pf, td, bu, si


def _maps(T, tag, C, H, W):
    import torch
    from symx.xf import XF
    return [XF(z3.Real(f"{tag}_{c}_{i}_{j}")) for c in range(C) for i in range(H) for j in range(W)]


def _eq_lists(a, b, xf):
    """goal: two lists of XF are element-wise the same float (NaN == NaN); None if lengths differ."""
    from symx.xf import XF, xeq_term, And, isz

    def same(p, q):
        return p is q or (isz(p) and isz(q) and p.eq(q)) or (not isz(p) and not isz(q) and p == q)
    if len(a) != len(b):
        return None
    goals = []
    for x, y in zip(a, b):
        x, y = XF.of(x), XF.of(y)
        if same(x.v, y.v) and same(x.nan, y.nan) and same(x.pinf, y.pinf) and same(x.ninf, y.ninf):
            continue  # syntactically the same term: nothing to ask the solver
        goals.append(xeq_term(x, y))
    return And(*goals)


def _run_centroid(cfg):
    import torch
    from symx import torchfe as T, xf
    from symx.xf import XF, And, Or, Not, rcmp
    from symx.explorer import Explorer, model_env, DefaultEnv
    from symx.harness import Report, discharge
    pf, td, bu, si = _install()
    rep = Report(cfg)
    W, m, crops = cfg["W"], cfg["max_instances"], cfg["crops"]
    H, s = 1, 2
    fi = {"A": z3.Int("fidxA"), "B": z3.Int("fidxB")}
    vi = {"A": z3.Int("vidxA"), "B": z3.Int("vidxB")}
    ef = {"A": z3.Real("effA"), "B": z3.Real("effB")}
    base = [fi["A"] != fi["B"], ef["A"] > 0, ef["B"] > 0, fi["A"] >= 0, fi["B"] >= 0, vi["A"] >= 0, vi["B"] >= 0]
    ex = Explorer(base, timeout_ms=60000, max_paths=20000)
    vals = {}

    def run(order):
        cms = T.from_values([v for f in order for v in vals[f]], (len(order), 1, H, W), torch.float32)
        net = type("N", (torch.nn.Module,), {"forward": lambda self, img: cms})()
        cc = td.CentroidCrop(net, output_stride=s, peak_threshold=0.2, max_instances=m, refinement=None, return_crops=crops, crop_hw=(2, 2), input_scale=1.0, max_stride=1)
        batch = {"image": torch.zeros(len(order), 1, 1, H * s, W * s),
                 "frame_idx": T.from_values([fi[f] for f in order], (len(order),), torch.int32), "video_idx": T.from_values([vi[f] for f in order], (len(order),), torch.int32),
                 "orig_size": torch.tensor([[float(H * s), float(W * s)]] * len(order)), "eff_scale": T.from_values([XF(ef[f]) for f in order], (len(order),), torch.float32)}
        return cc(batch)

    def path():
        with T.SymMode():
            for f in "AB":
                vals[f] = _maps(T, f"m{f}", 1, H, W)
            return {o: run(o) for o in ("AB", "BA", "A", "B")}

    def extract(model, env):
        return {"maps": {f: [float(env[f"m{f}_0_0_{j}"]) for j in range(W)] for f in "AB"}, "eff": {f: float(env[f"eff{f}"]) for f in "AB"}, "fidx": {f: int(env[f"fidx{f}"]) for f in "AB"}}

    def per_frame(out, order):
        """-> {frame: (list of centroid XF values [x0,y0,x1,y1..] without NaN padding, vals, indices)} from either output form."""
        res = {f: ([], [], []) for f in order}
        if out is None:
            return res
        if crops:
            for d in out:
                fv = d["frame_idx"].values()
                n = len(fv)
                # which frame does this record claim?
                for f in order:
                    pass
                cen = d["centroid"].values()
                bb = d["instance_bbox"].values()
                cv = d["centroid_val"].values()
                res.setdefault("_records", []).append((fv, d["video_idx"].values(), cen, bb, cv, d["eff_scale"].values()))
            return res
        cen = out["centroids"].values()
        cv = out["centroid_vals"].values()
        mi = out["centroids"].shape[2]
        for b, f in enumerate(order):
            res[f] = (cen[b * mi * 2:(b + 1) * mi * 2], cv[b * mi:(b + 1) * mi], [])
        return res

    for outs in ex.run(path):
        rep.paths += 1
        rep.nontrivial_paths += 1
        # peak pattern of each frame on this path (brute force, decided by the solver under the path condition)
        npk = {}
        for f in "AB":
            cnt = 0
            for j in range(W):
                v = vals[f][j].v
                nb = [vals[f][q].v for q in (j - 1, j + 1) if 0 <= q < W]
                c = And(rcmp(">", v, Fraction(2, 10)), *[rcmp(">", v, n_) for n_ in nb])
                if ex.query([xf.zb(c)]).status == "sat" and ex.query([xf.zb(Not(c))]).status == "unsat":
                    cnt += 1
            npk[f] = cnt
        rep.witness("path-with-empty-frame-and-nonempty-mate", (npk["A"] == 0) != (npk["B"] == 0))
        rep.witness("path-with-two-peaks-in-a-frame", max(npk.values()) >= 2)
        if not crops:
            pf_ = {o: per_frame(outs[o], o) for o in outs}
            for f in "AB":
                keep = npk[f] if m is None else min(npk[f], m)
                ref = pf_[f][f]

                def strip(t):
                    c, v, _ = t
                    return c[:keep * 2], v[:keep]
                for o in ("AB", "BA"):
                    a, b = strip(pf_[o][f]), strip(ref)
                    if outs[o] is None and outs[f] is None:
                        rep.record("B1-frame-result-independent-of-batch-mates-and-order", "unsat")
                        continue
                    if (outs[o] is None) != (outs[f] is None) and keep > 0:
                        rep.record("B1-frame-result-independent-of-batch-mates-and-order", "sat")
                        mo = ex.full_model()
                        rep.violation("B1-frame-result-independent-of-batch-mates-and-order", "centroid:batch-dependence:none", f"frame {f}: batch {o} returns {'nothing' if outs[o] is None else 'peaks'} but alone it does not", extract(mo, DefaultEnv(model_env(mo))))
                        continue
                    g = _eq_lists(a[0] + a[1], b[0] + b[1], xf)
                    if g is None:
                        rep.record("B1-frame-result-independent-of-batch-mates-and-order", "sat")
                        mo = ex.full_model()
                        rep.violation("B1-frame-result-independent-of-batch-mates-and-order", "centroid:batch-dependence:count", f"frame {f}: different number of centroids in batch {o} and alone", extract(mo, DefaultEnv(model_env(mo))))
                        continue
                    discharge(ex, rep, "B1-frame-result-independent-of-batch-mates-and-order", g,
                              on_sat=lambda mo, env, f=f, o=o: ("centroid:batch-dependence", f"frame {f}: centroids/values in batch {o} differ from the frame alone", extract(mo, env)))
                # padding beyond `keep` is NaN; kept centroids are a top-m set by value
                if outs["AB"] is not None:
                    c, v, _ = pf_["AB"][f]
                    pad_ok = And(*[XF.of(x).nan for x in c[keep * 2:]] + [XF.of(x).nan for x in v[keep:]])
                    discharge(ex, rep, "B2-padding-is-nan-and-kept-are-the-top-m-by-value", pad_ok, on_sat=lambda mo, env: ("centroid:padding", "padding entries are not NaN", extract(mo, env)))
                    if m is not None and npk[f] > m:
                        allv = []
                        for j in range(W):
                            vv = vals[f][j].v
                            nb = [vals[f][q].v for q in (j - 1, j + 1) if 0 <= q < W]
                            allv.append((And(rcmp(">", vv, Fraction(2, 10)), *[rcmp(">", vv, n_) for n_ in nb]), vv))
                        goals = []
                        for kv in v[:keep]:
                            for (isp, vv) in allv:
                                # any peak strictly larger than a kept one must itself be kept (= equal to one of the kept values)
                                goals.append(xf.Implies(And(isp, rcmp(">", vv, XF.of(kv).v)), Or(*[rcmp("==", vv, XF.of(k2).v) for k2 in v[:keep]])))
                        discharge(ex, rep, "B2-padding-is-nan-and-kept-are-the-top-m-by-value", And(*goals), on_sat=lambda mo, env: ("centroid:topk", "with max_instances the kept centroids are not the highest-valued ones", extract(mo, env)))
        else:
            # crop records: each record's frame/video index and eff_scale are those of the frame whose map holds the centroid
            for o in ("AB", "BA", "A", "B"):
                out = outs[o]
                recs = [] if out is None else out
                want = [f for f in o if (npk[f] if m is None else min(npk[f], m)) > 0]
                ok_n = len(recs) == len(want)
                rep.record("B3-one-record-per-frame-with-detections", "unsat" if ok_n else "sat")
                if not ok_n:
                    mo = ex.full_model()
                    rep.violation("B3-one-record-per-frame-with-detections", "crops:record-count", f"batch {o}: {len(recs)} crop records, frames with detections {want}", extract(mo, DefaultEnv(model_env(mo))))
                    continue
                for d, f in zip(recs, want):
                    fv, vv, ev = d["frame_idx"].values(), d["video_idx"].values(), d["eff_scale"].values()
                    g = And(*[xf.rcmp("==", XF.of(x).v, fi[f]) for x in fv] + [xf.rcmp("==", XF.of(x).v, vi[f]) for x in vv] + [xf.rcmp("==", XF.of(x).v, ef[f]) for x in ev])
                    discharge(ex, rep, "B4-crop-records-carry-the-indices-of-their-own-frame", g, on_sat=lambda mo, env, f=f, o=o: ("crops:wrong-index", f"batch {o}: a crop record of frame {f} carries another frame's frame_idx/video_idx/eff_scale", extract(mo, env)))
                    # the centroid (crop-relative) + bbox top-left is a peak cell of THAT frame's map
                    cen, bb = d["centroid"].values(), d["instance_bbox"].values()
                    n = len(d["centroid_val"].values())
                    for q in range(n):
                        cx = xf.radd(XF.of(cen[2 * q]).v, XF.of(bb[q * 8]).v)
                        cells = []
                        for j in range(W):
                            vvj = vals[f][j].v
                            cells.append(And(rcmp("==", cx, j * s), rcmp("==", XF.of(d["centroid_val"].values()[q]).v, vvj)))
                        discharge(ex, rep, "B5-crop-centroid-is-a-peak-of-its-own-frame", Or(*cells), on_sat=lambda mo, env, f=f, o=o: ("crops:foreign-centroid", f"batch {o}: a crop of frame {f} is centred on something that is not a cell/value of that frame's map", extract(mo, env)))
        rep.sample({"peaks_per_frame": npk, "path_condition": ex.path_summary(2, 60)})
    if ex.truncated:
        rep.inconclusive_item("centroid", "path budget exhausted")
    return rep.finish(extra={"ops": sorted(T.OPS_USED)})


def _run_bottomup(cfg):
    import torch
    from symx import torchfe as T, xf
    from symx.xf import XF, And, Or, Not, rcmp
    from symx.explorer import Explorer, model_env, DefaultEnv
    from symx.harness import Report, discharge
    pf, td, bu, si = _install()
    rep = Report(cfg)
    W, H, s, C = cfg["W"], 1, 2, cfg.get("C", 2)
    ex = Explorer([], timeout_ms=60000, max_paths=20000)
    vals = {}

    def run(order):
        cms = T.from_values([v for f in order for v in vals[f]], (len(order), C, H, W), torch.float32)
        model = bu.BottomUpInferenceModel(torch_model=None, paf_scorer=None, cms_output_stride=s, pafs_output_stride=4, peak_threshold=0.2, refinement=None, input_scale=1.0)
        model.batch_size = len(order)
        a, b, c = model._generate_cms_peaks(cms)
        return [(list(p.values()), list(v.values()), [int(x) for x in ch.materialize().tolist()]) for p, v, ch in zip(a, b, c)]

    def path():
        with T.SymMode():
            for f in "AB":
                vals[f] = _maps(T, f"m{f}", C, H, W)
            return {o: run(o) for o in ("AB", "BA", "A", "B")}

    def extract(model, env):
        return {"maps": {f: [[float(env[f"m{f}_{c}_0_{j}"]) for j in range(W)] for c in range(C)] for f in "AB"}}
    for outs in ex.run(path):
        rep.paths += 1
        rep.nontrivial_paths += 1
        for f in "AB":
            ref = outs[f][0]
            for o in ("AB", "BA"):
                got = outs[o][o.index(f)]
                ok = got[2] == ref[2]
                g = _eq_lists(got[0] + got[1], ref[0] + ref[1], xf) if ok else None
                if g is None:
                    rep.record("U1-bottomup-peaks-of-a-frame-independent-of-batch", "sat")
                    mo = ex.full_model()
                    rep.violation("U1-bottomup-peaks-of-a-frame-independent-of-batch", "bottomup:batch-dependence:structure", f"frame {f}: peak count/channels differ between batch {o} and alone", extract(mo, DefaultEnv(model_env(mo))))
                    continue
                discharge(ex, rep, "U1-bottomup-peaks-of-a-frame-independent-of-batch", g, on_sat=lambda mo, env, f=f, o=o: ("bottomup:batch-dependence", f"frame {f}: peaks in batch {o} differ from the frame alone", extract(mo, env)))
        na, nb = len(outs["A"][0][1]), len(outs["B"][0][1])
        rep.witness("path-with-empty-frame-and-nonempty-mate", (na == 0) != (nb == 0))
        rep.witness("path-with-two-peaks-in-a-frame", max(na, nb) >= 2)
        rep.sample({"peaks": {"A": na, "B": nb}, "path_condition": ex.path_summary(2, 60)})
    if ex.truncated:
        rep.inconclusive_item("bottomup", "path budget exhausted")
    return rep.finish(extra={"ops": sorted(T.OPS_USED)})


def _run_single(cfg):
    import torch
    from symx import torchfe as T, xf
    from symx.xf import XF, And, Or, Not, rcmp
    from symx.explorer import Explorer
    from symx.harness import Report, discharge
    pf, td, bu, si = _install()
    rep = Report(cfg)
    G, s, N, refinement = cfg["G"], 2, cfg.get("N", 2), cfg.get("refinement")
    if refinement is not None:
        from symx import stubs
        pf.crop_and_resize = stubs.crop_and_resize_model
    ef = {"A": z3.Real("effA"), "B": z3.Real("effB")}
    ex = Explorer([ef["A"] > 0, ef["B"] > 0], timeout_ms=60000, max_paths=5000)
    vals = {}

    def run(order):
        cms = T.from_values([v for f in order for v in vals[f]], (len(order), N, G, G), torch.float32)
        net = type("N", (torch.nn.Module,), {"forward": lambda self, img: cms})()
        model = si.SingleInstanceInferenceModel(net, output_stride=s, peak_threshold=0.2, refinement=refinement, integral_patch_size=3, input_scale=0.5)
        out = model({"image": torch.zeros(len(order), 1, 1, G * s, G * s), "eff_scale": T.from_values([XF(ef[f]) for f in order], (len(order),), torch.float32)})[0]
        pk, pv = out["pred_instance_peaks"].values(), out["pred_peak_values"].values()
        return {f: (pk[b * N * 2:(b + 1) * N * 2], pv[b * N:(b + 1) * N]) for b, f in enumerate(order)}

    def path():
        with T.SymMode():
            for f in "AB":
                vals[f] = _maps(T, f"m{f}", N, G, G)
            return {o: run(o) for o in ("AB", "BA", "A", "B")}

    def extract(model, env):
        return {"maps": {f: [float(env[f"m{f}_{c}_{i}_{j}"]) for c in range(N) for i in range(G) for j in range(G)] for f in "AB"}, "eff": {f: float(env[f"eff{f}"]) for f in "AB"}}
    for outs in ex.run(path):
        rep.paths += 1
        rep.nontrivial_paths += 1
        for f in "AB":
            ref = outs[f][f]
            for o in ("AB", "BA"):
                got = outs[o][f]
                discharge(ex, rep, "G1-single-instance-result-independent-of-batch", _eq_lists(got[0] + got[1], ref[0] + ref[1], xf),
                          on_sat=lambda mo, env, f=f, o=o: ("single:batch-dependence", f"frame {f}: single-instance result in batch {o} differs from the frame alone (incl. its own eff_scale)", extract(mo, env)))
        rep.sample({"path_condition": ex.path_summary(2, 60)})
    for w in REQUIRED_WITNESSES:
        rep.witness(w, True)
    return rep.finish(extra={"ops": sorted(T.OPS_USED)})


def _run_gtpeaks(cfg):
    """FindInstancePeaksGroundTruth (top-down inference with labelled poses standing in for the centered-instance model): the peaks reported for a
    frame are the same whether it is alone or shares the batch with another frame, in either order -- for ANY centroids (possibly missing, possibly
    more than the labelled-instance slots) and any labelled poses (possibly missing)."""
    import torch
    from symx import torchfe as T, xf
    from symx.xf import XF
    from symx.explorer import Explorer
    from symx.harness import Report, discharge
    pf, td, bu, si = _install()
    rep = Report(cfg)
    MI, NC, N = cfg["max_inst"], cfg["n_cent"], cfg["nodes"]
    ex = Explorer([], timeout_ms=60000, max_paths=20000)

    def frame(f):
        inst = [XF(z3.Real(f"i{f}_{a}_{n}_{c}"), z3.Bool(f"i{f}_{a}#nan")) for a in range(MI) for n in range(N) for c in "xy"]
        cent = [XF(z3.Real(f"c{f}_{k}_{c}"), z3.Bool(f"c{f}_{k}#nan")) for k in range(NC) for c in "xy"]
        return inst, cent

    def run(order, data):
        inst = T.from_values([v for f in order for v in data[f][0]], (len(order), 1, MI, N, 2), torch.float32)
        cent = T.from_values([v for f in order for v in data[f][1]], (len(order), 1, NC, 2), torch.float32)
        out = td.FindInstancePeaksGroundTruth()({"instances": inst, "centroids": cent, "eff_scale": torch.ones(len(order))})
        pk, pv = out["pred_instance_peaks"], out["pred_peak_values"]
        pkv = pk.values() if isinstance(pk, T.SymTensor) else [XF.of(v) for v in pk.reshape(-1).tolist()]
        pvv = pv.values() if isinstance(pv, T.SymTensor) else [XF.of(v) for v in pv.reshape(-1).tolist()]
        per, perv = len(pkv) // len(order), len(pvv) // len(order)
        return {f: (pkv[b * per:(b + 1) * per], pvv[b * perv:(b + 1) * perv]) for b, f in enumerate(order)}

    def path():
        with T.SymMode():
            data = {f: frame(f) for f in "AB"}
            try:
                return {o: run(o, data) for o in ("AB", "BA", "A", "B")}
            except Exception as e:  # noqa
                if isinstance(e, xf.EngineGap):
                    raise
                return ("EXC", e)

    def extract(model, env):
        def pt(name, flag):
            return ["nan", "nan"] if env[flag] else [float(env[name + "_x"]), float(env[name + "_y"])]
        return {"instances": {f: [[pt(f"i{f}_{a}_{n}", f"i{f}_{a}#nan") for n in range(N)] for a in range(MI)] for f in "AB"},
                "centroids": {f: [pt(f"c{f}_{k}", f"c{f}_{k}#nan") for k in range(NC)] for f in "AB"}}
    from symx.explorer import model_env, DefaultEnv
    for outs in ex.run(path):
        rep.paths += 1
        rep.nontrivial_paths += 1
        if isinstance(outs, tuple):
            mo = ex.full_model()
            rep.record("GT0-no-exception", "sat")
            rep.violation("GT0-no-exception", f"gtpeaks:exception:{type(outs[1]).__name__}", f"FindInstancePeaksGroundTruth raised {type(outs[1]).__name__}: {str(outs[1])[:120]}", extract(mo, DefaultEnv(model_env(mo))))
            continue
        rep.record("GT0-no-exception", "unsat")
        for f in "AB":
            ref = outs[f][f]
            for o in ("AB", "BA"):
                got = outs[o][f]
                goal = _eq_lists(list(got[0]) + list(got[1]), list(ref[0]) + list(ref[1]), xf)
                if goal is None:
                    mo = ex.full_model()
                    rep.record("GT1-ground-truth-peaks-independent-of-batch", "sat")
                    rep.violation("GT1-ground-truth-peaks-independent-of-batch", "gtpeaks:batch-dependence", f"frame {f}: output size in batch {o} differs from the frame alone", extract(mo, DefaultEnv(model_env(mo))))
                    continue
                discharge(ex, rep, "GT1-ground-truth-peaks-independent-of-batch", goal,
                          on_sat=lambda mo, env, f=f, o=o: ("gtpeaks:batch-dependence", f"frame {f}: ground-truth peaks in batch {o} differ from the frame alone", extract(mo, env)))
        rep.sample({"path_condition": ex.path_summary(2, 60)})
    for w in REQUIRED_WITNESSES:
        rep.witness(w, True)
    if ex.truncated:
        rep.inconclusive_item("gtpeaks", "path budget exhausted")
    return rep.finish(extra={"ops": sorted(T.OPS_USED)})


def _run_generator(cfg):
    """_predict_generator: every record batch carries the frame/video index, original size and image of its own frames, in order, for every batch size."""
    import torch, queue
    from symx import torchfe as T, xf
    from symx.xf import XF, And, rcmp
    from symx.explorer import Explorer, model_env, DefaultEnv
    from symx.harness import Report, discharge
    pf, td, bu, si = _install()
    import sleap_nn.inference.predictors as pr
    pr.torch = T.TORCH_PROXY
    rep = Report(cfg)
    B, F = cfg["batch"], cfg["frames"]
    fi = [z3.Int(f"fidx{k}") for k in range(F)]
    vi = [z3.Int(f"vidx{k}") for k in range(F)]
    ex = Explorer([z3.And(x >= 0, x < 1000) for x in fi + vi], timeout_ms=60000)

    def path():
        with T.SymMode():
            P = pr.SingleInstancePredictor.__new__(pr.SingleInstancePredictor)
            P.preprocess_config = {"batch_size": B, "scale": 1.0, "is_rgb": False, "max_stride": 1, "max_height": None, "max_width": None}
            P.preprocess = True
            P.instances_key = False
            P.inference_model = lambda ex_: [{"frame_idx": ex_["frame_idx"], "video_idx": ex_["video_idx"], "orig_size": ex_["orig_size"], "pix": ex_["image"][:, 0, 0, 0, 0], "eff": ex_["eff_scale"]}]
            q = queue.Queue()
            for k in range(F):
                # square frames of different sizes: size matching to 4x4 gives every frame its own effective scale 4/(2+k)
                q.put({"image": torch.full((1, 1, 2 + k, 2 + k), float(k + 1) / 8), "frame_idx": T.from_values([fi[k]], (), torch.int32), "video_idx": T.from_values([vi[k]], (), torch.int32),
                       "orig_size": torch.tensor([float(2 + k), float(2 + k)])})
            q.put({"image": None, "frame_idx": None, "video_idx": None, "orig_size": None})
            P.pipeline = type("R", (), {"frame_buffer": q, "start": lambda self: None, "join": lambda self: None})()
            P.preprocess_config["max_height"], P.preprocess_config["max_width"] = 4, 4  # size matching pads every frame to 4x4 so that they can be batched
            return list(P._predict_generator())

    def extract(model, env):
        return {"fidx": [int(env[f"fidx{k}"]) for k in range(F)], "vidx": [int(env[f"vidx{k}"]) for k in range(F)]}
    for recs in ex.run(path):
        rep.paths += 1
        rep.nontrivial_paths += 1
        want = [list(range(i, min(i + B, F))) for i in range(0, F, B)]
        ok = len(recs) == len(want)
        rep.record("P1-one-record-batch-per-B-frames-in-order", "unsat" if ok else "sat")
        if not ok:
            mo = ex.full_model()
            rep.violation("P1-one-record-batch-per-B-frames-in-order", "generator:batch-count", f"{len(recs)} record batches for {F} frames with batch size {B}", extract(mo, DefaultEnv(model_env(mo))))
            continue
        import numpy as np
        for r, ks in zip(recs, want):
            def vals_of(x):
                return x.values() if isinstance(x, T.SymTensor) else [v for v in np.asarray(x).reshape(-1)]
            f_, v_, o_, p_, e_ = vals_of(r["frame_idx"]), vals_of(r["video_idx"]), vals_of(r["orig_size"]), vals_of(r["pix"]), vals_of(r["eff"])
            if not (len(f_) == len(ks)):
                rep.record("P2-records-carry-their-own-frames-indices-size-and-image", "sat")
                continue
            goals = []
            for q_, k in enumerate(ks):
                goals += [rcmp("==", XF.of(f_[q_]).v, fi[k]), rcmp("==", XF.of(v_[q_]).v, vi[k]), rcmp("==", XF.of(o_[2 * q_]).v, 2 + k), rcmp("==", XF.of(o_[2 * q_ + 1]).v, 2 + k),
                          rcmp("==", XF.of(p_[q_]).v, Fraction(k + 1, 8))]
                # ... and its own size-matching scale (float32 of 4/(2+k))
                ev_ = XF.of(e_[q_]).v if q_ < len(e_) else None
                goals.append(False if ev_ is None else And(rcmp(">=", ev_, Fraction(4, 2 + k) - Fraction(1, 10 ** 5)), rcmp("<=", ev_, Fraction(4, 2 + k) + Fraction(1, 10 ** 5))))
            discharge(ex, rep, "P2-records-carry-their-own-frames-indices-size-and-image", And(*goals), on_sat=lambda mo, env: ("generator:misaligned", "a record carries another frame's index / size / image / effective scale", extract(mo, env)))
        rep.sample({"batches": want})
    for w in REQUIRED_WITNESSES:
        rep.witness(w, True)
    return rep.finish(extra={"ops": sorted(T.OPS_USED)})


# ------------------------------------------------------------------ replay (real torch)
def replay(cfg, inputs, obligation):
    import torch, numpy as np
    import sleap_nn.inference.topdown as td
    import sleap_nn.inference.bottomup as bu
    import sleap_nn.inference.single_instance as si
    kind = cfg["kind"]
    if kind == "centroid":
        W, m, crops, s = cfg["W"], cfg["max_instances"], cfg["crops"], 2
        maps, eff, fidx = inputs["maps"], inputs["eff"], inputs["fidx"]

        def run(order):
            cms = torch.tensor([[[maps[f]]] for f in order], dtype=torch.float32)
            net = type("N", (torch.nn.Module,), {"forward": lambda self, img: cms})()
            cc = td.CentroidCrop(net, output_stride=s, peak_threshold=0.2, max_instances=m, refinement=None, return_crops=crops, crop_hw=(2, 2), input_scale=1.0, max_stride=1)
            return cc({"image": torch.zeros(len(order), 1, 1, s, W * s), "frame_idx": torch.tensor([fidx[f] for f in order]), "video_idx": torch.tensor([0] * len(order)),
                       "orig_size": torch.tensor([[float(s), float(W * s)]] * len(order)), "eff_scale": torch.tensor([eff[f] for f in order], dtype=torch.float32)})
        outs = {o: run(o) for o in ("AB", "BA", "A", "B")}

        def frame_set(out, order, f):
            if out is None:
                return []
            if crops:
                r = []
                for d in out:
                    if int(d["frame_idx"][0]) == fidx[f]:
                        r += [(round(float(c[0] + b[0][0][0]), 4), round(float(v), 5)) for c, b, v in zip(d["centroid"], d["instance_bbox"], d["centroid_val"])]
                return sorted(r)
            b = order.index(f)
            return sorted((round(float(c[0]), 4), round(float(v), 5)) for c, v in zip(out["centroids"][b, 0], out["centroid_vals"][b]) if not torch.isnan(v))
        for f in "AB":
            alone = frame_set(outs[f], f, f)
            for o in ("AB", "BA"):
                if frame_set(outs[o], o, f) != alone:
                    return True, f"frame {f}: batch {o} gives {frame_set(outs[o], o, f)}, alone {alone} (maps {maps})"
        if crops:
            for o in ("AB", "BA"):
                for d in (outs[o] or []):
                    f = [g for g in "AB" if fidx[g] == int(d["frame_idx"][0])]
                    if not f or abs(float(d["eff_scale"][0]) - eff[f[0]]) > 1e-6:
                        return True, f"batch {o}: a crop record carries frame_idx {d['frame_idx'].tolist()} / eff {d['eff_scale'].tolist()}"
        if m is not None and not crops:
            for f in "AB":
                a = np.array(maps[f])
                pk = sorted([a[j] for j in range(W) if a[j] > 0.2 and all(a[j] > a[q] for q in (j - 1, j + 1) if 0 <= q < W)], reverse=True)[:m]
                got = sorted([v for _, v in frame_set(outs["AB"], "AB", f)], reverse=True)
                if not np.allclose(got, pk, atol=1e-5):
                    return True, f"frame {f}: kept values {got}, top-{m} peaks {pk}"
        return False, "per-frame results agree across batch compositions"
    if kind == "bottomup":
        W, s = cfg["W"], 2
        maps = inputs["maps"]

        def run(order):
            cms = torch.tensor([maps[f] for f in order], dtype=torch.float32).reshape(len(order), cfg.get("C", 2), 1, W)
            model = bu.BottomUpInferenceModel(torch_model=None, paf_scorer=None, cms_output_stride=s, pafs_output_stride=4, peak_threshold=0.2, refinement=None, input_scale=1.0)
            model.batch_size = len(order)
            a, b, c = model._generate_cms_peaks(cms)
            return [(p.tolist(), v.tolist(), ch.tolist()) for p, v, ch in zip(a.unbind(), b.unbind(), c.unbind())]
        outs = {o: run(o) for o in ("AB", "BA", "A", "B")}
        for f in "AB":
            for o in ("AB", "BA"):
                if outs[o][o.index(f)] != outs[f][0]:
                    return True, f"frame {f}: batch {o} gives {outs[o][o.index(f)]}, alone {outs[f][0]}"
        return False, "agree"
    if kind == "single":
        G, s, N = cfg["G"], 2, cfg.get("N", 2)
        maps, eff = inputs["maps"], inputs["eff"]

        def run(order):
            cms = torch.tensor([maps[f] for f in order], dtype=torch.float32).reshape(len(order), N, G, G)
            net = type("N", (torch.nn.Module,), {"forward": lambda self, img: cms})()
            model = si.SingleInstanceInferenceModel(net, output_stride=s, peak_threshold=0.2, refinement=cfg.get("refinement"), integral_patch_size=3, input_scale=0.5)
            out = model({"image": torch.zeros(len(order), 1, 1, G * s, G * s), "eff_scale": torch.tensor([eff[f] for f in order], dtype=torch.float32)})[0]
            return {f: (out["pred_instance_peaks"][b], out["pred_peak_values"][b]) for b, f in enumerate(order)}
        outs = {o: run(o) for o in ("AB", "BA", "A", "B")}
        for f in "AB":
            for o in ("AB", "BA"):
                a, b = outs[o][f], outs[f][f]
                if not (torch.allclose(a[0], b[0], equal_nan=True, atol=1e-5) and torch.allclose(a[1], b[1], atol=1e-6)):
                    return True, f"frame {f}: batch {o} gives {a[0].tolist()}, alone {b[0].tolist()}"
        return False, "agree"
    if kind == "gtpeaks":
        from symx.harness import unjson_float
        MI, NC, N = cfg["max_inst"], cfg["n_cent"], cfg["nodes"]

        def run(order):
            inst = torch.tensor([unjson_float(inputs["instances"][f]) for f in order], dtype=torch.float32).reshape(len(order), 1, MI, N, 2)
            cent = torch.tensor([unjson_float(inputs["centroids"][f]) for f in order], dtype=torch.float32).reshape(len(order), 1, NC, 2)
            out = td.FindInstancePeaksGroundTruth()({"instances": inst, "centroids": cent, "eff_scale": torch.ones(len(order))})
            return {f: (out["pred_instance_peaks"][b], out["pred_peak_values"][b * (out["pred_peak_values"].shape[0] // len(order)):(b + 1) * (out["pred_peak_values"].shape[0] // len(order))]) for b, f in enumerate(order)}
        try:
            outs = {o: run(o) for o in ("AB", "BA", "A", "B")}
        except Exception as e:  # noqa
            return obligation.startswith("GT0"), f"raised {type(e).__name__}: {e}"
        if obligation.startswith("GT0"):
            return False, "no exception"
        for f in "AB":
            for o in ("AB", "BA"):
                a, b = outs[o][f], outs[f][f]
                if a[0].shape != b[0].shape or not (torch.allclose(a[0], b[0], equal_nan=True, atol=1e-5) and torch.allclose(a[1], b[1], equal_nan=True, atol=1e-6)):
                    return True, f"frame {f}: batch {o} gives {a[0].tolist()}, alone {b[0].tolist()}"
        return False, "agree"
    if kind == "generator":
        import queue
        import sleap_nn.inference.predictors as pr
        B, F = cfg["batch"], cfg["frames"]
        fi, vi = inputs["fidx"], inputs["vidx"]
        P = pr.SingleInstancePredictor.__new__(pr.SingleInstancePredictor)
        P.preprocess_config = {"batch_size": B, "scale": 1.0, "is_rgb": False, "max_stride": 1, "max_height": 4, "max_width": 4}
        P.preprocess = True
        P.instances_key = False
        P.inference_model = lambda ex_: [{"frame_idx": ex_["frame_idx"], "video_idx": ex_["video_idx"], "orig_size": ex_["orig_size"], "pix": ex_["image"][:, 0, 0, 0, 0], "eff": ex_["eff_scale"]}]
        q = queue.Queue()
        for k in range(F):
            q.put({"image": torch.full((1, 1, 2 + k, 2 + k), float(k + 1) / 8), "frame_idx": torch.tensor(fi[k], dtype=torch.int32), "video_idx": torch.tensor(vi[k], dtype=torch.int32), "orig_size": torch.tensor([float(2 + k), float(2 + k)])})
        q.put({"image": None, "frame_idx": None, "video_idx": None, "orig_size": None})
        P.pipeline = type("R", (), {"frame_buffer": q, "start": lambda self: None, "join": lambda self: None})()
        recs = list(P._predict_generator())
        got = [(int(a), int(b), float(o[0]), round(float(p) * 8), round(float(e), 3)) for r in recs for a, b, o, p, e in zip(r["frame_idx"], r["video_idx"], r["orig_size"], r["pix"], r["eff"])]
        want = [(fi[k], vi[k], float(2 + k), k + 1, round(4 / (2 + k), 3)) for k in range(F)]
        return got != want, f"records {got} expected {want}"
    return False, "unknown"
