"""C13 simulation kernel: the two REAL thread bodies (reader.run and Predictor._predict_generator) are turned into
coroutines from their CURRENT source by an AST pass -- frame_buffer.put/get/... , pipeline.start/join and the
generator's own yields become scheduler requests -- and run under a deterministic scheduler over a bounded FIFO.
Which side moves when both are enabled is taken from ``sched`` (symbolic booleans under CrossHair)."""
from __future__ import annotations
import ast, inspect, textwrap
from typing import List
import numpy as np


class _QT(ast.NodeTransformer):
    def visit_Yield(self, node):
        self.generic_visit(node)
        return ast.Yield(value=ast.Tuple(elts=[ast.Constant("out"), node.value], ctx=ast.Load()))

    def visit_Call(self, node):
        self.generic_visit(node)
        f = node.func
        if isinstance(f, ast.Attribute):
            if isinstance(f.value, ast.Attribute) and f.value.attr == "frame_buffer" and f.attr in ("put", "get", "full", "empty", "qsize", "put_nowait", "get_nowait"):
                kw = {k.arg for k in node.keywords}
                if f.attr == "get" and ("timeout" in kw or len(node.args) >= 2):  # get(timeout=...): returns an item or raises queue.Empty once the wait is over
                    return ast.Yield(value=ast.Tuple(elts=[ast.Constant("get_timeout")], ctx=ast.Load()))
                if f.attr == "put" and ("timeout" in kw or len(node.args) >= 3):
                    return ast.Yield(value=ast.Tuple(elts=[ast.Constant("put_timeout")] + node.args[:1], ctx=ast.Load()))
                return ast.Yield(value=ast.Tuple(elts=[ast.Constant(f.attr)] + node.args, ctx=ast.Load()))
            if isinstance(f.value, ast.Attribute) and f.value.attr == "pipeline" and f.attr in ("start", "join", "is_alive"):
                return ast.Yield(value=ast.Tuple(elts=[ast.Constant(f.attr)], ctx=ast.Load()))
        return node


def coroutine_of(fn, glb):
    src = textwrap.dedent(inspect.getsource(fn))
    tree = ast.parse(src)
    fd = tree.body[0]
    fd.decorator_list = []
    _QT().visit(fd)
    ast.fix_missing_locations(tree)
    ns = {}
    exec(compile(tree, f"<coroutine {fn.__qualname__}>", "exec"), glb, ns)
    return ns[fd.name]


class _NoLog:
    def __getattr__(self, k):
        return lambda *a, **kw: None


_CO = {}


def coroutines():
    if not _CO:
        import sleap_nn.data.providers as prov
        import sleap_nn.inference.predictors as pred
        g1 = dict(vars(prov))
        g1["logger"] = _NoLog()
        g2 = dict(vars(pred))
        g2["logger"] = _NoLog()
        _CO["video"] = coroutine_of(prov.VideoReader.run, g1)
        _CO["labels"] = coroutine_of(prov.LabelsReader.run, g1)
        _CO["consumer"] = coroutine_of(pred.Predictor._predict_generator, g2)
        _CO["src"] = {k: inspect.getsource(f) for k, f in (("video", prov.VideoReader.run), ("labels", prov.LabelsReader.run), ("consumer", pred.Predictor._predict_generator))}
    return _CO


H = W = 4


def label_frame_height(idx):
    """labelled frames come from videos of different sizes: odd frame indices are taller (each record must carry ITS OWN original size)"""
    return H if idx % 2 == 0 else H + 2


class FakeVideo:
    def __init__(self, n, fail):
        self.n, self.fail, self.shape = n, fail, (n, H, W, 1)

    def __getitem__(self, idx):
        if idx == self.fail:
            raise IOError("read failure")
        return np.full((H, W, 1), idx % 251, dtype=np.uint8)


class _LF:
    def __init__(self, idx, fail, video):
        self.frame_idx, self._fail, self.video = idx, fail, video

    @property
    def image(self):
        if self.frame_idx == self._fail:
            raise IOError("read failure")
        return np.full((label_frame_height(self.frame_idx), W, 1), self.frame_idx % 251, dtype=np.uint8)


class FakeLabels:
    def __init__(self, start, end, fail):
        self.videos = ["v0"]
        self._frames = [_LF(i, fail, "v0") for i in range(start, end)]

    @property
    def user_labeled_frames(self):  # every third frame carries predictions only: inference must still read ALL frames of the labels file
        return [f for f in self._frames if f.frame_idx % 3 != 2]

    @property
    def labeled_frames(self):
        return list(self._frames)

    def __len__(self):
        return len(self._frames)

    def __getitem__(self, i):
        return self._frames[i]


class _Obj:
    pass


EXTRA_FRAMES = 1


def make_video_reader(n_frames, fail, start, end):
    """real VideoReader.__init__ (Thread base-class initialiser stubbed, thread never started) on a fake video of n_frames"""
    import threading
    import sleap_nn.data.providers as prov
    real = threading.Thread.__init__
    threading.Thread.__init__ = lambda self, *a, **k: None  # the thread object is never started here; its base-class set-up is irrelevant and slow to trace
    try:
        return prov.VideoReader(FakeVideo(n_frames, fail), None, start, end)
    finally:
        threading.Thread.__init__ = real


def range_resolution(n: int, start: int, end: int, start_none: bool, end_none: bool):
    """-> (ok, reason): the range the real constructor resolves is [start or 0, end or n) exactly, for given and omitted bounds"""
    r = make_video_reader(n, -1, None if start_none else start, None if end_none else end)
    lo = 0 if start_none else start
    hi = n if end_none else end
    if r.start_idx != lo or r.end_idx != hi:
        return False, f"requested ({None if start_none else start}, {None if end_none else end}) on {n} frames resolved to ({r.start_idx}, {r.end_idx}), expected ({lo}, {hi})"
    if r.total_len() != hi - lo:
        return False, f"total_len {r.total_len()} != {hi - lo}"
    return True, "ok"


def simulate(kind: str, start: int, end: int, Q: int, B: int, fail: int, sched: List[bool], max_steps: int = 400):
    co = coroutines()
    reader = _Obj()
    reader.frame_buffer = None
    if kind == "video":
        # the requested range goes through the REAL constructor; the video is one frame longer than the requested end, so a range
        # that is resolved wrongly (e.g. replaced by the video length) shows as extra frames
        reader = make_video_reader(end + EXTRA_FRAMES, fail, start, end)
        prod = co["video"](reader)
    else:
        import sleap_nn.data.providers as prov
        reader = prov.LabelsReader.__new__(prov.LabelsReader)  # real class (real total_len and friends); the constructor needs sleap_io labels, so its four attributes are set here
        reader.labels = FakeLabels(start, end, fail)
        reader.frame_buffer = None
        reader.instances_key = False
        reader.max_instances = 1
        prod = co["labels"](reader)
    P = _Obj()
    P.pipeline = _Obj()
    P.pipeline.frame_buffer = None
    P.inference_model = lambda ex: [{"frame_idx": ex["frame_idx"], "pixel": ex["image"].reshape(ex["image"].shape[0], -1)[:, 0] * 255.0, "orig_size": ex["orig_size"]}]
    P.preprocess_config = {"batch_size": B, "scale": 1.0, "is_rgb": False, "max_stride": 1, "max_height": None, "max_width": None}
    if kind == "labels":  # frames of different sizes are size-matched to a common 6x6 so that they can share a batch
        P.preprocess_config["max_height"] = P.preprocess_config["max_width"] = H + 2
    P.instances_key = False
    P.preprocess = False
    P._convert_tensors_to_numpy = lambda o: o
    cons = co["consumer"](P)
    buf, out, delivered = [], [], []
    pstate, preq, psend = "notstarted", None, None
    cdone, csend = False, None
    steps = si = 0
    creq = next(cons)
    while True:
        steps += 1
        if steps > max_steps:
            return "diverge", out, delivered, pstate
        c_en = (not cdone) and (creq[0] != "get" or len(buf) > 0) and (creq[0] != "join" or pstate == "done")  # get_nowait never blocks
        p_en = pstate == "running" and preq is not None and (preq[0] != "put" or len(buf) < Q)  # put_nowait never blocks
        if not c_en and not p_en:
            if cdone and pstate == "done":
                return "ok", out, delivered, pstate
            return ("hang:consumer-blocked" if not cdone else "hang:producer-blocked-after-consumer-finished"), out, delivered, pstate
        if c_en and p_en:
            # beyond the symbolic schedule the default is fair to a polling consumer: a poll on an empty queue lets the producer run
            pick_c = sched[si] if si < len(sched) else not (creq[0] in ("get_timeout", "get_nowait", "empty", "qsize", "full", "is_alive") and not buf)
            si += 1
        else:
            pick_c = c_en
        if pick_c:
            k = creq[0]
            if k == "start":
                pstate = "running"
                try:
                    preq = next(prod)
                except StopIteration:
                    pstate, preq = "done", None
                csend = None
            elif k == "get":
                csend = buf.pop(0)
                delivered.append(csend)
            elif k == "is_alive":
                csend = pstate == "running"
            elif k in ("get_nowait", "get_timeout"):  # a timed get that is scheduled while the queue is empty has waited in vain: queue.Empty
                if buf:
                    csend = buf.pop(0)
                    delivered.append(csend)
                else:
                    import queue as _q
                    try:
                        creq = cons.throw(_q.Empty())
                    except StopIteration:
                        cdone = True
                    continue
            elif k == "out":
                out.append(creq[1])
                csend = None
            elif k in ("empty", "full", "qsize"):
                csend = {"empty": len(buf) == 0, "full": len(buf) >= Q, "qsize": len(buf)}[k]
            else:
                csend = None
            try:
                creq = cons.send(csend)
            except StopIteration:
                cdone = True
        else:
            k = preq[0]
            throw = None
            if k == "put":
                buf.append(preq[1])
                psend = None
            elif k == "put_nowait":
                if len(buf) < Q:
                    buf.append(preq[1])
                else:
                    import queue as _q
                    throw = _q.Full()
                psend = None
            elif k in ("empty", "full", "qsize"):
                psend = {"empty": len(buf) == 0, "full": len(buf) >= Q, "qsize": len(buf)}[k]
            try:
                preq = prod.throw(throw) if throw is not None else prod.send(psend)
            except StopIteration:
                pstate, preq = "done", None
            except Exception:  # noqa  the reader thread died with an uncaught exception
                pstate, preq = "done", None
            psend = None


def verdict(kind: str, start: int, end: int, Q: int, B: int, fail: int, sched: List[bool]):
    """-> (ok, reason)"""
    status, out, delivered, pstate = simulate(kind, start, end, Q, B, fail, sched)
    if status != "ok":
        return False, status
    stop = end if (fail < start or fail >= end) else fail
    exp = list(range(start, stop))
    idxs = [None if d["frame_idx"] is None else int(d["frame_idx"]) for d in delivered]
    if idxs != exp + [None]:
        return False, f"delivered {idxs}, expected {exp} then exactly one end marker"
    for d in delivered[:-1]:
        want = (label_frame_height(int(d["frame_idx"])), W) if kind == "labels" else (H, W)
        if tuple(int(v) for v in d["orig_size"].tolist()) != want:
            return False, f"frame {int(d['frame_idx'])} delivered with original size {tuple(int(v) for v in d['orig_size'].tolist())}, its own is {want}"
    for o in out:
        for fi, osz in zip(o["frame_idx"], o["orig_size"]):
            want = (label_frame_height(int(fi)), W) if kind == "labels" else (H, W)
            if tuple(int(v) for v in osz.tolist()) != want:
                return False, f"record of frame {int(fi)} carries original size {tuple(int(v) for v in osz.tolist())}, its own is {want}"
    got = [int(i) for o in out for i in o["frame_idx"]]
    if got != exp:
        return False, f"records {got}, expected {exp}"
    pix = [int(round(float(p))) for o in out for p in o["pixel"]]
    if pix != [e % 251 for e in exp]:
        return False, f"record images {pix} do not belong to frames {exp}"
    for o in out:
        if len(o["frame_idx"]) > B:
            return False, "batch larger than batch size"
    return True, "ok"
