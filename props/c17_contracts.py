"""PEP-316 contracts for C17 (CrossHair)."""
from __future__ import annotations
from typing import List


def is_tree(src, dst):
    """src[i] -> dst[i] are the edges of a rooted tree on the nodes 0..n (n = number of edges), any labelling."""
    n = len(src)
    if len(dst) != n or len(set(dst)) != n:
        return False
    nodes = set(range(n + 1))
    if not (set(src) | set(dst)) <= nodes:
        return False
    roots = nodes - set(dst)
    if len(roots) != 1:
        return False
    par = {d: s for s, d in zip(src, dst)}
    for v in nodes:
        steps, x = 0, v
        while x in par:
            x = par[x]
            steps += 1
            if steps > n:
                return False
    return True


def _order_ok(src, dst, order):
    n = len(src)
    if sorted(order) != list(range(n)):
        return False
    pos = {e: i for i, e in enumerate(order)}
    for e in range(n):
        for f in range(n):
            if dst[f] == src[e] and not pos[f] < pos[e]:
                return False
    return True


def _check(src, dst):
    from sleap_nn.inference.paf_grouping import toposort_edges, EdgeType, PAFScorer
    order = toposort_edges([EdgeType(s, d) for s, d in zip(src, dst)])
    if not _order_ok(src, dst, list(order)):
        return False
    names = [f"n{i}" for i in range(len(src) + 1)]
    # history: a scorer for the SAME skeleton with its edges listed in reverse order is built first; nothing remembered from it (an order cached
    # per edge set, say) may leak into the scorer under test
    PAFScorer(part_names=names, edges=[(names[s], names[d]) for s, d in zip(src, dst)][::-1], pafs_stride=2)
    sc = PAFScorer(part_names=names, edges=[(names[s], names[d]) for s, d in zip(src, dst)], pafs_stride=2)
    return _order_ok(src, dst, list(sc.sorted_edge_inds)) and sc.n_edges == len(src) and sc.n_nodes == len(names)


def edge_order_complete_and_parent_first_1(src: List[int], dst: List[int]) -> bool:
    """
    pre: len(src) == 1 and len(dst) == 1
    pre: all(0 <= s <= 1 for s in src) and all(0 <= d <= 1 for d in dst)
    pre: is_tree(src, dst)
    post: _
    """
    return _check(src, dst)


def edge_order_complete_and_parent_first_2(src: List[int], dst: List[int]) -> bool:
    """
    pre: len(src) == 2 and len(dst) == 2
    pre: all(0 <= s <= 2 for s in src) and all(0 <= d <= 2 for d in dst)
    pre: is_tree(src, dst)
    post: _
    """
    return _check(src, dst)


def edge_order_complete_and_parent_first_3_r0(src: List[int], dst: List[int]) -> bool:
    """
    pre: len(src) == 3 and len(dst) == 3
    pre: all(0 <= s <= 3 for s in src) and all(0 <= d <= 3 for d in dst)
    pre: 0 not in dst
    pre: is_tree(src, dst)
    post: _
    """
    return _check(src, dst)


def edge_order_complete_and_parent_first_3_r1(src: List[int], dst: List[int]) -> bool:
    """
    pre: len(src) == 3 and len(dst) == 3
    pre: all(0 <= s <= 3 for s in src) and all(0 <= d <= 3 for d in dst)
    pre: 1 not in dst
    pre: is_tree(src, dst)
    post: _
    """
    return _check(src, dst)


def edge_order_complete_and_parent_first_3_r2(src: List[int], dst: List[int]) -> bool:
    """
    pre: len(src) == 3 and len(dst) == 3
    pre: all(0 <= s <= 3 for s in src) and all(0 <= d <= 3 for d in dst)
    pre: 2 not in dst
    pre: is_tree(src, dst)
    post: _
    """
    return _check(src, dst)


def edge_order_complete_and_parent_first_3_r3(src: List[int], dst: List[int]) -> bool:
    """
    pre: len(src) == 3 and len(dst) == 3
    pre: all(0 <= s <= 3 for s in src) and all(0 <= d <= 3 for d in dst)
    pre: 3 not in dst
    pre: is_tree(src, dst)
    post: _
    """
    return _check(src, dst)


def edge_order_complete_and_parent_first_4_r0(src: List[int], dst: List[int]) -> bool:
    """
    pre: len(src) == 4 and len(dst) == 4
    pre: all(0 <= s <= 4 for s in src) and all(0 <= d <= 4 for d in dst)
    pre: 0 not in dst
    pre: is_tree(src, dst)
    post: _
    """
    return _check(src, dst)


def edge_order_complete_and_parent_first_4_r1(src: List[int], dst: List[int]) -> bool:
    """
    pre: len(src) == 4 and len(dst) == 4
    pre: all(0 <= s <= 4 for s in src) and all(0 <= d <= 4 for d in dst)
    pre: 1 not in dst
    pre: is_tree(src, dst)
    post: _
    """
    return _check(src, dst)


def edge_order_complete_and_parent_first_4_r2(src: List[int], dst: List[int]) -> bool:
    """
    pre: len(src) == 4 and len(dst) == 4
    pre: all(0 <= s <= 4 for s in src) and all(0 <= d <= 4 for d in dst)
    pre: 2 not in dst
    pre: is_tree(src, dst)
    post: _
    """
    return _check(src, dst)


def edge_order_complete_and_parent_first_4_r3(src: List[int], dst: List[int]) -> bool:
    """
    pre: len(src) == 4 and len(dst) == 4
    pre: all(0 <= s <= 4 for s in src) and all(0 <= d <= 4 for d in dst)
    pre: 3 not in dst
    pre: is_tree(src, dst)
    post: _
    """
    return _check(src, dst)


def edge_order_complete_and_parent_first_4_r4(src: List[int], dst: List[int]) -> bool:
    """
    pre: len(src) == 4 and len(dst) == 4
    pre: all(0 <= s <= 4 for s in src) and all(0 <= d <= 4 for d in dst)
    pre: 4 not in dst
    pre: is_tree(src, dst)
    post: _
    """
    return _check(src, dst)


