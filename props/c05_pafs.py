"""C05 -- part-affinity-field targets point along each edge and vanish where they must.

The real generate_pafs (make_multi_pafs, make_pafs, make_edge_maps, distance_to_edge, get_edge_points, gaussian_pdf,
expand_to_rank, make_grid_vectors) runs on symbolic keypoints; special values (NaN endpoints, zero-length edges)
are split into paths eagerly, so each path's obligations are polynomial arithmetic."""
from __future__ import annotations
import itertools
from fractions import Fraction
import z3

ID = "C05"
FUNCTIONS = [("sleap_nn.data.edge_maps", "generate_pafs"), ("sleap_nn.data.edge_maps", "make_multi_pafs"), ("sleap_nn.data.edge_maps", "make_pafs"),
             ("sleap_nn.data.edge_maps", "make_edge_maps"), ("sleap_nn.data.edge_maps", "distance_to_edge"), ("sleap_nn.data.edge_maps", "get_edge_points"),
             ("sleap_nn.data.utils", "gaussian_pdf"), ("sleap_nn.data.utils", "expand_to_rank"), ("sleap_nn.data.utils", "make_grid_vectors")]
EXPLANATION = ("Bounded symbolic execution of the real PAF generator on symbolic keypoints (any sub-pixel position, coincident nodes, missing points, "
               "animals inside / outside the image). Per feasible path (in-image mask x missing-point pattern x zero-length edges) z3 decides per cell: "
               "S1 the output equals the sum over kept animals of w*(dst-src)/|dst-src| with w = exp(-(dist^2)^2/2sigma^2) of the true clamped-projection "
               "distance (edges >= 1 px), in channel order e0.x,e0.y,e1.x,...; S2 never NaN/inf; S3 single animal: parallel, same orientation, |v|<=1; "
               "S4 degenerate edges / filtered animals contribute exactly zero; S5 single animal, any non-zero edge length: |field| equals the weight the code computed "
               "for the cell (the direction factor is a unit vector); every call is preceded by one with another geometry of the same grid shape (no state survives); K the animals the code itself keeps (read off the tensor it hands to "
               "get_edge_points) include every animal with a node strictly inside the grid box (K1) and no animal wholly outside the image that has a "
               "drawable edge (K2), on square and non-square images; L the reference distance is the true point-to-segment distance.")
ASSUMPTIONS = ["exact real arithmetic + IEEE special values; a missing keypoint has both coordinates NaN (one flag per point)",
               "exp: uninterpreted with axioms (S1, monotonicity) / fresh bounded real (S2, S3)",
               "S1's weight reference is asserted for edges of length >= 1 px: distance_to_edge clamps |edge|^2 to >= 1 (inherited guard), shorter edges get S2-S4 only",
               "animals lying exactly on the border lines or only inside the last partial-cell strip are in neither class of the property and outside the claim"]
STUBS = ["none"]
OUTSIDE = ["grids larger than 4x4 cells, more than 2 animals / 3 nodes / 2 edges", "float32 rounding", "the DataPipe wrapper (C18)"]
REQUIRED_WITNESSES = ["path-with-kept-animal", "path-with-dropped-animal", "path-with-missing-endpoint", "path-with-zero-length-edge"]


def bounds(tier):
    return {"animals": "<=2", "nodes": "<=3", "edge_lists": [[[0, 1]], [[1, 0]], [[0, 1], [1, 2]], [[0, 2], [0, 1]]], "grid": "<=4x4 cells", "stride": [1, 2, 4],
            "sigma": [0.5, 1.5], "coordinates": "unbounded reals, one NaN flag per point"}


def configs(tier, seed):
    out = []
    base = [
        (1, 2, [[0, 1]], 4, 4, 2, 1.5), (1, 2, [[1, 0]], 4, 8, 2, 1.5), (1, 3, [[0, 1], [1, 2]], 4, 4, 2, 1.5), (2, 2, [[0, 1]], 4, 4, 2, 1.5),
        (1, 3, [[0, 2], [0, 1]], 8, 8, 4, 1.5), (1, 2, [[0, 1]], 3, 3, 1, 0.5),
    ]
    if tier == "thorough":
        base += [(2, 3, [[0, 1], [1, 2]], 4, 4, 2, 1.5), (2, 2, [[1, 0]], 8, 8, 4, 0.5), (1, 3, [[0, 2], [0, 1]], 4, 4, 1, 1.5), (1, 2, [[0, 1]], 8, 8, 2, 1.5),
                 (2, 3, [[0, 2], [0, 1]], 8, 4, 2, 0.5), (1, 2, [[0, 1]], 16, 16, 4, 1.5)]
    for (A, N, edges, H, W, stride, sigma) in base:
        for mode in ("uf", "fresh"):
            out.append(dict(kind="main", A=A, N=N, edges=edges, H=H, W=W, stride=stride, sigma=sigma, mode=mode))
    out.append(dict(kind="lemma"))
    out.append(dict(kind="validate", seed=seed))
    return out


def run_config(cfg):
    return {"main": _run_main, "lemma": _run_lemma, "validate": _validate}[cfg["kind"]](cfg)


def _sym_instances(T, A, N):
    """(1, A, N, 2) keypoints with ONE NaN flag per point."""
    import torch
    from symx.xf import XF
    vals = []
    for a in range(A):
        for n in range(N):
            fl = z3.Bool(f"k_{a}_{n}#nan")
            vals += [XF(z3.Real(f"k_{a}_{n}_x"), fl), XF(z3.Real(f"k_{a}_{n}_y"), fl)]
    return T.from_values(vals, (1, A, N, 2), torch.float32)


def _extract(cfg):
    A, N = cfg["A"], cfg["N"]

    def f(model, env):
        pts = []
        for a in range(A):
            for n in range(N):
                if env[f"k_{a}_{n}#nan"]:
                    pts.append([float("nan"), float("nan")])
                else:
                    pts.append([float(env[f"k_{a}_{n}_x"]), float(env[f"k_{a}_{n}_y"])])
        return {"instances": pts, "shape": [1, A, N, 2]}
    return f


def _ref_dist2(px, py, sx, sy, ex_, ey_, len2):
    """true squared distance from grid point p to the segment s + t e, t in [0,1] (edge length >= 1 assumed by the caller)."""
    from symx import xf
    rx, ry = xf.rsub(px, sx), xf.rsub(py, sy)
    t = xf.rdiv(xf.radd(xf.rmul(rx, ex_), xf.rmul(ry, ey_)), len2)
    t = xf.RIte(xf.rcmp("<", t, 0), Fraction(0), xf.RIte(xf.rcmp(">", t, 1), Fraction(1), t))
    qx, qy = xf.rsub(xf.rmul(t, ex_), rx), xf.rsub(xf.rmul(t, ey_), ry)
    return xf.radd(xf.rmul(qx, qx), xf.rmul(qy, qy))


def _run_main(cfg):
    import torch
    from symx import torchfe as T, xf
    from symx.xf import XF, And, Or, Not, rcmp, R, EXP, RIte, CTX
    from symx.explorer import Explorer
    from symx.harness import Report, discharge, discharge_all
    from sleap_nn.data.edge_maps import generate_pafs
    T.install_patches()
    rep = Report(cfg)
    A, N, edges, H, W, stride, sigma = cfg["A"], cfg["N"], cfg["edges"], cfg["H"], cfg["W"], cfg["stride"], cfg["sigma"]
    E = len(edges)
    gh, gw = -(-H // stride), -(-W // stride)
    xlast, ylast = (gw - 1) * stride, (gh - 1) * stride
    uf = cfg["mode"] == "uf"
    ex = Explorer([], timeout_ms=60000, exp_mode=cfg["mode"], fork_specials=True)
    extract = _extract(cfg)

    import sleap_nn.data.edge_maps as em
    import sleap_nn.data.utils as du
    taps = []

    wtaps = []

    def tapped_gaussian_pdf(x, sigma):  # observation only: records the squared distances handed to the real gaussian_pdf and the weights it returns
        taps.append(x)
        w_ = du.gaussian_pdf(x, sigma)
        wtaps.append(w_)
        return w_
    em.gaussian_pdf = tapped_gaussian_pdf
    kept_taps = []
    real_get_edge_points = em.get_edge_points

    def tapped_get_edge_points(instances, edge_inds):  # observation only: the animals that survived the code's own in-image filter
        kept_taps.append(instances)
        return real_get_edge_points(instances, edge_inds)
    em.get_edge_points = tapped_get_edge_points

    def path():
        with T.SymMode():
            # history: a call with another geometry that yields the same grid shape comes first; nothing of it may survive into the call under test
            generate_pafs(torch.full((1, A, N, 2), 1.0) + torch.arange(N, dtype=torch.float32).reshape(1, 1, N, 1), (2 * H, 2 * W), 2.75, 2 * stride, torch.tensor(edges), True)
            taps.clear()
            wtaps.clear()
            kept_taps.clear()
            inst = _sym_instances(T, A, N)
            try:
                out = generate_pafs(inst, (H, W), sigma, stride, torch.tensor(edges), True)
            except Exception as e:  # noqa  (the generator must produce a field -- possibly all zero -- for EVERY instances array)
                if isinstance(e, xf.EngineGap):
                    raise
                return inst, ("EXC", e), [], [], [], []
        return inst, out, list(taps), [(a, v) for k, (a, v) in CTX.memo.items() if k[0] == "sqrt"], list(kept_taps), list(wtaps)

    two_s2 = Fraction(2 * sigma ** 2)
    for inst, out, dist_taps, sqrt_defs, kept_obs, w_obs in ex.run(path):
        rep.paths += 1
        rep.nontrivial_paths += 1
        kv = inst.values()
        env0 = None
        if isinstance(out, tuple) and out and out[0] == "EXC":
            from symx.explorer import model_env as _me, DefaultEnv as _DE
            mo_ = ex.full_model()
            rep.record("T-no-exception", "sat")
            rep.violation("T-no-exception", f"exception:{type(out[1]).__name__}", f"generate_pafs raised {type(out[1]).__name__}: {str(out[1])[:120]}", extract(mo_, _DE(_me(mo_))))
            continue
        rep.record("T-no-exception", "unsat")

        def K(a, n):
            return kv[(a * N + n) * 2], kv[(a * N + n) * 2 + 1]
        ok_shape = tuple(out.shape) == (2 * E, gh, gw)
        rep.record("O1-shape-2E-by-grid", "unsat" if ok_shape else "sat")
        if not ok_shape:
            rep.violation("O1-shape-2E-by-grid", "O1-shape", f"shape {tuple(out.shape)} != {(2 * E, gh, gw)}", {"instances": [[1.0, 1.0]] * (A * N), "shape": [1, A, N, 2]})
            continue
        ov = out.values()

        def cell(ch, i, j):
            return ov[(ch * gh + i) * gw + j]
        # ---- which animals does this path keep?  (decided from the path condition, per animal)
        strictly_in = []
        wholly_out = []
        for a in range(A):
            nodes_in = []
            nodes_out = []
            for n in range(N):
                x, y = K(a, n)
                nodes_in.append(And(Not(x.nan), rcmp(">", x.v, 0), rcmp("<", x.v, xlast), rcmp(">", y.v, 0), rcmp("<", y.v, ylast)))
                nodes_out.append(Or(x.nan, rcmp("<", x.v, 0), rcmp(">", x.v, W), rcmp("<", y.v, 0), rcmp(">", y.v, H)))
            strictly_in.append(Or(*nodes_in))
            wholly_out.append(And(*nodes_out))
        # the code's own decision on this path, read off the tensor it hands to get_edge_points (rows are the animals' own terms)
        kept = [False] * A
        ok_obs = len(kept_obs) == 1 and len(kept_obs[0].shape) == 3 and tuple(kept_obs[0].shape[1:]) == (N, 2)
        if ok_obs:
            rows = kept_obs[0].values()
            for r_ in range(kept_obs[0].shape[0]):
                row = rows[r_ * N * 2:(r_ + 1) * N * 2]
                hit = [a for a in range(A) if all(row[k] is kv[a * N * 2 + k] for k in range(N * 2))]
                if len(hit) == 1 and not kept[hit[0]]:
                    kept[hit[0]] = True
                else:
                    ok_obs = False
        if not ok_obs:
            rep.inconclusive_item("K-filter", "could not read the kept animals off the tensor handed to get_edge_points")
        from symx.explorer import model_env, DefaultEnv
        for a in range(A):
            if kept[a]:
                continue
            else:
                v = ex.query([xf.zb(strictly_in[a])])
                rep.record("K1-animals-with-a-node-strictly-inside-the-grid-box-are-kept", "unsat" if v.status == "unsat" else v.status)
                if v.status == "sat":
                    # prefer an observable counterexample: some edge of the dropped animal is drawable (both endpoints present, >= 1 px) and near the grid
                    drawable = []
                    for (s_, d_) in edges:
                        (sx, sy), (dx, dy) = K(a, s_), K(a, d_)
                        ex_, ey_ = xf.rsub(dx.v, sx.v), xf.rsub(dy.v, sy.v)
                        drawable.append(And(Not(sx.nan), Not(dx.nan), rcmp(">=", xf.radd(xf.rmul(ex_, ex_), xf.rmul(ey_, ey_)), 1)))
                    near = [xf.zb(Or(x_.nan, And(rcmp(">=", x_.v, -1), rcmp("<=", x_.v, max(H, W) + 1)))) for n in range(N) for x_ in K(a, n)]
                    v_obs = ex.query([xf.zb(strictly_in[a]), xf.zb(Or(*drawable))] + near)
                    if v_obs.status == "sat":
                        v = v_obs
                    rep.violation("K1-animals-with-a-node-strictly-inside-the-grid-box-are-kept", "K1-inside", "an animal with a node strictly inside the grid box is dropped",
                                  extract(v.model, DefaultEnv(model_env(v.model))))
                elif v.status != "unsat":
                    rep.inconclusive_item("K1-animals-with-a-node-strictly-inside-the-grid-box-are-kept", "unknown")
        # S obligations are claimed for frames whose animals are all in one of the two classes (the border strip between grid box and image
        # edge is outside the claim): guard them with the per-animal class membership the path does not already imply
        claim_terms = []
        in_claim = True
        for a in range(A):
            c_ = Or(strictly_in[a], wholly_out[a])
            if ex.query([xf.zb(c_)]).status == "unsat":
                in_claim = False
                break
            if ex.query([xf.zb(Not(c_))]).status != "unsat":
                claim_terms.append(c_)
        if not in_claim:
            rep.sample({"kept": kept, "skipped": "path lies wholly in the border strip", "path_condition": ex.path_summary(3, 70)})
            continue
        claim = And(*claim_terms) if claim_terms else True
        rep.witness("path-with-kept-animal", any(kept))
        rep.witness("path-with-dropped-animal", not all(kept))
        # ---- reference per kept animal / edge
        sig = f"A{A}N{N}E{E}"
        any_missing = False
        any_zero = False
        abstract = []
        ref_terms = {}  # (e, comp, i, j) -> real term (uf mode)
        guards = []
        valid_flags = {}
        kept_rank = -1
        for a in range(A):
            if not kept[a]:
                continue
            kept_rank += 1
            dvals = dist_taps[kept_rank].values() if kept_rank < len(dist_taps) and tuple(dist_taps[kept_rank].shape) == (gh, gw, E) else None
            for e, (s_, d_) in enumerate(edges):
                (sx, sy), (dx, dy) = K(a, s_), K(a, d_)
                miss = Or(sx.nan, dx.nan)
                ex_, ey_ = xf.rsub(dx.v, sx.v), xf.rsub(dy.v, sy.v)
                len2 = xf.radd(xf.rmul(ex_, ex_), xf.rmul(ey_, ey_))
                # missing endpoints / zero length are normally already decided on a path (the code's own NaN tests and divisions fork eagerly);
                # where the code under test leaves them open the harness decides them itself (forks), never guesses
                is_miss = ex.decide(xf.zb(miss))
                is_zero = False if is_miss else ex.decide(xf.zb(rcmp("==", len2, 0)))
                any_missing |= is_miss
                any_zero |= is_zero
                valid = (not is_miss) and (not is_zero)
                valid_flags[(a, e)] = valid
                if not (valid and uf):
                    continue
                guard = rcmp(">=", len2, 1)
                guards.append(guard)
                if env0 is None:
                    env0 = ex.path_env([xf.zb(guard)])
                # lemma chain (each step pure real arithmetic): the code's sqrt variable is |e|; the code's exp argument is the reference argument
                rvar, v1 = ex.match_equal(len2, [a_ for a_, _ in sqrt_defs], env=env0)
                rep.record("S1a-lemma-code-norm-is-edge-length", v1.status if rvar is not None else ("sat" if v1.status == "sat" else "unknown"), v1.seconds)
                if rvar is not None:
                    r = next(v_ for a_, v_ in sqrt_defs if a_.eq(rvar))
                else:
                    r = z3.Real(f"rref_{a}_{e}")
                    ex.add_side(r > 0)
                    ex.add_side(r * r == R(len2))
                for i in range(gh):
                    for j in range(gw):
                        d2 = _ref_dist2(j * stride, i * stride, sx.v, sy.v, ex_, ey_, len2)
                        if dvals is not None:
                            dc = dvals[(i * gw + j) * E + e]
                            v2 = ex.prove(xf.Implies(guard, And(dc.fin(), rcmp("==", dc.v, d2))), fast_ms=400)
                            rep.record("S1b-lemma-code-distance-is-true-squared-segment-distance", v2.status, v2.seconds)
                            if v2.status == "unsat":
                                d2 = dc.v  # proved equal under the guard: continue with the code's own term (keeps the final query syntactic)
                            elif v2.status == "unknown":
                                rep.inconclusive_item("S1b-lemma-code-distance-is-true-squared-segment-distance", "unknown")
                        abstract.append(d2)
                        w = EXP(R(xf.rdiv(xf.rneg(xf.rmul(d2, d2)), two_s2)))
                        for comp, ec in ((0, ex_), (1, ey_)):
                            key = (e, comp, i, j)
                            ref_terms[key] = xf.radd(ref_terms.get(key, Fraction(0)), R(w) * (R(ec) / r))
        rep.witness("path-with-missing-endpoint", any_missing)
        rep.witness("path-with-zero-length-edge", any_zero)
        # K2 (after the edges are classified): a kept animal with at least one drawable edge cannot be wholly outside the image
        for a in range(A):
            if kept[a] and any(valid_flags.get((a, e), False) for e in range(E)):
                v = ex.query([xf.zb(wholly_out[a])])
                rep.record("K2-animals-wholly-outside-the-image-are-dropped", "unsat" if v.status == "unsat" else v.status)
                if v.status == "sat":
                    # prefer a counterexample close to the grid (far animals underflow to an exactly-zero float32 weight and would not show on replay)
                    near = [xf.zb(And(Or(x_.nan, And(rcmp(">=", x_.v, -1), rcmp("<=", x_.v, max(H, W) + 1))))) for n in range(N) for x_ in K(a, n)]
                    v_near = ex.query([xf.zb(wholly_out[a])] + near)
                    if v_near.status == "sat":
                        v = v_near
                    rep.violation("K2-animals-wholly-outside-the-image-are-dropped", "K2-outside", "an animal with every node outside [0,W]x[0,H] contributes",
                                  extract(v.model, DefaultEnv(model_env(v.model))))
                elif v.status != "unsat":
                    rep.inconclusive_item("K2-animals-wholly-outside-the-image-are-dropped", "unknown")
        if uf:
            goals = []
            for e in range(E):
                for comp in (0, 1):
                    for i in range(gh):
                        for j in range(gw):
                            v = cell(2 * e + comp, i, j)
                            goals.append(xf.Implies(And(claim, *guards), And(v.fin(), rcmp("==", v.v, ref_terms.get((e, comp, i, j), Fraction(0))))))
            discharge_all(ex, rep, "S1-equals-sum-of-weighted-unit-vectors[edges>=1px]", goals, abstract=abstract,
                          on_sat=lambda m, env: (f"S1-spec:{sig}", "a PAF cell differs from sum_a w*(dst-src)/|dst-src| in channel order e.x,e.y", extract(m, env)))
        else:
            goals = [ov[k].fin() for k in range(len(ov))]
            discharge_all(ex, rep, "S2-never-nan-or-inf", goals, on_sat=lambda m, env: (f"S2-nan:{sig}", "a PAF value is NaN or infinite", extract(m, env)))
            # S4: every (kept-animal, edge) degenerate or no kept animal => that edge's channels are exactly zero
            for e in range(E):
                if not any(valid_flags.get((a, e), False) for a in range(A)):
                    goals = [xf.Implies(claim, And(cell(2 * e + c, i, j).fin(), rcmp("==", cell(2 * e + c, i, j).v, 0))) for c in (0, 1) for i in range(gh) for j in range(gw)]
                    discharge_all(ex, rep, "S4-degenerate-edges-and-dropped-animals-contribute-zero", goals,
                                  on_sat=lambda m, env: (f"S4-zero:{sig}", "an edge with a missing endpoint / zero length / dropped animal has a non-zero field", extract(m, env)))
            # S3: exactly one contributing animal for this edge: direction and magnitude
            for e, (s_, d_) in enumerate(edges):
                contrib = [a for a in range(A) if valid_flags.get((a, e), False)]
                if len(contrib) != 1:
                    continue
                a = contrib[0]
                (sx, sy), (dx, dy) = K(a, s_), K(a, d_)
                ex_, ey_ = xf.rsub(dx.v, sx.v), xf.rsub(dy.v, sy.v)
                goals = []
                for i in range(gh):
                    for j in range(gw):
                        px, py = cell(2 * e, i, j).v, cell(2 * e + 1, i, j).v
                        goals.append(xf.Implies(claim, And(rcmp("==", xf.rmul(px, ey_), xf.rmul(py, ex_)), rcmp(">=", xf.radd(xf.rmul(px, ex_), xf.rmul(py, ey_)), 0),
                                                        rcmp("<=", xf.radd(xf.rmul(px, px), xf.rmul(py, py)), 1))))
                discharge_all(ex, rep, "S3-parallel-same-orientation-magnitude<=1", goals,
                              on_sat=lambda m, env: (f"S3-direction:{sig}", "a PAF vector is not a [0,1]-weighted unit vector from source to destination", extract(m, env)))
                # S5: "the UNIT vector ... scaled by a weight": the magnitude of the field equals the weight the code itself computed for that cell
                # (edges of ANY non-zero length, incl. shorter than a pixel where S1's weight reference is not asserted)
                rank = sum(1 for b in range(a) if kept[b])
                if rank < len(w_obs) and tuple(w_obs[rank].shape) == (gh, gw, E):
                    wv = w_obs[rank].values()
                    goals = []
                    for i in range(gh):
                        for j in range(gw):
                            px, py = cell(2 * e, i, j).v, cell(2 * e + 1, i, j).v
                            w_ = wv[(i * gw + j) * E + e].v
                            goals.append(xf.Implies(claim, rcmp("==", xf.radd(xf.rmul(px, px), xf.rmul(py, py)), xf.rmul(w_, w_))))
                    discharge_all(ex, rep, "S5-field-magnitude-equals-the-weight-of-the-cell", goals,
                                  on_sat=lambda m, env: (f"S5-unit:{sig}", "the direction factor is not a unit vector: |field| differs from the weight the code computed for the cell", extract(m, env)))
        rep.sample({"kept": kept, "path_condition": ex.path_summary(3, 70)})
    rep.infeasible_paths = ex.infeasible
    if not uf:
        pass
    return rep.finish(extra={"ops": sorted(T.OPS_USED)})


def _run_lemma(cfg):
    """L: the closed form used as the reference in S1 is the true squared point-to-segment distance:
    for every t in [0,1]: ref <= |s + t e - p|^2, and ref = |s + t0 e - p|^2 for the clamped projection t0 in [0,1]
    (the latter by construction).  Pure arithmetic, independent of the code under test."""
    from symx import xf
    from symx.xf import And, rcmp
    from symx.explorer import Explorer
    from symx.harness import Report, discharge
    rep = Report(cfg)
    sx, sy, ex_, ey_, px, py, t = [z3.Real(n) for n in ("sx", "sy", "ex", "ey", "px", "py", "t")]
    len2 = ex_ * ex_ + ey_ * ey_
    exr = Explorer([len2 > 0, t >= 0, t <= 1], timeout_ms=120000)
    for _ in exr.run(lambda: None):
        rep.paths += 1
        rep.nontrivial_paths += 1
        ref = _ref_dist2(px, py, sx, sy, ex_, ey_, len2)
        qx, qy = sx + t * ex_ - px, sy + t * ey_ - py
        discharge(exr, rep, "L-reference-distance-is-the-minimum-over-the-segment", rcmp("<=", ref, qx * qx + qy * qy), sliced=False)
        # on the segment (p = s + t e) the reference distance is 0, hence weight exp(0) = 1
        ref_on = _ref_dist2(sx + t * ex_, sy + t * ey_, sx, sy, ex_, ey_, len2)
        discharge(exr, rep, "L-reference-distance-is-zero-on-the-segment", rcmp("==", ref_on, 0), sliced=False)
    for w in REQUIRED_WITNESSES:
        rep.witness(w, True)
    rep.sample({"lemma": "closed-form clamped projection distance <= distance to any point of the segment"})
    return rep.finish()


def _validate(cfg):
    import torch
    from symx import torchfe as T
    from symx.harness import Report, rng
    from symx.validate import differential
    from sleap_nn.data.edge_maps import generate_pafs
    T.install_patches()
    rep = Report(cfg)
    r = rng(cfg["seed"], "c05")
    name = "V-front-end-agrees-with-real-torch"
    for k in range(8):
        A, N = r.choice([1, 2]), r.choice([2, 3])
        H, W, stride, sigma = r.choice([4, 8]), r.choice([4, 8]), r.choice([1, 2, 4]), r.choice([0.5, 1.5])
        edges = r.choice([[[0, 1]], [[1, 0]], [[0, 1], [1, N - 1]]])
        pts = []
        for _ in range(A * N):
            u = r.random()
            if u < 0.15:
                pts.append([float("nan"), float("nan")])
            elif u < 0.3:
                pts.append([r.uniform(-5, -1), r.uniform(H + 1, H + 5)])
            else:
                pts.append([r.uniform(0, W), r.uniform(0, H)])
        if k == 3:
            pts[1] = list(pts[0])  # zero-length edge
        inst = torch.tensor(pts, dtype=torch.float32).reshape(1, A, N, 2)
        ok, d = differential(lambda p: generate_pafs(p, (H, W), sigma, stride, torch.tensor(edges), True), [inst])
        rep.paths += 1
        rep.record(name, "unsat" if ok else "sat")
        if not ok:
            rep.inconclusive_item(name, f"{d} (A={A} N={N} edges={edges} pts={pts})")
    rep.nontrivial_paths = rep.paths
    for w in REQUIRED_WITNESSES:
        rep.witness(w, True)
    rep.sample({"validated": "generate_pafs symbolic terms vs real torch on seeded keypoints incl. NaN / out-of-image / zero-length"})
    return rep.finish()


def replay(cfg, inputs, obligation):
    import torch, numpy as np
    from symx.harness import unjson_float
    from sleap_nn.data.edge_maps import generate_pafs
    A, N, edges, H, W, stride, sigma = cfg["A"], cfg["N"], cfg["edges"], cfg["H"], cfg["W"], cfg["stride"], cfg["sigma"]
    inst = torch.tensor(unjson_float(inputs["instances"]), dtype=torch.float32).reshape(1, A, N, 2)
    generate_pafs(torch.full((1, A, N, 2), 1.0) + torch.arange(N, dtype=torch.float32).reshape(1, 1, N, 1), (2 * H, 2 * W), 2.75, 2 * stride, torch.tensor(edges), True)  # same history as the check
    import sleap_nn.data.edge_maps as em_
    import sleap_nn.data.utils as du_
    wseen = []
    real_pdf = em_.gaussian_pdf
    def _pdf(x, sigma):
        wseen.append(du_.gaussian_pdf(x, sigma))
        return wseen[-1]
    em_.gaussian_pdf = _pdf
    try:
        out = generate_pafs(inst.clone(), (H, W), sigma, stride, torch.tensor(edges), True).numpy().astype(np.float64)
    except Exception as e:  # noqa
        return obligation.startswith("T-"), f"generate_pafs raised {type(e).__name__}: {e} for instances {inst.reshape(-1, 2).tolist()}"
    finally:
        em_.gaussian_pdf = real_pdf
    if obligation.startswith("T-"):
        return False, "no exception"
    if obligation.startswith("S5"):
        if A == 1 and len(wseen) == 1:
            wts = wseen[0].numpy().astype(np.float64)  # (gh, gw, E): the code's own weights
            for e in range(len(edges)):
                mag = np.sqrt(out[2 * e] ** 2 + out[2 * e + 1] ** 2)
                if not np.allclose(mag, wts[..., e], rtol=1e-4, atol=1e-6):
                    k = np.unravel_index(np.argmax(np.abs(mag - wts[..., e])), mag.shape)
                    return True, f"edge {e} cell {k}: |field| = {mag[k]} but the weight of the cell is {wts[..., e][k]} (instances {inst.reshape(-1, 2).tolist()})"
        return False, "field magnitude equals the cell weight"
    E = len(edges)
    gh, gw = -(-H // stride), -(-W // stride)
    if out.shape != (2 * E, gh, gw):
        return True, f"shape {out.shape}"
    if not np.isfinite(out).all():
        return True, "NaN/inf in output"
    P = inst.numpy().astype(np.float64)[0]
    xlast, ylast = (gw - 1) * stride, (gh - 1) * stride
    ref = np.zeros_like(out)
    short = False
    for a in range(A):
        pts = P[a]
        inside = [(not np.isnan(p[0])) and 0 < p[0] < xlast and 0 < p[1] < ylast for p in pts]
        outside = [np.isnan(p[0]) or p[0] < 0 or p[0] > W or p[1] < 0 or p[1] > H for p in pts]
        if not any(inside):
            if all(outside):
                continue
            return False, "animal is in neither class (border strip): outside the claim"
        for e, (s_, d_) in enumerate(edges):
            s, d = pts[s_], pts[d_]
            if np.isnan(s).any() or np.isnan(d).any():
                continue
            ev = d - s
            l2 = float(ev @ ev)
            if l2 == 0:
                continue
            if l2 < 1:
                short = True
            for i in range(gh):
                for j in range(gw):
                    p = np.array([j * stride, i * stride], dtype=np.float64)
                    t = min(1.0, max(0.0, float((p - s) @ ev) / l2))
                    q = s + t * ev - p
                    d2 = float(q @ q)
                    w = np.exp(-(d2 ** 2) / (2 * sigma ** 2))
                    ref[2 * e, i, j] += w * ev[0] / np.sqrt(l2)
                    ref[2 * e + 1, i, j] += w * ev[1] / np.sqrt(l2)
    if obligation.startswith(("K2", "S4")):
        # "vanish" is exact: a channel no kept, non-degenerate edge contributes to must be exactly zero (a far animal's weight may be tiny but not 0)
        for ch in range(2 * E):
            if not ref[ch].any() and out[ch].any():
                k = np.unravel_index(np.argmax(np.abs(out[ch])), out[ch].shape)
                return True, f"channel {ch} cell {k}: got {out[ch][k]} where nothing may contribute, instances {P.tolist()}"
    if obligation.startswith("S3") or short:
        # direction-only oracle (single contributing animal per edge)
        for e, (s_, d_) in enumerate(edges):
            mag = np.sqrt(out[2 * e] ** 2 + out[2 * e + 1] ** 2)
            if (mag > 1 + 1e-5).any():
                return True, f"edge {e}: |v| = {mag.max()} > 1"
            if A == 1 and not (np.isnan(P[0][s_]).any() or np.isnan(P[0][d_]).any()):
                ev = P[0][d_] - P[0][s_]
                cross = out[2 * e] * ev[1] - out[2 * e + 1] * ev[0]
                dot = out[2 * e] * ev[0] + out[2 * e + 1] * ev[1]
                if (np.abs(cross) > 1e-4 * max(1.0, np.abs(ev).max())).any() or (dot < -1e-6).any():
                    return True, f"edge {e}: field not along source->destination (cross {np.abs(cross).max()}, min dot {dot.min()})"
        if short:
            return False, "edge shorter than 1 px: only direction/magnitude checked"
    if not np.allclose(out, ref, rtol=1e-4, atol=1e-5):
        k = np.unravel_index(np.argmax(np.abs(out - ref)), out.shape)
        return True, f"channel/cell {k}: got {out[k]} expected {ref[k]} for instances {P.tolist()}"
    return False, "output equals the reference sum of weighted unit vectors"
