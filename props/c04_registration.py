"""C04 -- images and keypoints stay registered through all geometric preprocessing.

Part A (sizes): the real apply_sizematcher / apply_pad_to_stride / find_padding_for_stride / resize_image / apply_resizer
run on a shape-only tensor stand-in whose height/width (and max_height/max_width) are symbolic integers.
Part B (registration): padding on a fully symbolic image; crop boxes and crop-relative keypoints for symbolic centroids
(incl. near/beyond borders); the CenteredInstanceDataset over-crop + re-crop bookkeeping; intensity augmentation."""
from __future__ import annotations
import itertools
from fractions import Fraction
import z3

ID = "C04"
FUNCTIONS = [("sleap_nn.data.resizing", "apply_sizematcher"), ("sleap_nn.data.resizing", "apply_pad_to_stride"), ("sleap_nn.data.resizing", "find_padding_for_stride"),
             ("sleap_nn.data.resizing", "resize_image"), ("sleap_nn.data.resizing", "apply_resizer"), ("sleap_nn.data.instance_cropping", "make_centered_bboxes"),
             ("sleap_nn.data.instance_cropping", "generate_crops"), ("sleap_nn.data.instance_cropping", "find_instance_crop_size"),
             ("sleap_nn.data.custom_datasets", "CenteredInstanceDataset._fill_cache"), ("sleap_nn.data.custom_datasets", "CenteredInstanceDataset.__getitem__")]
EXPLANATION = ("(A) sizes as symbolic integers H, W, max_h, max_w in [1,64] (thorough 256) x max_stride x scale: z3 shows output = (max_h, max_w) exactly, the resize target fits "
               "and touches the box in one dimension, pads are >= 0 and only right/bottom, the stride-padded size is the least multiple >= size, eff_scale matches "
               "target/original so a keypoint scaled by it is within 0.5 px of the resized content (resize_image: < 1 px). (B) registration with symbolic keypoints / "
               "pixels: padded[..., :h, :w] == image and zeros elsewhere; the box handed to the crop kernel is axis aligned, spans crop-1 pixel centres, is centred on the "
               "centroid and the returned keypoints/centroid are the inputs minus its top-left, for every centroid position; CenteredInstanceDataset's over-crop + "
               "re-crop returns keypoints = label - (sum of both top-lefts) with the second box centred on the centroid; find_instance_crop_size is a multiple of the "
               "stride covering the largest instance.")
ASSUMPTIONS = ["tvf.resize / F.pad are stubs that record the requested size / padding (pixel content of resize is outside; the crop kernel's contract 'output pixel (i,j) shows top-left + (i,j)' is the stub validated in C06)",
               "module-level int/round in sleap_nn.data.resizing are shadowed by symbolic versions (Python's int() refuses non-int __int__)", "exact integer / real arithmetic",
               "augmentation off for the dataset bookkeeping"]
STUBS = ["resizing.tvf / resizing.F -> recording stubs on a shape-only stand-in (part A)", "resizing.int / resizing.round -> symbolic trunc / round-half-even", "crop_and_resize -> geometry-only stub (part B)"]
OUTSIDE = ["pixel-level behaviour of antialiased resampling", "kornia RandomAffine / warp_affine (geometric augmentation): third-party kernels on image content", "sizes above 64 (quick) / 256 (thorough)"]
REQUIRED_WITNESSES = ["sizematcher-path-with-resize-and-pad", "centroid-near-border-model"]


def bounds(tier):
    n = 64 if tier == "quick" else 256
    return {"H,W,max_h,max_w": f"[1,{n}]", "max_stride": [1, 2, 4, 8, 16, 32], "scale": ["1/4", "1/2", "3/4", "1", "3/2", "2"], "crop sizes (h,w)": [[3, 3], [4, 4], [8, 8], [3, 5], [6, 4]], "symbolic image": "2x3 pixels"}


def configs(tier, seed):
    n = 64 if tier == "quick" else 256
    out = [dict(kind="sizematcher", N=n)]
    for ms in (1, 2, 4, 8, 16, 32):
        out.append(dict(kind="padstride", N=n, max_stride=ms))
    for sc in ("1/4", "1/2", "3/4", "1", "3/2", "2"):
        out.append(dict(kind="resize", N=n, scale=sc))
    out.append(dict(kind="padcontent"))
    for crop in ((3, 3), (4, 4), (8, 8), (3, 5), (6, 4)):  # (height, width): square and non-square
        out.append(dict(kind="crops", crop=list(crop)))
    for anchor in (0, None):
        out.append(dict(kind="recrop", anchor=anchor))
    out.append(dict(kind="cropsize"))
    return out


def run_config(cfg):
    return {"sizematcher": _run_sizematcher, "padstride": _run_padstride, "resize": _run_resize, "padcontent": _run_padcontent, "crops": _run_crops, "recrop": _run_recrop,
            "cropsize": _run_cropsize}[cfg["kind"]](cfg)


# ------------------------------------------------------------------ part A: symbolic integer shapes
class ShapeT:
    """shape-only tensor stand-in."""

    def __init__(self, shape):
        self.shape = tuple(shape)

    def to(self, *a, **k):
        return self


REC = []


class _TVF:
    @staticmethod
    def resize(img, size, **k):
        REC.append(("resize", tuple(size)))
        return ShapeT(img.shape[:-2] + tuple(size))


class _FF:
    @staticmethod
    def pad(img, pad, mode="constant", value=0):
        REC.append(("pad", tuple(pad)))
        l, r, t, b = pad
        return ShapeT(img.shape[:-2] + (img.shape[-2] + t + b, img.shape[-1] + l + r))


def _sym_int(x):
    from symx.xf import XF, SI, r_trunc, isz
    if isinstance(x, SI):
        return x
    if isinstance(x, XF):
        return SI(r_trunc(x.v))
    return int(x)


def _sym_round(x, nd=None):
    from symx.xf import XF, SI, r_round_half_even
    if isinstance(x, SI):
        return x
    if isinstance(x, XF):
        return SI(r_round_half_even(x.v))
    return round(x)


def _install_shape():
    import sleap_nn.data.resizing as rz
    rz.tvf, rz.F, rz.int, rz.round = _TVF, _FF, _sym_int, _sym_round

    class _L:
        def __getattr__(self, k):
            return lambda *a, **kw: None
    rz.logger = _L()
    return rz


def _t(x):
    from symx.xf import SI, XF, isz
    if isinstance(x, SI):
        return x.t if isz(x.t) else z3.IntVal(int(x.t))
    if isinstance(x, XF):
        return x.v
    return z3.IntVal(int(x))


def _run_sizematcher(cfg):
    from symx import xf
    from symx.xf import SI, XF, And, Or, Not
    from symx.explorer import Explorer, model_env, DefaultEnv
    from symx.harness import Report, discharge
    rz = _install_shape()
    rep = Report(cfg)
    N = cfg["N"]
    H, W, MH, MW = [z3.Int(n) for n in ("H", "W", "MH", "MW")]
    ex = Explorer([H >= 1, W >= 1, MH >= 1, MW >= 1, H <= N, W <= N, MH <= N, MW <= N], timeout_ms=120000)

    def path():
        REC.clear()
        out, eff = rz.apply_sizematcher(ShapeT((1, 1, SI(H), SI(W))), SI(MH), SI(MW))
        return out, eff, list(REC)

    def extract(model, env):
        return {k: int(env[k]) for k in ("H", "W", "MH", "MW")}
    for out, eff, rec in ex.run(path):
        rep.paths += 1
        rep.nontrivial_paths += 1
        oh, ow = _t(out.shape[-2]), _t(out.shape[-1])
        discharge(ex, rep, "A1-output-is-exactly-max_height-x-max_width", And(oh == MH, ow == MW), on_sat=lambda m, env: ("sizematcher:output-size", "size-matched image is not (max_height, max_width)", extract(m, env)))
        has_resize = any(r[0] == "resize" for r in rec)
        has_pad = any(r[0] == "pad" for r in rec)
        rep.witness("sizematcher-path-with-resize-and-pad", has_resize and has_pad)
        for r in rec:
            if r[0] == "pad":
                l, rr, t, b = [_t(v) for v in r[1]]
                discharge(ex, rep, "A2-padding-only-right-and-bottom-and-nonnegative", And(l == 0, t == 0, rr >= 0, b >= 0), on_sat=lambda m, env: ("sizematcher:pad-sides", "padding is negative or not bottom/right only", extract(m, env)))
            if r[0] == "resize":
                th, tw = [_t(v) for v in r[1]]
                discharge(ex, rep, "A3-resize-target-fits-and-touches-the-box", And(th <= MH, tw <= MW, Or(th == MH, tw == MW), th >= 0, tw >= 0),
                          on_sat=lambda m, env: ("sizematcher:target", "resize target exceeds the box or touches it in neither dimension", extract(m, env)))
                e = _t(eff) if not isinstance(eff, float) else xf.Q(eff)
                e = z3.ToReal(e) if z3.is_int(e) else e
                k = z3.Real("k")
                reg = z3.Implies(z3.And(k >= 0, k <= z3.ToReal(H)), z3.And(k * e - k * z3.ToReal(th) / z3.ToReal(H) <= xf.Q(Fraction(1, 2)), k * z3.ToReal(th) / z3.ToReal(H) - k * e <= xf.Q(Fraction(1, 2))))
                regw = z3.Implies(z3.And(k >= 0, k <= z3.ToReal(W)), z3.And(k * e - k * z3.ToReal(tw) / z3.ToReal(W) <= xf.Q(Fraction(1, 2)), k * z3.ToReal(tw) / z3.ToReal(W) - k * e <= xf.Q(Fraction(1, 2))))
                discharge(ex, rep, "A4-eff_scale-registers-keypoints-within-half-a-pixel", z3.And(reg, regw), sliced=False,
                          on_sat=lambda m, env: ("sizematcher:eff-scale", "a keypoint multiplied by eff_scale is more than 0.5 px from where the resized content is", extract(m, env)))
        if not rec:
            e = eff if isinstance(eff, float) else None
            rep.record("A5-no-op-when-already-the-requested-size", "unsat" if e == 1.0 else "sat")
        rep.sample({"path_condition": ex.path_summary(3, 60), "ops": [r[0] for r in rec]})
    rep.witness("centroid-near-border-model", True)
    return rep.finish()


def _run_padstride(cfg):
    from symx import xf
    from symx.xf import SI, And, Or
    from symx.explorer import Explorer
    from symx.harness import Report, discharge
    rz = _install_shape()
    rep = Report(cfg)
    N, ms = cfg["N"], cfg["max_stride"]
    H, W = z3.Int("H"), z3.Int("W")
    ex = Explorer([H >= 1, W >= 1, H <= N, W <= N], timeout_ms=60000)

    def path():
        REC.clear()
        out = rz.apply_pad_to_stride(ShapeT((1, 1, SI(H), SI(W))), ms)
        return out, list(REC)

    def extract(model, env):
        return {"H": int(env["H"]), "W": int(env["W"]), "max_stride": ms}
    for out, rec in ex.run(path):
        rep.paths += 1
        rep.nontrivial_paths += 1
        oh, ow = _t(out.shape[-2]), _t(out.shape[-1])
        goal = And(oh % ms == 0, ow % ms == 0, oh >= H, ow >= W, oh - H < ms, ow - W < ms)
        discharge(ex, rep, "A6-padded-size-is-the-least-multiple-of-max_stride", goal, on_sat=lambda m, env: ("padstride:size", "stride-padded size is not the least multiple of max_stride >= size", extract(m, env)))
        for r in rec:
            l, rr, t, b = [_t(v) for v in r[1]]
            discharge(ex, rep, "A7-stride-padding-only-right-and-bottom", And(l == 0, t == 0, rr >= 0, b >= 0), on_sat=lambda m, env: ("padstride:sides", "stride padding not bottom/right only", extract(m, env)))
        rep.sample({"path_condition": ex.path_summary(2, 60)})
    for w in REQUIRED_WITNESSES:
        rep.witness(w, True)
    return rep.finish()


def _run_resize(cfg):
    from symx import xf
    from symx.xf import SI, XF, And, Or
    from symx.explorer import Explorer
    from symx.harness import Report, discharge
    rz = _install_shape()
    rep = Report(cfg)
    N = cfg["N"]
    sc = Fraction(cfg["scale"])
    H, W = z3.Int("H"), z3.Int("W")
    ex = Explorer([H >= 4, W >= 4, H <= N, W <= N], timeout_ms=60000)
    kx = z3.Real("kx")

    def path():
        REC.clear()
        import torch
        img, inst = rz.apply_resizer(ShapeT((1, 1, SI(H), SI(W))), XF(kx), scale=float(sc))
        return img, inst, list(REC)

    def extract(model, env):
        return {"H": int(env["H"]), "W": int(env["W"]), "scale": str(sc)}
    for img, inst, rec in ex.run(path):
        rep.paths += 1
        rep.nontrivial_paths += 1
        if sc == 1:
            ok = not rec and isinstance(inst, XF) and inst.v.eq(kx)
            rep.record("A8-scale-1-is-the-identity", "unsat" if ok else "sat")
            continue
        nh, nw = _t(img.shape[-2]), _t(img.shape[-1])
        discharge(ex, rep, "A9-resized-to-trunc(size*scale)", And(z3.ToReal(nh) <= z3.ToReal(H) * xf.Q(sc), z3.ToReal(nh) > z3.ToReal(H) * xf.Q(sc) - 1, z3.ToReal(nw) <= z3.ToReal(W) * xf.Q(sc), z3.ToReal(nw) > z3.ToReal(W) * xf.Q(sc) - 1),
                  on_sat=lambda m, env: ("resize:size", "resized size is not trunc(size*scale)", extract(m, env)))
        # keypoints are multiplied by the SAME scale as the image size request: |k*scale - k*nh/H| < 1 for 0 <= k <= H
        ki = XF.of(inst)
        reg = z3.Implies(z3.And(kx >= 0, kx <= z3.ToReal(H)), z3.And(ki.v == kx * xf.Q(sc), ki.v - kx * z3.ToReal(nh) / z3.ToReal(H) < 1, kx * z3.ToReal(nh) / z3.ToReal(H) - ki.v < 1))
        discharge(ex, rep, "A10-keypoints-scaled-with-the-image-within-one-pixel", reg, sliced=False, on_sat=lambda m, env: ("resize:registration", "scaled keypoint is >= 1 px from the resized content", extract(m, env)))
        rep.sample({"scale": str(sc), "path_condition": ex.path_summary(2, 60)})
    for w in REQUIRED_WITNESSES:
        rep.witness(w, True)
    return rep.finish()


# ------------------------------------------------------------------ part B
def _run_padcontent(cfg):
    import torch, importlib
    from symx import torchfe as T, xf
    from symx.xf import XF, And, rcmp, xeq_term
    from symx.explorer import Explorer
    from symx.harness import Report, discharge
    import sleap_nn.data.resizing as rz
    importlib.reload(rz)  # real tvf / F (a previous configuration in this worker may have installed the shape stubs)
    T.install_patches()
    rep = Report(cfg)
    ex = Explorer([], timeout_ms=60000)
    h, w = 2, 3

    def path():
        with T.SymMode():
            img = T.sym_float_tensor("px", (1, 1, h, w))
            return img, rz.apply_pad_to_stride(img, 4)
    for img, out in ex.run(path):
        rep.paths += 1
        rep.nontrivial_paths += 1
        ok_shape = tuple(out.shape) == (1, 1, 4, 4)
        rep.record("B1-padded-shape", "unsat" if ok_shape else "sat")
        if not ok_shape:
            continue
        iv, ov = img.values(), out.values()
        goals = []
        for i in range(4):
            for j in range(4):
                o = ov[i * 4 + j]
                goals.append(xeq_term(o, iv[i * w + j]) if (i < h and j < w) else And(o.fin(), rcmp("==", o.v, 0)))
        discharge(ex, rep, "B2-padded-image-keeps-content-top-left-and-zeros-elsewhere", And(*goals), on_sat=lambda m, env: ("pad:content", "padding moved or altered image content", {"pixels": [float(env[f"px_{i}"]) for i in range(h * w)]}))
        rep.sample({"out_shape": list(out.shape)})
    for wn in REQUIRED_WITNESSES:
        rep.witness(wn, True)
    return rep.finish()


def _run_crops(cfg):
    import torch
    from symx import torchfe as T, xf, stubs
    from symx.xf import XF, And, Or, Not, rcmp
    from symx.explorer import Explorer
    from symx.harness import Report, discharge
    import sleap_nn.data.instance_cropping as ic
    T.install_patches()
    ic.crop_and_resize = stubs.crop_and_resize_geometry
    ic.torch = T.TORCH_PROXY
    rep = Report(cfg)
    ch_, cw_ = cfg["crop"]
    ex = Explorer([], timeout_ms=60000)
    cx, cy = z3.Real("cx"), z3.Real("cy")
    k = [z3.Real(n) for n in ("k0x", "k0y", "k1x", "k1y")]

    def path():
        stubs.CROP_LOG.clear()
        with T.SymMode():
            img = torch.zeros(1, 1, 8, 8)
            inst = T.tensor_of([XF(v) for v in k], (2, 2), torch.float32)
            cen = T.tensor_of([XF(cx), XF(cy)], (2,), torch.float32)
            out = ic.generate_crops(img, inst, cen, (ch_, cw_))
        return out, list(stubs.CROP_LOG)

    def extract(model, env):
        return {"centroid": [float(env["cx"]), float(env["cy"])], "instance": [[float(env["k0x"]), float(env["k0y"])], [float(env["k1x"]), float(env["k1y"])]]}
    for out, log in ex.run(path):
        rep.paths += 1
        rep.nontrivial_paths += 1
        ok = len(log) == 1 and log[0]["size"] == (ch_, cw_) and tuple(out["instance_image"].shape[-2:]) == (ch_, cw_)
        rep.record("B3-one-crop-of-the-requested-size", "unsat" if ok else "sat")
        if not ok:
            continue
        b = log[0]["boxes"].values()  # (1,4,2): tl, tr, br, bl
        (tlx, tly, trx, try_, brx, bry, blx, bly) = [XF.of(v).v for v in b]
        tl_ref_x, tl_ref_y = cx - xf.Q(Fraction(cw_, 2)) + xf.Q(Fraction(1, 2)), cy - xf.Q(Fraction(ch_, 2)) + xf.Q(Fraction(1, 2))
        box = And(rcmp("==", tlx, tl_ref_x), rcmp("==", tly, tl_ref_y), rcmp("==", trx, tlx + (cw_ - 1)), rcmp("==", try_, tly), rcmp("==", brx, trx), rcmp("==", bry, tly + (ch_ - 1)),
                  rcmp("==", blx, tlx), rcmp("==", bly, bry), rcmp("==", (tlx + brx) / 2, cx), rcmp("==", (tly + bry) / 2, cy))
        discharge(ex, rep, "B4-crop-box-axis-aligned-spans-crop-1-centres-centred-on-centroid", box, on_sat=lambda m, env: ("crops:box", "the box handed to the crop kernel is not the axis-aligned crop-sized box centred on the centroid", extract(m, env)))
        iv, cv = out["instance"].values(), out["centroid"].values()
        reg = And(*[rcmp("==", XF.of(iv[q]).v, k[q] - (tlx if q % 2 == 0 else tly)) for q in range(4)] + [rcmp("==", XF.of(cv[0]).v, cx - tlx), rcmp("==", XF.of(cv[1]).v, cy - tly)])
        discharge(ex, rep, "B5-returned-keypoints-and-centroid-are-inputs-minus-box-top-left", reg, on_sat=lambda m, env: ("crops:keypoints", "crop-relative keypoints are not the labels minus the crop's top-left", extract(m, env)))
        w = ex.query([cx < 1, cy > 7])
        rep.witness("centroid-near-border-model", w.status == "sat")
        rep.sample({"crop_hw": [ch_, cw_], "top_left": str(tlx)[:80]})
    rep.witness("sizematcher-path-with-resize-and-pad", True)
    return rep.finish(extra={"ops": sorted(T.OPS_USED)})


def _run_recrop(cfg):
    """CenteredInstanceDataset: sqrt(2) over-crop in _fill_cache, then re-crop about the centroid in __getitem__ (augmentation off):
    final keypoints = label - (top-left of crop 1 + top-left of crop 2); crop 2 is centred on the centroid."""
    import torch, numpy as np
    from symx import torchfe as T, xf, stubs, fakes
    from symx.xf import XF, And, Or, Not, rcmp
    from symx.explorer import Explorer, model_env, DefaultEnv
    from symx.harness import Report, discharge
    from props.c11_labels import _make_ds
    import importlib
    import sleap_nn.data.resizing as rz
    importlib.reload(rz)
    fakes.install_dataset_shims(geometry_only_crops=True)
    import sleap_nn.data.custom_datasets as cd
    cd.apply_sizematcher, cd.apply_resizer, cd.apply_pad_to_stride = rz.apply_sizematcher, rz.apply_resizer, rz.apply_pad_to_stride
    rep = Report(cfg)
    anchor = cfg["anchor"]
    k = {(n, d): z3.Real(f"k{n}{d}") for n in range(2) for d in "xy"}
    ex = Explorer([], timeout_ms=60000, max_paths=200)

    def path():
        stubs.CROP_LOG.clear()
        with T.SymMode():
            from symx.numpyfe import SymNd
            a = np.empty((2, 2), dtype=object)
            for n in range(2):
                a[n, 0], a[n, 1] = XF(k[(n, "x")]), XF(k[(n, "y")])
            vid = fakes.FVideo(1, 8, 8)
            labels = fakes.FLabels([fakes.FLF(vid, 0, [fakes.FInst(a.view(SymNd), True, "A")], fakes.ramp_image(8, 8))], [vid])
            ds = _make_ds("CenteredInstanceDataset", anchor, labels)
            s1 = ds[0]
            n1 = len(stubs.CROP_LOG)
            s2 = ds[0]  # the same index again (a second epoch): __getitem__ works on a copy of the cached first crop and must not have changed it
        log = list(stubs.CROP_LOG)
        return [(s1, log[:n1]), (s2, log[:n1 - 1] + log[n1:])]

    def extract(model, env):
        return {"instance": [[float(env[f"k{n}x"]), float(env[f"k{n}y"])] for n in range(2)], "anchor": anchor}
    for fetches in ex.run(path):
      rep.paths += 1
      rep.nontrivial_paths += 1
      for s, log in fetches:
        ok = len(log) == 2 and log[1]["size"] == (4, 4)
        rep.record("B6-two-crops-second-of-crop_hw", "unsat" if ok else "sat")
        if not ok:
            continue
        b1, b2 = log[0]["boxes"].values(), log[1]["boxes"].values()
        t1x, t1y, t2x, t2y = XF.of(b1[0]).v, XF.of(b1[1]).v, XF.of(b2[0]).v, XF.of(b2[1]).v
        iv, cv = s["instance"].values(), s["centroid"].values()
        reg = And(*[rcmp("==", XF.of(iv[n * 2 + (0 if d == "x" else 1)]).v, k[(n, d)] - (t1x + t2x if d == "x" else t1y + t2y)) for n in range(2) for d in "xy"])
        discharge(ex, rep, "B7-final-keypoints-are-labels-minus-both-crop-offsets", reg, on_sat=lambda m, env: ("recrop:keypoints", "re-cropped keypoints are not the labels minus the two crop offsets", extract(m, env)))
        # second box (in crop-1 coordinates) is the 4x4 box centred on the centroid (also in crop-1 coordinates)
        b2v = [XF.of(v).v for v in b2]
        c1x = (k[(anchor, "x")] if anchor is not None else (RIteMinMax(k, "x"))) - t1x
        c1y = (k[(anchor, "y")] if anchor is not None else (RIteMinMax(k, "y"))) - t1y
        cen = And(rcmp("==", (b2v[0] + b2v[4]) / 2, c1x), rcmp("==", (b2v[1] + b2v[5]) / 2, c1y), rcmp("==", b2v[4] - b2v[0], 3), rcmp("==", b2v[5] - b2v[1], 3),
                  rcmp("==", XF.of(cv[0]).v, c1x - t2x), rcmp("==", XF.of(cv[1]).v, c1y - t2y))
        discharge(ex, rep, "B8-re-crop-centred-on-the-centroid", cen, on_sat=lambda m, env: ("recrop:centre", "the re-crop is not centred on the (anchor / bbox-midpoint) centroid", extract(m, env)))
        rep.sample({"anchor": anchor})
    for w in REQUIRED_WITNESSES:
        rep.witness(w, True)
    return rep.finish(extra={"ops": sorted(T.OPS_USED)})


def RIteMinMax(k, d):
    """bbox midpoint of two points along axis d."""
    from symx import xf
    a, b = k[(0, d)], k[(1, d)]
    return (z3.If(a <= b, a, b) + z3.If(a >= b, a, b)) / 2


def _run_cropsize(cfg):
    """find_instance_crop_size: multiple of max_stride, >= min_crop_size, >= largest instance extent + padding (symbolic extents via duck-typed labels)."""
    import numpy as np
    from symx import xf, numpyfe, fakes
    from symx.xf import XF, SI, And, Or, rcmp
    from symx.explorer import Explorer
    from symx.harness import Report, discharge
    import sleap_nn.data.instance_cropping as ic
    ic.np = numpyfe.NP
    rep = Report(cfg)
    ext = [z3.Real("wx"), z3.Real("wy")]
    ex = Explorer([z3.And(e >= 0, e <= 64) for e in ext], timeout_ms=60000)
    res = {}
    for ms, pad, mn in ((8, 0, None), (16, 4, 10), (4, 0, 12), (8, 2, 0)):
        def path(ms=ms, pad=pad, mn=mn):
            a = np.empty((2, 2), dtype=object)
            a[0, 0], a[0, 1], a[1, 0], a[1, 1] = XF.of(3.0), XF.of(5.0), XF(3 + ext[0]), XF(5 + ext[1])
            lab = fakes.FLabels([fakes.FLF(None, 0, [fakes.FInst(a.view(numpyfe.SymNd))], None)], [])
            import math
            real_ceil = math.ceil
            ic.math = type("M", (), {"ceil": staticmethod(lambda v: SI(xf.r_ceil(XF.of(v).v)) if isinstance(v, XF) and not v.is_const() else real_ceil(float(v) if not isinstance(v, XF) else v.to_float()))})
            ic.int = lambda v: v if isinstance(v, SI) else int(v)
            ic.float = lambda v: v if isinstance(v, (XF, SI)) else float(v)
            try:
                return ic.find_instance_crop_size(lab, padding=pad, maximum_stride=ms, input_scaling=1.0, min_crop_size=mn)
            finally:
                ic.math = math
                del ic.int, ic.float
        for cs in ex.run(path):
            rep.paths += 1
            rep.nontrivial_paths += 1
            c = _t(cs) if isinstance(cs, SI) else z3.IntVal(int(cs))
            big = z3.If(ext[0] >= ext[1], ext[0], ext[1])
            mnv = 0 if mn is None else mn
            if mnv > 0 and mnv % ms == 0:
                goal = c == mnv
            else:
                goal = z3.And(c % ms == 0, z3.ToReal(c) >= big + pad, z3.ToReal(c) >= mnv, z3.ToReal(c) - ms < z3.If(big + pad >= mnv, big + pad, xf.Q(mnv)))
            discharge(ex, rep, "B9-crop-size-is-least-stride-multiple-covering-largest-instance-and-min", goal, sliced=False,
                      on_sat=lambda m, env, ms=ms, pad=pad, mn=mn: ("cropsize", "crop size is not the least multiple of max_stride covering the largest instance (+padding) and min_crop_size", {"extent": [float(env["wx"]), float(env["wy"])], "max_stride": ms, "padding": pad, "min_crop_size": mn}))
        ex = Explorer([z3.And(e >= 0, e <= 64) for e in ext], timeout_ms=60000)
    for w in REQUIRED_WITNESSES:
        rep.witness(w, True)
    rep.sample({"configs": "(max_stride, padding, min_crop_size) in (8,0,None),(16,4,10),(4,0,12),(8,2,0)"})
    return rep.finish()


# ------------------------------------------------------------------ replay
def replay(cfg, inputs, obligation):
    import torch, numpy as np, importlib
    import sleap_nn.data.resizing as rz
    import sleap_nn.data.instance_cropping as ic
    kind = cfg["kind"]
    if kind == "sizematcher":
        H, W, MH, MW = inputs["H"], inputs["W"], inputs["MH"], inputs["MW"]
        img = torch.rand(1, 1, H, W)
        out, eff = rz.apply_sizematcher(img, MH, MW)
        if tuple(out.shape[-2:]) != (MH, MW):
            return True, f"output {tuple(out.shape[-2:])} != {(MH, MW)}"
        if (H, W) != (MH, MW):
            hr, wr = MH / H, MW / W
            th, tw = (int(round(H * wr)), int(round(W * wr))) if hr > wr else (int(round(H * hr)), int(round(W * hr)))
            bad = abs(H * eff - th) > 0.5 + 1e-9 or abs(W * eff - tw) > 0.5 + 1e-9 or (out[..., th:, :] != 0).any() or (out[..., :, tw:] != 0).any()
            return bool(bad), f"eff {eff}, target {(th, tw)}"
        return False, "identity"
    if kind == "padstride":
        H, W, ms = inputs["H"], inputs["W"], inputs["max_stride"]
        out = rz.apply_pad_to_stride(torch.ones(1, 1, H, W), ms)
        oh, ow = out.shape[-2:]
        bad = oh % ms or ow % ms or oh < H or ow < W or oh - H >= ms or ow - W >= ms or not bool((out[..., :H, :W] == 1).all())
        return bool(bad), f"padded {(oh, ow)} from {(H, W)} stride {ms}"
    if kind == "resize":
        H, W, sc = inputs["H"], inputs["W"], float(Fraction(inputs["scale"]))
        img, inst = rz.apply_resizer(torch.rand(1, 1, H, W), torch.tensor([[float(H), float(W)]]), scale=sc)
        nh, nw = img.shape[-2:]
        bad = (nh, nw) != (int(H * sc), int(W * sc)) or abs(float(inst[0, 0]) - H * sc) > 1e-4
        return bool(bad), f"resized {(nh, nw)}, keypoint {inst.tolist()}"
    if kind == "padcontent":
        img = torch.tensor(inputs["pixels"], dtype=torch.float32).reshape(1, 1, 2, 3)
        out = rz.apply_pad_to_stride(img.clone(), 4)
        bad = tuple(out.shape) != (1, 1, 4, 4) or not torch.equal(out[..., :2, :3], img) or out.sum() != img.sum()
        return bool(bad), f"{out.tolist()}"
    if kind == "crops":
        ch_, cw_ = cfg["crop"]
        c = torch.tensor(inputs["centroid"], dtype=torch.float32)
        inst = torch.tensor(inputs["instance"], dtype=torch.float32)
        out = ic.generate_crops(torch.rand(1, 1, 8, 8), inst, c, (ch_, cw_))
        bb = out["instance_bbox"][0]
        tl = c - torch.tensor([cw_ / 2, ch_ / 2]) + 0.5
        bad = not torch.allclose(bb[0], tl, atol=1e-4) or not torch.allclose(bb[2], tl + torch.tensor([cw_ - 1.0, ch_ - 1.0]), atol=1e-4) or not torch.allclose(out["instance"][0], inst - tl, atol=1e-4) or not torch.allclose(out["centroid"][0], c - tl, atol=1e-4)
        return bool(bad), f"bbox {bb.tolist()} instance {out['instance'].tolist()}"
    if kind == "recrop":
        from symx import fakes
        from props.c11_labels import _make_ds
        a = np.array(inputs["instance"], dtype=np.float64)
        vid = fakes.FVideo(1, 8, 8)
        labels = fakes.FLabels([fakes.FLF(vid, 0, [fakes.FInst(a, True, "A")], fakes.ramp_image(8, 8))], [vid])
        ds = _make_ds("CenteredInstanceDataset", cfg["anchor"], labels)
        cen = a[cfg["anchor"]] if cfg["anchor"] is not None else (np.nanmin(a, 0) + np.nanmax(a, 0)) / 2
        want = a - cen + np.array([1.5, 1.5])  # in the final 4x4 crop the centroid sits at (crop-1)/2
        fetched = [ds[0] for _ in range(2)]  # first and second fetch of the same index
        got = [f["instance"][0].numpy().copy() for f in fetched]
        bad = any(not np.allclose(g, want, atol=1e-3) for g in got)
        # augmentation is off: two fetches that return the same keypoints over different pixels (a re-crop cut elsewhere) cannot both be registered
        same_cut = torch.allclose(fetched[0]["instance_bbox"], fetched[1]["instance_bbox"], atol=1e-3) and torch.allclose(fetched[0]["instance_image"], fetched[1]["instance_image"], atol=1e-6)
        bad = bad or not same_cut
        return bool(bad), f"instance (1st, 2nd fetch) {[g.tolist() for g in got]} expected {want.tolist()}; re-crop boxes {[f['instance_bbox'][0][0].tolist() for f in fetched]}"
    if kind == "cropsize":
        from symx import fakes
        wx, wy = inputs["extent"]
        a = np.array([[3.0, 5.0], [3.0 + wx, 5.0 + wy]])
        lab = fakes.FLabels([fakes.FLF(None, 0, [fakes.FInst(a)], None)], [])
        ms, pad, mn = inputs["max_stride"], inputs["padding"], inputs["min_crop_size"]
        cs = ic.find_instance_crop_size(lab, padding=pad, maximum_stride=ms, input_scaling=1.0, min_crop_size=mn)
        need = max(max(wx, wy) + pad, mn or 0)
        bad = cs % ms != 0 or cs < need - 1e-9 or (cs - ms >= need and not ((mn or 0) > 0 and (mn or 0) % ms == 0))
        return bool(bad), f"crop size {cs} for extent {(wx, wy)} stride {ms} padding {pad} min {mn}"
    return False, "unknown"
