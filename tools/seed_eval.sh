#!/bin/bash
# tools/seed_eval.sh <out-dir of the sub-agent> <seed-id> <property> [tier] : confirm the seeded change and run our check against it.
# Applies the patch to /repo, runs demo + check, always reverts (git -C /repo checkout -- .).
set -u
OUT=$1; SID=$2; PROP=$3; TIER=${4:-quick}
cd /verif
# SEED_WT=<scratch worktree of /repo at the same HEAD>: evaluate there instead (used while long runs are reading /repo).
R=${SEED_WT:-/repo}
if [ "$R" != /repo ]; then
  git -C $R checkout -- . ; test "$(git -C $R rev-parse HEAD)" = "$(git -C /repo rev-parse HEAD)" || { echo "worktree HEAD differs"; exit 3; }
  export SLEAP_NN_REPO=$R SYMX_OUT_DIR=$(mktemp -d /tmp/seedout.XXXX)
fi
test -z "$(git -C $R status --porcelain)" || { echo "$R not clean"; exit 3; }
D=/verif/seeded/$SID; mkdir -p $D
cp $OUT/patch.diff $D/patch.diff; cp $OUT/demo.py $D/demo.py 2>/dev/null; cp $OUT/meta.json $D/agent_meta.json 2>/dev/null
echo "== demo on original"; (cd /tmp && PYTHONPATH=/repo timeout 600 /venv/bin/python $D/demo.py > $D/demo_orig.log 2>&1; echo "exit=$?" | tee -a $D/demo_orig.log); tail -2 $D/demo_orig.log
git -C $R apply $D/patch.diff || { echo "patch does not apply"; exit 3; }
echo "== demo on changed"; (cd /tmp && PYTHONPATH=$R timeout 600 /venv/bin/python $D/demo.py > $D/demo_changed.log 2>&1; echo "exit=$?" | tee -a $D/demo_changed.log); tail -2 $D/demo_changed.log
echo "== baseline tests on changed"; (cd $R && timeout 1800 /venv/bin/python -m pytest -q -p no:cacheprovider --timeout=900 --continue-on-collection-errors 2>&1 | tail -1 > $D/tests_changed.log); cat $D/tests_changed.log
echo "== check $PROP $TIER on changed"; ./check $PROP $TIER > $D/check_changed.log 2>&1; echo "check exit=$?" | tee -a $D/check_changed.log; grep -E "^VIOLATION|signature=|INCONCLUSIVE|KNOWN" $D/check_changed.log | head -8
git -C $R checkout -- . ; git -C $R status --porcelain
[ "$R" != /repo ] && rm -rf "$SYMX_OUT_DIR"
python3 - "$D" "$SID" "$PROP" "$TIER" "$R" <<'PY'
import json,sys,os,re
D,SID,PROP,TIER,R=sys.argv[1:6]
am=json.load(open(f"{D}/agent_meta.json")) if os.path.exists(f"{D}/agent_meta.json") else {}
log=open(f"{D}/check_changed.log").read()
viol=re.findall(r"signature=(\S+)",log)
ex=re.search(r"check exit=(\d+)",log)
meta={"seed_id":SID,"property":PROP,"summary":am.get("summary"),"needs_to_manifest":am.get("needs"),
 "confirmed":{"demo_on_original":open(f"{D}/demo_orig.log").read().strip().splitlines()[-1],"demo_on_changed":open(f"{D}/demo_changed.log").read().strip().splitlines()[-1],
              "baseline_suite_on_changed":open(f"{D}/tests_changed.log").read().strip()},
 "ran":(f"git -C /repo apply patch.diff; ./check {PROP} {TIER}; git -C /repo checkout -- ." if R=="/repo" else f"git -C <scratch worktree of /repo HEAD> apply patch.diff; SLEAP_NN_REPO=<worktree> ./check {PROP} {TIER}"),
 "check_exit":int(ex.group(1)) if ex else None,"detected":bool(re.search(r"^VIOLATION",log,re.M)),"signatures":sorted(set(viol))}
json.dump(meta,open(f"{D}/meta.json","w"),indent=1); print(json.dumps(meta)[:600])
PY
