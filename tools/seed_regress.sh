#!/bin/bash
# tools/seed_regress.sh [seed-id ...] : re-run the current quick checks against every recorded seeded change (in a scratch worktree of /repo HEAD,
# never in /repo itself) and report which are still detected.  Exit 1 if a previously detected seed is now missed.
set -u
cd /verif
WT=$(mktemp -d /tmp/seedwt.XXXX); rmdir $WT
git -C /repo worktree add -q --detach $WT HEAD || exit 3
trap 'git -C /repo worktree remove --force $WT >/dev/null 2>&1; rm -rf $OUT' EXIT
OUT=$(mktemp -d /tmp/seedout.XXXX)
ids=${@:-$(ls seeded)}
rc=0
for id in $ids; do
  prop=$(python3 -c "import json;print(json.load(open('seeded/$id/meta.json'))['property'])")
  git -C $WT checkout -q -- . ; git -C $WT apply /verif/seeded/$id/patch.diff || { echo "$id: patch does not apply"; rc=1; continue; }
  s=$(date +%s)
  SLEAP_NN_REPO=$WT SYMX_OUT_DIR=$OUT ./check $prop quick > $OUT/log 2>&1; e=$?
  sig=$(grep -o "signature=[^ ]*" $OUT/log | sort -u | head -3 | tr '\n' ' ')
  echo "$id prop=$prop exit=$e wall=$(( $(date +%s)-s ))s $( [ $e = 1 ] && echo DETECTED || echo MISSED ) $sig"
  [ $e = 1 ] || rc=1
done
exit $rc
