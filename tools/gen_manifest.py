#!/usr/bin/env python3
"""Regenerates /verif/MANIFEST.json from the table below (claimed checks) and the not-applicable list."""
import json, os, subprocess
V = os.path.dirname(os.path.dirname(os.path.abspath(__file__)))
BASELINE_OFF = "cd /repo && /venv/bin/python -m pytest -ra -q -p no:cacheprovider --timeout=900 --continue-on-collection-errors"
TECH = {
 "torch": "bounded symbolic execution of the real torch code (__torch_dispatch__ term front end, replay-based path exploration), z3 decides each sliced obligation; models replayed against the real code",
 "numpy": "bounded symbolic execution of the real numpy/Python code over object arrays of z3-backed scalars, z3 decides each obligation per path; models replayed against the real code",
 "shape": "bounded symbolic execution of the real torch.nn modules on a shape-only tensor stand-in with symbolic integer extents (__torch_function__ shape rules), z3 decides each shape obligation for all input sizes; models replayed against real torch",
 "crosshair": "CrossHair symbolic execution (z3) of the real Python functions under contracts, confirmed over all paths within stated bounds",
}
CLAIMED = {}   # id -> dict(engine=..., text=..., note=..., design=...)
NA = {}
exec(open(os.path.join(V, "tools", "manifest_table.py")).read())
checks = []
for pid in sorted(CLAIMED):
    c = CLAIMED[pid]
    checks.append({
        "property_id": pid, "quick_cmd": f"./check {pid} quick", "thorough_cmd": f"./check {pid} thorough",
        "evidence_file": f"evidence/{pid}.json", "replay_cmd_template": f"./check {pid} --replay {{path}}", "engine": "symx",
        "level_claimed": {"category": "other", "text": c["text"], "design_ref": c.get("design", "DESIGN.md section 2")},
        "level_note": c["note"], "technique": TECH[c["engine"]]})
hooks_commits = []
m = {"version": 1, "setup_cmd": "./setup.sh",
     "hooks": {"guard": "SLEAP_NN_VERIF", "enable": "no source hooks: all interposition is module-attribute substitution inside the check's own process (SLEAP_NN_VERIF=1 is exported by ./check but read by nothing in /repo)",
               "baseline_off_cmd": BASELINE_OFF, "source_commits": hooks_commits, "add_only": True},
     "engines": [{"name": "symx", "path": "symx/", "serves_properties": sorted(CLAIMED),
                  "kind_free_text": "solver-based bounded symbolic execution of the real code: torch __torch_dispatch__ term tensors, numpy object arrays of z3-backed scalars, CrossHair for pure Python; z3 is the deciding step; counterexamples are replayed on the real code before being reported"}],
     "checks": checks,
     "notes": "Exit codes: 0 all obligations unsat; 1 replayed violation (VIOLATION line); 2 inconclusive. Genuine defects found and repaired are listed in known_findings.json (status fixed) and DESIGN.md section 5.",
     "not_applicable": [{"property_id": k, "reason": v} for k, v in sorted(NA.items())]}
json.dump(m, open(os.path.join(V, "MANIFEST.json"), "w"), indent=1)
print("claimed", sorted(CLAIMED), "n/a", sorted(NA))
